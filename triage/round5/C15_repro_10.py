# conversion failures are ignored: the operation stores -1, reports success, and leaves a pending exception behind
from cvxopt import matrix
A = matrix([1, 2, 3])
raised_by_assignment = True
try:
    A[0] = 2**70
    raised_by_assignment = False
    len("abc")                        # an unrelated call picks up the stale OverflowError
except OverflowError as e:
    print("OverflowError; raised by the assignment statement itself:", raised_by_assignment)
print(list(A), "expected [1, 2, 3]")

A = matrix([1, 2, 3])
try:
    A += 2**70
    len("abc")
except OverflowError as e: print("OverflowError", e)
print(list(A), "expected [1, 2, 3]")

A = matrix([1., 2., 3.])
try:
    A[1] = 10**400
    len("abc")
except OverflowError as e: print("OverflowError", e)
print(list(A), "expected [1.0, 2.0, 3.0]")

try: matrix([2**70])
except BaseException as e: print(type(e).__name__, e)   # SystemError
