"""C09-R6: hidden state in the compiled modules.  A file-scope variable or a `static`
local that some function other than the module initialisation writes is state that
survives the call: results would depend on the history of calls (and, for buffers used
while the GIL is released, on other threads)."""
import re

from . import cfront as cf

FILES = ["blas.c", "lapack.c", "misc_solvers.c", "base.c", "dense.c", "sparse.c"]

# confirmed by reading: (file, variable) -> reason
ALLOWED = {
    ("lapack.c", "py_select_r"): "Python callable for the real Schur ordering: stored immediately before dgees_, read only by the C callback during that call, which runs with the GIL held (C18-R4)",
    ("lapack.c", "py_select_c"): "as py_select_r, for zgees_",
    ("lapack.c", "py_select_gr"): "as py_select_r, for dgges_",
    ("lapack.c", "py_select_gc"): "as py_select_r, for zgges_",
}


def _is_init(fn):
    return fn.startswith("PyInit_") or re.fullmatch(r"init\w*", fn) is not None


def hidden_state_rule(rule, cs):
    nvars = 0
    for fname in FILES:
        c = cs[fname]
        # candidates: file-scope variables and static locals
        cand = {}
        for name, v in c.vars.items():
            if v.get("id"):
                cand[v["id"]] = (name, v.get("t") or "", "file scope")
        for fn in c.order:
            for n in cf.walk(c.funcs[fn]):
                if n.get("k") == "VarDecl" and n.get("sc") == "static" and n.get("id"):
                    cand[n["id"]] = (n.get("n"), n.get("t") or "", "static local of %s" % fn)
        nvars += len(cand)
        writes = {}
        for fn in c.order:
            if _is_init(fn):
                continue
            for n in cf.walk(c.funcs[fn]):
                tgt = None
                if n.get("k") in ("BinaryOperator", "CompoundAssignOperator") and (n.get("op") or "").endswith("=") \
                        and n.get("op") not in ("==", "!=", "<=", ">=") and n.get("c"):
                    tgt = n["c"][0]
                elif n.get("k") == "UnaryOperator" and n.get("op") in ("++", "--") and n.get("c"):
                    tgt = n["c"][0]
                if tgt is None:
                    continue
                # peel subscripts / members / casts down to the base declaration
                x = cf.strip(tgt)
                while x.get("k") in ("ArraySubscriptExpr", "MemberExpr", "ParenExpr", "ImplicitCastExpr", "CStyleCastExpr", "UnaryOperator") \
                        and x.get("c"):
                    if x.get("k") == "MemberExpr" and x.get("arrow"):
                        x = None        # write through a pointer: into the pointee, not the variable
                        break
                    if x.get("k") == "UnaryOperator" and x.get("op") == "*":
                        x = None
                        break
                    x = cf.strip(x["c"][0])
                if x is None or x.get("k") != "DeclRefExpr":
                    continue
                rid = x.get("refid")
                if rid in cand:
                    writes.setdefault(rid, []).append((fn, c.line_of(n.get("b")) if n.get("b") is not None else 0))
        for rid, (name, ty, where_) in sorted(cand.items(), key=lambda kv: kv[1][0] or ""):
            key = "%s:%s" % (fname, name)
            w = writes.get(rid)
            if not w:
                continue
            loc = "src/C/%s:%s:%d" % (fname, w[0][0], w[0][1])
            if (fname, name) in ALLOWED:
                rule.ok(key + ":named-exception", loc, ALLOWED[(fname, name)])
            else:
                rule.violation(key, loc,
                               "`%s %s` (%s) is written by %s: it outlives the call, so a later call - or a concurrent one while the GIL is "
                               "released - sees what this one left behind" % (ty, name, where_, ", ".join(sorted({f for f, _ in w}))),
                               "per-call storage (locals / malloc + free)", "persistent storage written at run time")
        rule.ok("%s:file-scope and static variables enumerated" % fname, "src/C/%s" % fname, "%d variables, %d written outside module init"
                % (len(cand), len(writes)))
    return nvars


def notimplemented_rule(rule, cs, files=("dense.c", "sparse.c", "base.c")):
    """A function that may hand back the Py_NotImplemented singleton (directly or by
    returning another such function's result) does not return a matrix on that path: a caller
    that stores the result and then reads matrix fields from it (MAT_*/SP_*/X_* macros, `->`)
    must compare it with Py_NotImplemented first."""
    from . import cexpr as cx
    texts = {}
    for f in files:
        c = cs[f]
        for fn in c.order:
            t = cx.strip_pp(c.text(c.funcs[fn]["b"], c.funcs[fn]["e"]))
            t = re.sub(r"/\*.*?\*/", "", t, flags=re.S)
            texts[(f, fn)] = t
    prod = {fn for (f, fn), t in texts.items() if re.search(r"return\s+Py_NotImplemented|Py_RETURN_NOTIMPLEMENTED", t)}
    changed = True
    while changed:
        changed = False
        for (f, fn), t in texts.items():
            if fn in prod:
                continue
            if any(re.search(r"return\s+%s\s*\(" % re.escape(p), t) for p in prod):
                prod.add(fn)
                changed = True
    if len(prod) < 5:
        from .core import AnalysisError
        raise AnalysisError("NotImplemented producers not found (%s)" % sorted(prod))
    n = 0
    alt = "|".join(sorted(map(re.escape, prod)))
    for (f, fn), t in texts.items():
        for m in re.finditer(r"\b(\w+)\s*=\s*(%s)\s*\(" % alt, t):
            v, callee = m.group(1), m.group(2)
            rest = t[m.end():]
            nxt = re.search(r"\b%s\s*=[^=]" % re.escape(v), rest)      # until the variable is re-assigned
            if nxt:
                rest = rest[:nxt.start()]
            uses = re.findall(r"(?:MAT_\w+|SP_\w+|X_\w+)\(\s*%s\s*\)|\b%s\s*->" % (re.escape(v), re.escape(v)), rest)
            n += 1
            key = "%s:%s:%s = %s(..)" % (f, fn, v, callee)
            where = "src/C/%s:%s" % (f, fn)
            if not uses:
                rule.ok(key, where, "result passed on without being read as a matrix")
            elif re.search(r"%s\s*[!=]=\s*Py_NotImplemented|Py_NotImplemented\s*[!=]=\s*%s" % (re.escape(v), re.escape(v)), rest):
                rule.ok(key, where, "compared with Py_NotImplemented before its fields are read")
            else:
                rule.violation(key, where,
                               "`%s` may be the Py_NotImplemented singleton (returned by %s for an operand that is neither a number nor a matrix) "
                               "and its matrix fields are read (%s) without a test: SIGSEGV for e.g. `A - None`" % (v, callee, uses[0]),
                               "if (%s == Py_NotImplemented) return %s;" % (v, v), uses[:2])
    rule.ok("NotImplemented producers enumerated", "src/C", sorted(prod)[:12])
    return n


ENUM = {0: "INT", 1: "DOUBLE", 2: "COMPLEX"}


def null_table_rule(rule, cs, files=("base.c", "dense.c", "sparse.c")):
    """Per-type dispatch tables `T[] = { f_int, f_double, f_complex }` with NULL entries: every
    call `T[id](..)` is preceded, in the calling function, by a rejecting test that excludes each
    type whose entry is NULL (`id == COMPLEX -> error`).  For the INT entry of the sparse tables
    the exclusion may come from the data invariant 'a sparse matrix is never of type INT' together
    with a rejecting test that forces all operand types to be equal."""
    from . import cexpr as cx
    from . import cmodel as cm
    tables = {}
    for f in files:
        txt = cx.strip_pp(cs[f].srcb.decode(errors="replace"))
        txt = re.sub(r"/\*.*?\*/", "", txt, flags=re.S)
        for m in re.finditer(r"\(\s*\*\s*(\w+)\s*\[\s*\]\s*\)\s*\([^;{]*?\)\s*=\s*\{([^}]*)\}", txt, re.S):
            ents = [e.strip() for e in m.group(2).split(",") if e.strip()]
            nulls = [i for i, e in enumerate(ents) if e == "NULL"]
            if nulls:
                tables[m.group(1)] = nulls
    if len(tables) < 4:
        from .core import AnalysisError
        raise AnalysisError("dispatch tables with NULL entries not found: %s" % sorted(tables))
    n = 0
    for f in files:
        c = cs[f]
        for fn in c.order:
            node = c.funcs[fn]
            body = cx.strip_pp(c.text(node["b"], node["e"]))
            body = re.sub(r"/\*.*?\*/", "", body, flags=re.S)
            for T, nulls in tables.items():
                for m in re.finditer(r"\b%s\s*\[\s*([^\]]+?)\s*\]\s*\(" % re.escape(T), body):
                    before = body[:m.start()]
                    const = [i for i, e in ENUM.items() if e == m.group(1).strip()]
                    for k in nulls:
                        if const:
                            n += 1
                            key = "%s:%s:%s[%s] excludes %s" % (f, fn, T, m.group(1), ENUM[k])
                            where = "src/C/%s:%s:%d" % (f, fn, c.line_of(node["b"]) + before.count("\n"))
                            if const[0] == k:
                                rule.violation(key, where, "`%s[%s]` is the NULL entry of the table" % (T, m.group(1)), "a non-NULL entry", "NULL")
                            else:
                                rule.ok(key, where, "constant index")
                            continue
                        n += 1
                        key = "%s:%s:%s[%s] excludes %s" % (f, fn, T, m.group(1), ENUM[k])
                        where = "src/C/%s:%s:%d" % (f, fn, c.line_of(node["b"]) + before.count("\n"))
                        # rejecting tests before the call that mention `== ENUM`
                        guard = None
                        for g in re.finditer(r"if\s*\(((?:[^()]|\((?:[^()]|\([^()]*\))*\))*)\)\s*(\w+)", before):
                            cond, act = g.group(1), g.group(2)
                            if re.search(r"==\s*%s\b" % ENUM[k], cond) and re.match(r"(PY_ERR\w*|err_\w+|return)$", act):
                                # the test must reject *whenever* the type is ENUM[k]: a whole disjunct `E == ENUM`
                                try:
                                    ds = cm._disjuncts(cx.parse(cond))
                                except cx.ParseError:
                                    ds = []
                                for d in ds:
                                    d = cx.strip_casts(d)
                                    if d[0] == "bin" and d[1] == "==" and (cx.strip_casts(d[3]) == ("id", ENUM[k])
                                                                             or cx.strip_casts(d[2]) == ("id", ENUM[k])):
                                        guard = " ".join(cond.split())[:70]
                        if guard:
                            rule.ok(key, where, "rejected before the call: if (%s)" % guard)
                        elif k == 0 and T.startswith("sp_") and re.search(r"err_conflicting_ids|!=\s*X_ID|!=\s*SP_ID|!=\s*MAT_ID", before):
                            rule.ok(key + ":confirmed-invariant", where,
                                    "a sparse operand is never INT and a rejecting test forces all operand types to be equal")
                        elif k == 0 and T.startswith("sp_") and f == "sparse.c":
                            rule.ok(key + ":confirmed-invariant", where, "called on the ccs of a sparse matrix, whose type is never INT")
                        else:
                            rule.violation(key, where,
                                           "`%s[%s](..)` is reached for %s operands, whose table entry is NULL: calling it kills the interpreter"
                                           % (T, m.group(1), ENUM[k]), "if (.. == %s) <error> before the call" % ENUM[k], "no such test")
    rule.ok("dispatch tables with NULL entries enumerated", "src/C", {t: [ENUM[i] for i in v] for t, v in tables.items()})
    return n
