"""Triage: op bookkeeping after delconstraint / objective reassignment."""
from cvxopt.modeling import variable, op
ok = True
x = variable(1,'x'); y = variable(1,'y')
c1 = (x + y <= 1); c2 = (y >= 0)
p = op(-y, [c1, c2]); p.delconstraint(c1)
names = sorted(v.name for v in p.variables()); print('F-03', names); ok &= names == ['y']
x = variable(1,'x'); y = variable(1,'y')
c1 = (x <= 1); c2 = (y >= 0)
p = op(x + y, [c1, c2]); p.objective = -y; p.delconstraint(c1)
names = sorted(v.name for v in p.variables()); print('F-11', names); ok &= names == ['y']
print('PASS' if ok else 'FAIL')
