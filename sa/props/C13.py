"""C13 - an op object stays consistent under any sequence of edits (structural part)."""
import ast
import re

from .. import modeling_rules as mr
from .. import pyfront as pf
from ..core import Check, AnalysisError
from ..world import World

VARS = "self._variables"


def _expected_kind(node, method):
    """'i' or 'e': which constraint list the bookkeeping at node concerns, from the
    enclosing type test `c.type() == '<'` or the enclosing loop over the source list."""
    conds = pf.path_condition(node, cross_loops=True)
    for c in conds:
        r = repr(c)
        if r in ("('<' == c.type())", "(c.type() == '<')"):
            return "i"
        if r in ("!(('<' == c.type()))", "!((c.type() == '<'))"):
            return "e"
        if r in ("('=' == c.type())", "(c.type() == '=')"):
            return "e"
    p = node
    while p is not None and p is not method:
        if isinstance(p, ast.For):
            it = pf.norm_expr(p.iter)
            if it == "self._inequalities":
                return "i"
            if it == "self._equalities":
                return "e"
        p = getattr(p, "_parent", None)
    return None


def build(tier, repo):
    chk = Check(
        "C13", tier, repo,
        explanation=(
            "Static analysis of modeling.op's bookkeeping. The derived table _variables "
            "({variable: {'o': in objective, 'i': [inequalities], 'e': [equalities]}}) must be re-established "
            "by every method that edits objective/_inequalities/_equalities. Decides: (R1) every "
            "insert-or-create site has both arms, touches the list that matches the constraint type and "
            "creates entries whose only non-empty field is that list (or 'o' for the objective); (R2) "
            "deletion of an entry happens per variable inside the loop over the edited constraint's "
            "variables and only when all of 'o','i','e' are empty; an objective change clears 'o' on "
            "surviving variables and sets it on all variables of the new objective; (R3) the accessors "
            "return fresh lists; (R4) delconstraint removes from the source list before touching "
            "_variables, inside try/except ValueError; (R5) no use of a loop variable after its loop. NOT "
            "decided: equality of solve results with a freshly constructed op."),
        trusted_base=["CPython ast", "sa/pyfront.py path conditions"],
        assumptions=["variables()/constraints() of expressions return what the expression contains (C11)"])
    w = World(repo, need_c=False)
    m = w.mods["modeling"]
    cls = m.classes.get("op")
    if cls is None:
        raise AnalysisError("class op not found")
    methods = {n.name: n for n in cls.body if isinstance(n, ast.FunctionDef)}
    for need in ("__init__", "__setattr__", "addconstraint", "delconstraint", "variables", "constraints",
                 "inequalities", "equalities"):
        if need not in methods:
            raise AnalysisError("op.%s not found" % need)

    r1 = chk.rule("C13-R1", "insert-or-create sites of _variables: both arms, matching list, well-formed new entry",
                  "variables()/constraints() list exactly the current problem after addconstraint / construction / objective change")
    for mname in ("__init__", "addconstraint", "__setattr__"):
        fn = methods[mname]
        for n in ast.walk(fn):
            if not isinstance(n, ast.If):
                continue
            t = pf.norm_expr(n.test)
            if t not in ("(v in %s)" % VARS, "(v not in %s)" % VARS):
                continue
            present, absent = (n.body, n.orelse) if t.startswith("(v in") else (n.orelse, n.body)
            key = "op.%s:%s" % (mname, _ctx(n, fn))
            where = m.where(n, fn)
            if (not present or not absent) and mname == "addconstraint":
                # another form of insert-or-create (create an empty entry, then append under a selected key): decided by an abstract run
                from .. import bookkeeping as bk
                good, detail = True, []
                try:
                    for kind, lst in (("i", bk.INEQ), ("e", bk.EQ)):
                        for known in (True, False):
                            run_ = bk.run(fn, kind, known)
                            apps = [e_[1] for e_ in run_.events if e_[0] == "append"]
                            if apps != [lst]:
                                good = False
                                detail.append("type %s: appended to %s" % (kind, apps))
                            if known and [e_[1] for e_ in run_.events if e_[0] == "vappend"] != [kind]:
                                good = False
                                detail.append("known variable, type %s: %s" % (kind, run_.events))
                            if not known and run_.entry != {"o": False, "i": ["c"] if kind == "i" else [], "e": ["c"] if kind == "e" else []}:
                                good = False
                                detail.append("new variable, type %s: entry %s" % (kind, run_.entry))
                except bk.Unknown as ex:
                    r1.undecided(key, where, "insert-or-create form not modelled: %s" % ex)
                    continue
                if good:
                    r1.ok(key, where, "abstract run: known and new variables end with c in the matching list")
                else:
                    r1.violation(key + ":abstract-run", where, "the bookkeeping of addconstraint does not leave c in exactly the matching list of every variable",
                                 "entry['i'|'e'] gains c", detail)
                continue
            if not present or not absent:
                r1.violation(key + ":both-arms", where,
                             "the bookkeeping handles only %s variables: the other case leaves _variables stale"
                             % ("new" if absent else "known"), "update for known variables and creation for new ones",
                             "one arm missing")
                continue
            # present arm: which field is updated
            upd = None
            for s in present:
                if isinstance(s, ast.AugAssign) and pf.norm_expr(s.target).startswith("%s[v][" % VARS) \
                        and pf.norm_expr(s.value) == "[c]":
                    upd = ("list", s.target.slice.value)
                elif isinstance(s, ast.Assign) and pf.norm_expr(s.targets[0]) == "%s[v]['o']" % VARS \
                        and isinstance(s.value, ast.Constant) and s.value.value is True:
                    upd = ("flag", "o")
            new = None
            for s in absent:
                if isinstance(s, ast.Assign) and pf.norm_expr(s.targets[0]) == "%s[v]" % VARS and isinstance(s.value, ast.Dict):
                    new = {k.value: pf.norm_expr(v) for k, v in zip(s.value.keys, s.value.values) if isinstance(k, ast.Constant)}
            if upd is None or new is None:
                r1.violation(key + ":shape", where, "insert-or-create idiom not recognised (update of a field / creation of an entry)",
                             "field update + dict creation", "%s / %s" % (upd, new))
                continue
            if upd[0] == "flag":
                want = {"o": "True", "i": "[]", "e": "[]"}
                kind = "o"
            else:
                kind = _expected_kind(n, fn)
                if kind is None:
                    r1.undecided(key, where, "constraint type context not recognised")
                    continue
                if upd[1] != kind:
                    r1.violation(key + ":list", where, "a constraint of type %s is recorded in the '%s' list of known variables"
                                 % ("'<'" if kind == "i" else "'='", upd[1]), "'%s'" % kind, "'%s'" % upd[1])
                    continue
                want = {"o": "False", "i": "[c]" if kind == "i" else "[]", "e": "[c]" if kind == "e" else "[]"}
            if new != want:
                r1.violation(key + ":new-entry", where, "the entry created for a new variable does not match the update made for known ones",
                             want, new)
            else:
                r1.ok(key, where, "field '%s'; new entry %s" % (kind, want))
    r1.require(5)

    r2 = chk.rule("C13-R2", "deletions from _variables are per variable, inside the loop, and only when 'o','i','e' are all empty; objective change clears/sets 'o'",
                  "variables no longer referenced disappear; referenced ones stay")
    for mname in ("delconstraint", "__setattr__"):
        fn = methods[mname]
        for n in ast.walk(fn):
            if isinstance(n, ast.Delete) and any(pf.norm_expr(t) == "%s[v]" % VARS for t in n.targets):
                key = "op.%s:del _variables[v]" % mname
                where = m.where(n, fn)
                loop = None
                p = n
                while p is not None and p is not fn:
                    if isinstance(p, ast.For) and isinstance(p.target, ast.Name) and p.target.id == "v":
                        loop = p
                        break
                    p = getattr(p, "_parent", None)
                if loop is None:
                    r2.violation(key + ":in-loop", where,
                                 "the garbage-collection of a variable is outside the loop over the variables: only the last "
                                 "loop value is examined (and none if there was no iteration)",
                                 "inside `for v in <variables>`", "after the loop")
                    continue
                conds = pf.path_condition(n, stop=loop)
                txt = " ".join(repr(c) for c in conds)
                need = ["['i']", "['e']"] + (["['o']"] if mname == "delconstraint" else [])
                missing = [k for k in need if ("%s[v]%s" % (VARS, k)) not in txt]
                if missing:
                    r2.violation(key + ":condition", where, "a variable is dropped without checking %s" % missing,
                                 "not o and not i and not e", txt[:120])
                else:
                    r2.ok(key, where, txt[:100])
    fn = methods["__setattr__"]
    setter = [c for c in ast.walk(fn) if isinstance(c, ast.Call) and pf.norm_expr(c).startswith("object.__setattr__(self, 'objective'")]
    if not setter:
        raise AnalysisError("op.__setattr__: objective assignment not found")
    sline = setter[0].lineno
    clears = [s for s in ast.walk(fn) if isinstance(s, ast.Assign) and pf.norm_expr(s.targets[0]) == "%s[v]['o']" % VARS
              and isinstance(s.value, ast.Constant) and s.value.value is False and s.lineno < sline]
    sets = [s for s in ast.walk(fn) if isinstance(s, ast.Assign) and pf.norm_expr(s.targets[0]) == "%s[v]['o']" % VARS
            and isinstance(s.value, ast.Constant) and s.value.value is True and s.lineno > sline]
    if clears and any(isinstance(p, ast.For) for p in _parents(clears[0], fn)):
        r2.ok("op.__setattr__:clears 'o' of surviving variables before the new objective is stored", m.where(clears[0], fn))
    else:
        r2.violation("op.__setattr__:clears 'o' of surviving variables before the new objective is stored", m.where(setter[0], fn),
                     "variables of the old objective that stay in the problem through constraints keep 'o': True",
                     "_variables[v]['o'] = False in the loop preceding the assignment", "absent")
    if sets:
        r2.ok("op.__setattr__:sets 'o' for known variables of the new objective", m.where(sets[0], fn))
    else:
        r2.violation("op.__setattr__:sets 'o' for known variables of the new objective", m.where(setter[0], fn),
                     "known variables that enter the objective are not flagged", "_variables[v]['o'] = True", "absent")
    r2.require(4)

    r3 = chk.rule("C13-R3", "accessors return fresh lists", "the returned lists are copies")
    for mname in ("variables", "constraints", "inequalities", "equalities"):
        fn = methods[mname]
        rets = [r for r in ast.walk(fn) if isinstance(r, ast.Return)]
        for r in rets:
            v = r.value
            fresh = isinstance(v, ast.Call) or isinstance(v, ast.BinOp) or isinstance(v, (ast.List, ast.ListComp))
            key = "op.%s:returns a fresh list" % mname
            if fresh:
                r3.ok(key, m.where(r, fn), pf.norm_expr(v))
            else:
                r3.violation(key, m.where(r, fn), "the accessor hands out the internal list itself", "list(...)/a + b", pf.norm_expr(v))
    r3.require(4)

    r4 = chk.rule("C13-R4", "delconstraint: removal from the source list precedes every write to _variables, inside try/except ValueError",
                  "deleting an absent constraint never corrupts the bookkeeping")
    fn = methods["delconstraint"]
    tries = [t for t in ast.walk(fn) if isinstance(t, ast.Try)]
    if not tries or not any(h.type is not None and pf.norm_expr(h.type) == "ValueError" for h in tries[0].handlers):
        r4.violation("op.delconstraint:try/except ValueError", m.where(fn, fn), "no ValueError handler", "try ... except ValueError", "absent")
    else:
        t = tries[0]
        # the order and the targets of the bookkeeping events are read off an abstract run of the method (sa/bookkeeping.py),
        # for an inequality and for an equality - whatever the syntactic form (two arms, or list and key selected first)
        from .. import bookkeeping as bk
        for kind, lst in (("i", bk.INEQ), ("e", bk.EQ)):
            arm = "c.type() == '%s'" % ("<" if kind == "i" else "=")
            try:
                ev_ = bk.run(fn, kind, True).events
            except bk.Unknown as ex:
                r4.undecided("op.delconstraint:%s:source removal first" % arm, m.where(t, fn), "statement not modelled: %s" % ex)
                continue
            rem = [k_ for k_, e_ in enumerate(ev_) if e_[0] == "remove"]
            vw = [k_ for k_, e_ in enumerate(ev_) if e_[0] in ("vremove", "vappend", "vdel", "create")]
            key = "op.delconstraint:%s:source removal first" % arm
            if not rem or ev_[rem[0]][1] != lst:
                r4.violation(key, m.where(t, fn), "the constraint is not removed from %s" % lst, "%s.remove(c)" % lst, ev_)
            elif vw and vw[0] < rem[0]:
                r4.violation(key, m.where(t, fn), "_variables is modified before it is known that c is in the problem", "removal first", ev_)
            else:
                r4.ok(key, m.where(t, fn), ev_)
            key = "op.delconstraint:%s:removes c from the matching per-variable list" % arm
            vr = [e_[1] for e_ in ev_ if e_[0] == "vremove"]
            if vr == [kind]:
                r4.ok(key, m.where(t, fn), "%s[v]['%s'].remove(c)" % (VARS, kind))
            else:
                r4.violation(key, m.where(t, fn), "per-variable list does not match the source list", "%s[v]['%s'].remove(c)" % (VARS, kind), vr)
    r4.require(4)

    r5 = chk.rule("C13-R5", "no loop variable of an op method is read after its loop", "bookkeeping covers every variable, not only the last one")
    for mname in ("__init__", "__setattr__", "addconstraint", "delconstraint"):
        fn = methods[mname]
        cfg = pf.CFG(fn)
        loops = [n for n in pf._scope_nodes(fn) if isinstance(n, ast.For) and isinstance(n.target, ast.Name)]
        names = sorted({l.target.id for l in loops})
        rd = pf.reaching_defs(cfg, fn, names) if names else {}
        for loop in loops:
            tv = loop.target.id
            ln = cfg.node_of(loop)
            bad = None
            for node in cfg.nodes():
                st = cfg.node_stmt[node]
                if st is None or pf._within(st, loop) and st is not loop:
                    continue
                if st is loop:
                    continue
                for u in pf.node_uses(cfg, node):
                    if u.id == tv and ln in rd[node][tv]:
                        bad = u
                        break
                if bad:
                    break
            key = "op.%s:for %s in %s" % (mname, tv, pf.norm_expr(loop.iter)[:40])
            if bad is not None:
                r5.violation(key, m.where(bad, fn), "loop variable `%s` is read after its loop (only the last value, or none, is seen)" % tv,
                             "use inside the loop", m.seg(pf.enclosing_stmt(bad))[:80])
            else:
                r5.ok(key, m.where(loop, fn))
    r5.require(6)
    r6 = chk.rule("C13-R6", "solve() and its helpers write nothing reachable from the op except the documented results (status, values, multipliers)",
                  "solving does not change the problem: a second solve / an edit after a solve sees the objective and constraints that were written down")
    from ..effects import FunctionEffects
    RESULT_WRITES = (r"^self\.status = ", r"\.multiplier\.value = ", r"\.value = ")
    for mname in ("_inmatrixform", "solve", "tofile", "variables", "constraints", "inequalities", "equalities"):
        fn = methods.get(mname)
        if fn is None:
            raise AnalysisError("op.%s not found" % mname)
        fe = FunctionEffects(fn, m, containers={"self"}, protected={"self"})
        fe.deep_attrs = True
        fe.alias = {}
        fe.sinks = []
        fe._run()
        seen = set()
        for node, root, how, tgt in fe.sinks:
            txt = pf.norm_expr(node)
            if any(re.search(p_, txt) for p_ in RESULT_WRITES) and mname == "solve":
                r6.ok("op.%s:result write %s" % (mname, txt[:50]), m.where(node, fn), "documented result")
                continue
            key = "op.%s:write to the op via %s" % (mname, txt[:60])
            if key in seen:
                continue
            seen.add(key)
            r6.violation(key, m.where(node, fn),
                         "`%s` may share storage with an object of the op (%s) and is modified in place (%s): solving changes the stored problem"
                         % (pf.norm_expr(tgt)[:40], root, how), "work on a copy (+f)", m.seg(pf.enclosing_stmt(node))[:80])
        if not seen:
            r6.ok("op.%s:op not written" % mname, m.where(fn, fn))
    # the epigraph expansion of a constraint works on aliases of the constraint's own function (faff._linear IS self._f._linear):
    # nothing reachable from the constraint may be written in place
    for cq in ("constraint._aslinearineq",):
        fn = m.funcs.get(cq)
        if fn is None:
            raise AnalysisError("%s not found" % cq)
        fe = FunctionEffects(fn, m, containers={"self"}, protected={"self"})
        fe.deep_attrs = True
        fe.alias = {}
        fe.sinks = []
        fe._run()
        seen = set()
        for node, root, how, tgt in fe.sinks:
            key = "%s:write to the constraint via %s" % (cq, pf.norm_expr(node)[:60])
            if key in seen:
                continue
            seen.add(key)
            r6.violation(key, m.where(node, fn),
                         "`%s` may share storage with the constraint's own function (%s) and is modified in place (%s): every solve() rewrites the "
                         "user's constraint" % (pf.norm_expr(tgt)[:40], root, how), "build a new function (faff + ..)", m.seg(pf.enclosing_stmt(node))[:80])
        if not seen:
            r6.ok("%s:constraint not written" % cq, m.where(fn, fn))
    r6.require(5)
    r7 = chk.rule("C13-R7", "per-variable records are distinct objects: no `dict.fromkeys(.., <mutable>)` / `[<mutable>] * n` sharing one record between keys",
                  "the bookkeeping of one variable is independent of the others")
    nshare = 0
    for q, fn in m.funcs.items():
        for x in ast.walk(fn):
            bad = None
            if isinstance(x, ast.Call) and pf.call_name(x) in ("dict.fromkeys",) and len(x.args) == 2 \
                    and isinstance(x.args[1], (ast.Dict, ast.List, ast.Set, ast.DictComp, ast.ListComp)):
                bad = "dict.fromkeys(.., %s) stores one shared object under every key" % pf.norm_expr(x.args[1])[:40]
            if isinstance(x, ast.BinOp) and isinstance(x.op, ast.Mult):
                for side in (x.left, x.right):
                    if isinstance(side, ast.List) and len(side.elts) == 1 and isinstance(side.elts[0], (ast.Dict, ast.List, ast.Set)):
                        bad = "[<mutable>] * n repeats one shared object"
            if bad:
                nshare += 1
                r7.violation("modeling.%s:shared mutable record" % q, m.where(x, fn), bad + ": an update through one key is seen through all",
                             "a fresh record per key (comprehension / loop)", pf.norm_expr(x)[:80])
    # positive anchor: the record creation sites exist and build a fresh dict literal each
    fresh = [x for q, fn in m.funcs.items() if q.startswith("op.") for x in ast.walk(fn)
             if isinstance(x, ast.Assign) and isinstance(x.value, ast.Dict) and {pf.norm_expr(k) for k in x.value.keys if k is not None} >= {"'o'", "'i'", "'e'"}]
    for x in fresh:
        r7.ok("op:record created by a dict display @%s:%s" % (pf.norm_expr(x.targets[0])[:40], pf.norm_expr(x.value)[:40]), "src/python/modeling.py:%d" % x.lineno)
    r7.require(1)
    r8 = chk.rule("C13-R8", "identity-membership lists (varlist) stay varlists: a name bound to varlist() is only extended in place, never rebound to a plain list",
                  "variables() of expressions lists every distinct variable object (membership by identity, not by ==)")
    nvl = 0
    for q, fn in m.funcs.items():
        names = {a.targets[0].id for a in ast.walk(fn) if isinstance(a, ast.Assign) and len(a.targets) == 1 and isinstance(a.targets[0], ast.Name)
                 and isinstance(a.value, ast.Call) and pf.call_name(a.value) == "varlist" and not a.value.args}
        for nm in sorted(names):
            nvl += 1
            rebinds = [a for a in ast.walk(fn) if isinstance(a, ast.Assign) and len(a.targets) == 1 and isinstance(a.targets[0], ast.Name)
                       and a.targets[0].id == nm and not (isinstance(a.value, ast.Call) and pf.call_name(a.value) == "varlist")]
            key = "modeling.%s:%s stays a varlist" % (q, nm)
            if rebinds:
                r8.violation(key, m.where(rebinds[0], fn),
                             "`%s` was created as varlist() (membership by identity) and is rebound to `%s`: list + list gives a plain list, whose "
                             "`in` uses ==, and `variable == x` builds a constraint object that is always true" % (nm, pf.norm_expr(rebinds[0].value)[:50]),
                             "%s += [...]" % nm, pf.norm_expr(rebinds[0])[:70])
            else:
                r8.ok(key, m.where(fn, fn), "only extended in place")
    chk.note_analysed("varlist_accumulators", nvl)
    r8.require(1)
    r9 = chk.rule("C13-R9", "variables() accumulators filter on the list being extended; a refused edit precedes every bookkeeping write; no list is mutated while iterated",
                  "the bookkeeping lists exactly the variables of the problem; refused or failed edits never corrupt it")
    chk.note_analysed("accumulator_filters", mr.accumulator_filter_rule(r9, w))
    chk.note_analysed("refusals_in_edit_operations", mr.validate_then_mutate_rule(r9, w))
    chk.note_analysed("loops_with_list_mutation", mr.iterate_and_mutate_rule(r9, w))
    r9.require(4)
    from .. import w7_rules as w7
    r10 = chk.rule("C13-R10", "loops that update the per-variable bookkeeping table take their variables from .variables(), not from the linear coefficients alone",
                   "variables() lists every variable of the objective and the constraints, those inside max/min/abs terms included")
    chk.note_analysed("bookkeeping_update_loops", w7.bookkeeping_source_rule(r10, w.mods["modeling"].tree, "modeling.py"))
    r10.require(4)
    return chk


def _ctx(n, fn):
    out = []
    p = n
    while p is not None and p is not fn:
        q = getattr(p, "_parent", None)
        if isinstance(q, ast.For):
            out.append("for %s in %s" % (pf.norm_expr(q.target), pf.norm_expr(q.iter)[:30]))
        elif isinstance(q, ast.If) and q is not n:
            out.append(("if " if any(p is x for x in q.body) else "else of ") + pf.norm_expr(q.test)[:30])
        p = q
    return " / ".join(reversed(out))


def _parents(n, stop):
    p = getattr(n, "_parent", None)
    while p is not None and p is not stop:
        yield p
        p = getattr(p, "_parent", None)


def _branches(body):
    for s in body:
        if isinstance(s, ast.If):
            yield ("then(%s)" % pf.norm_expr(s.test)[:24], s.body)
            yield ("else(%s)" % pf.norm_expr(s.test)[:24], s.orelse)


def _flatten(stmts):
    for s in stmts:
        yield s
        for f in ("body", "orelse"):
            b = getattr(s, f, None)
            if isinstance(b, list) and not isinstance(s, ast.If):
                for x in _flatten(b):
                    yield x
