"""Triage: the Q-routines (orgqr/ungqr/orglq/unglq/ormqr/unmqr/ormlq/unmlq) reject a
consistent call when ldA > rows and the buffer ends with the last (partial) column."""
from cvxopt import matrix, lapack
m, n, k, ldA = 2, 2, 2, 3
A = matrix(1.0, ((n-1)*ldA + m, 1))      # exactly the footprint (n-1)*ldA + m = 5
tau = matrix(0.0, (k, 1))
try:
    lapack.geqrf(A, tau, m=m, n=n, ldA=ldA); print('geqrf accepted (same footprint)')
    lapack.orgqr(A, tau, m=m, n=n, k=k, ldA=ldA); print('orgqr accepted -> PASS')
except Exception as e:
    print('orgqr rejected:', type(e).__name__, e, '-> FAIL (over-rejection)')
