"""Concrete evaluation of C integer expressions (cexpr trees) under an environment:
truncating division, ternaries, comparisons, abs/MAX/MIN, `len(V)` symbols, and inlining of
one-line static helper functions (`static int f(..) { return E; }`)."""
import re

from . import cexpr as cx
from . import cfront as cf


class Unknown(Exception):
    pass


def _tdiv(a, b):
    if b == 0:
        raise ZeroDivisionError
    q = abs(a) // abs(b)
    return q if (a >= 0) == (b >= 0) else -q


def ceval(e, env, helpers=None):
    k = e[0]
    if k == "num":
        if isinstance(e[1], int):
            return e[1]
        raise Unknown("non-integer literal")
    if k == "id":
        if e[1] in env:
            return env[e[1]]
        raise Unknown("free variable %s" % e[1])
    if k == "cast":
        return ceval(e[2], env, helpers)
    if k == "un":
        v = ceval(e[2], env, helpers)
        if e[1] == "-":
            return -v
        if e[1] == "+":
            return v
        if e[1] == "!":
            return int(not v)
        raise Unknown("unary %s" % e[1])
    if k == "tern":
        return ceval(e[2], env, helpers) if ceval(e[1], env, helpers) else ceval(e[3], env, helpers)
    if k == "bin":
        op = e[1]
        if op == "&&":
            return int(bool(ceval(e[2], env, helpers)) and bool(ceval(e[3], env, helpers)))
        if op == "||":
            return int(bool(ceval(e[2], env, helpers)) or bool(ceval(e[3], env, helpers)))
        a, b = ceval(e[2], env, helpers), ceval(e[3], env, helpers)
        if op == "+":
            return a + b
        if op == "-":
            return a - b
        if op == "*":
            return a * b
        if op == "/":
            return _tdiv(a, b)
        if op == "%":
            return a - b * _tdiv(a, b)
        if op in ("<", ">", "<=", ">=", "==", "!="):
            return int({"<": a < b, ">": a > b, "<=": a <= b, ">=": a >= b, "==": a == b, "!=": a != b}[op])
        raise Unknown("operator %s" % op)
    if k == "call":
        nm, args = e[1], e[2]
        if nm in ("len", "MAT_LGT", "SP_LGT") and len(args) == 1 and args[0][0] == "id":
            key = "len(%s)" % args[0][1]
            if key in env:
                return env[key]
            raise Unknown(key)
        if nm == "abs" and len(args) == 1:
            return abs(ceval(args[0], env, helpers))
        if nm in ("MAX", "MIN") and len(args) == 2:
            a, b = ceval(args[0], env, helpers), ceval(args[1], env, helpers)
            return max(a, b) if nm == "MAX" else min(a, b)
        if helpers and nm in helpers and len(helpers[nm][0]) == len(args):
            params, body = helpers[nm]
            sub = dict(zip(params, [ceval(a, env, helpers) for a in args]))
            return ceval(body, sub, helpers)
        raise Unknown("call %s" % nm)
    txt = cx.unparse(e)
    if txt in env:
        return env[txt]
    raise Unknown(txt)


def one_line_helpers(c):
    """{name: ([params], body expr)} for the file's functions of the form `T f(params) { return E; }`"""
    out = {}
    for fn in c.order:
        node = c.funcs[fn]
        txt = cx.strip_pp(c.text(node["b"], node["e"]))
        m = re.match(r"[\w\s\*]*?\b%s\s*\(([^)]*)\)\s*\{\s*return\s+(.*?);\s*\}\s*$" % re.escape(fn), txt.strip(), re.S)
        if not m:
            continue
        params = []
        ok = True
        for p in [x.strip() for x in m.group(1).split(",") if x.strip()]:
            mm = re.search(r"(\w+)\s*$", p)
            if not mm:
                ok = False
                break
            params.append(mm.group(1))
        if not ok:
            continue
        try:
            out[fn] = (params, cx.parse(m.group(2)))
        except cx.ParseError:
            pass
    return out


def free_names(e, helpers=None, acc=None):
    """identifiers and len(V) symbols an expression needs"""
    acc = set() if acc is None else acc
    k = e[0]
    if k == "id":
        acc.add(e[1])
    elif k == "call":
        if e[1] in ("len", "MAT_LGT", "SP_LGT") and len(e[2]) == 1 and e[2][0][0] == "id":
            acc.add("len(%s)" % e[2][0][1])
        else:
            for a in e[2]:
                free_names(a, helpers, acc)
    elif k in ("un", "cast"):
        free_names(e[2], helpers, acc)
    elif k == "bin":
        free_names(e[2], helpers, acc)
        free_names(e[3], helpers, acc)
    elif k == "tern":
        for x in e[1:4]:
            free_names(x, helpers, acc)
    return acc
