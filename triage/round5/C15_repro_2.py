# integer remainder: C semantics instead of Python/floor semantics, and SIGFPE
import subprocess, sys
from cvxopt import matrix
print(list(matrix([-7, 7]) % 3),   "expected", [-7 % 3, 7 % 3])
print(list(matrix([-7, 7]) % -3),  "expected", [-7 % -3, 7 % -3])
print(list(matrix([-7., 7.]) % 3), "('d' matrix, follows Python)")
A = matrix([-7, 7]); A %= 3; print(list(A), "in-place, expected", [2, 1])
r = subprocess.run([sys.executable, "-c", "from cvxopt import matrix; print(matrix([-2**63]) % -1)"])
print("matrix([-2**63]) % -1 -> return code", r.returncode, "(-8 = SIGFPE)")
