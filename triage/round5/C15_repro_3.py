# imag() of an integer matrix raises instead of returning an integer zero matrix
from cvxopt import matrix
print(list(matrix([1., 2.]).imag()))       # [0.0, 0.0]  fine
try: print(list(matrix([1, 2]).imag()))    # documented: integer zero matrix
except Exception as e: print(type(e).__name__, e)
