"""F-24 witness (triage only): base.gemv with a sparse A that has no rows, m=1, n=0 divided by
A->nrows == 0 in sp_dgemv (`oA % A->nrows`): SIGFPE kills the interpreter.  After the fix the
call returns after scaling y."""
from cvxopt import matrix, base, spmatrix
A = spmatrix([], [], [], (0, 3))
x = matrix(1.0, (4, 1)); y = matrix(1.0, (4, 1))
base.gemv(A, x, y, trans='N', m=1, n=0)
print("survived; y[0] =", y[0])
