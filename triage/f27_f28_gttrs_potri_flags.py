from cvxopt import matrix, lapack
import cvxopt
n=4
dl=matrix([1.,2.,3.]); d=matrix([4.,5.,6.,7.]); du=matrix([0.5,0.25,0.125]); du2=matrix(0.0,(n-2,1)); ipiv=matrix(0,(n,1))
A=matrix(0.0,(n,n))
for i in range(n): A[i,i]=d[i]
for i in range(n-1): A[i+1,i]=dl[i]; A[i,i+1]=du[i]
lapack.gttrf(dl,d,du,du2,ipiv)
b=matrix([1.,2.,3.,4.])
for tr in ('N','T'):
    x=+b
    try:
        lapack.gttrs(dl,d,du,du2,ipiv,x,trans=tr)
        r1=max(abs(A*x-b)); r2=max(abs(A.T*x-b))
        print("gttrs trans=%s: |Ax-b|=%.2e |A'x-b|=%.2e"%(tr,r1,r2))
    except Exception as e: print("gttrs trans=%s:"%tr, type(e).__name__, e)
P=matrix([[4.,1.],[1.,3.]]); lapack.potrf(P)
for kw in ({}, {'uplo':'L'}):
    Q=+P
    try: lapack.potri(Q, **kw); print("potri",kw,"ok")
    except Exception as e: print("potri",kw,type(e).__name__,e)
