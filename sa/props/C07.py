"""C07 - KKT solvers and Nesterov-Todd scalings satisfy their linear-algebra contract
(structural necessary conditions only)."""
import ast
import re

from .. import cfront as cf
from .. import pyfront as pf
from .. import rules_common as rc
from ..core import Check, AnalysisError
from ..effects import FunctionEffects, WRITES
from ..world import World

DOC_KEYS = {"d", "di", "v", "beta", "r", "rti", "dnl", "dnli"}
PAIRS = {"d": "di", "di": "d", "dnl": "dnli", "dnli": "dnl", "r": "rti", "rti": "r"}
WNAMES = {"W", "W0", "We"}
INPLACE_FACTOR = {"lapack.potrf": 0, "lapack.sytrf": 0, "lapack.getrf": 0, "lapack.geqrf": 0, "lapack.pbtrf": 0}


def w_keys(node):
    """[(name, key, Subscript node, is_store)] for W['key'] accesses"""
    out = []
    for n in ast.walk(node):
        if isinstance(n, ast.Subscript) and isinstance(n.value, ast.Name) and n.value.id in WNAMES \
                and isinstance(n.slice, ast.Constant) and isinstance(n.slice.value, str):
            out.append((n.value.id, n.slice.value, n, isinstance(n.ctx, ast.Store)))
    return out


def written_w_keys(fn, mod):
    """keys k such that W[k] (or an element of it) is written in fn: assignment,
    augmented assignment, item assignment, or passed in a written position"""
    fe = FunctionEffects(fn, mod, containers=set(), protected=set())
    out = {}
    for s in [fn] + fe.nested:
        for n in pf._scope_nodes(s):
            for tgt, how in fe._sink_targets(n, s):
                t = tgt
                while isinstance(t, ast.Subscript):
                    if isinstance(t.value, ast.Name) and t.value.id in WNAMES and isinstance(t.slice, ast.Constant):
                        out.setdefault((t.value.id, t.slice.value), []).append(n)
                        break
                    t = t.value
            if isinstance(n, ast.Assign):
                for t in n.targets:
                    if isinstance(t, ast.Subscript) and isinstance(t.value, ast.Name) and t.value.id in WNAMES and isinstance(t.slice, ast.Constant):
                        out.setdefault((t.value.id, t.slice.value), []).append(n)
            if isinstance(n, ast.For):
                # `for r in W['r']: r[...] = ...` writes elements of W['r']
                it = n.iter
                if isinstance(it, ast.Subscript) and isinstance(it.value, ast.Name) and it.value.id in WNAMES and isinstance(it.slice, ast.Constant) \
                        and isinstance(n.target, ast.Name):
                    tv = n.target.id
                    for x in ast.walk(n):
                        if isinstance(x, ast.Subscript) and isinstance(x.ctx, ast.Store) and isinstance(x.value, ast.Name) and x.value.id == tv:
                            out.setdefault((it.value.id, it.slice.value), []).append(x)
    return out


def norm0(e):
    """text of an expression with the saved-copy marker removed: W0[..] -> W[..], x0 -> x"""
    t = ast.unparse(e)
    t = re.sub(r"\bW0\b", "W", t)
    t = re.sub(r"\b([A-Za-z_]+?[A-Za-z_2]*?)0\b", r"\1", t)
    return " ".join(t.split())


def is_saved(e):
    t = ast.unparse(e)
    return bool(re.search(r"\bW0\b", t)) or bool(re.fullmatch(r"[A-Za-z_]\w*0", t))


def build(tier, repo):
    chk = Check(
        "C07", tier, repo,
        explanation=(
            "The identities of C07 (residual of the block system, agreement of the five solvers, "
            "W z = W^-T s = lambda, drift bounds) are numerical and are NOT decided. Structural necessary "
            "conditions decided: (R1) the scaling dictionary has one vocabulary: every key written or read "
            "anywhere in coneprog/cvxprog/misc and by the C kernels is a documented key, every site that "
            "creates a scaling writes the full key set; (R2) inverse pairs (d/di, dnl/dnli, r/rti) are "
            "co-updated: a function that writes one member writes the other; (R3) cpl's save and restore of "
            "the scaling and iterates copy each object to/from its own saved counterpart; (R4) in the KKT "
            "factories a matrix that went through a failed in-place factorisation is rebuilt by an "
            "overwriting operation before it is accumulated into or read, and all assembly sites of one "
            "matrix add the same set of contributions (H, G, Df; A in the singular case); (R5) block-offset "
            "discipline in compute_scaling, update_scaling and the kkt_* factories."),
        trusted_base=["CPython ast", "sa/effects.py effect table", "sa/offsets.py", "clang (string literals of PyDict_GetItemString in misc_solvers.c)"],
        assumptions=["BLAS/LAPACK/CHOLMOD compute their documented operations"])
    w = World(repo)
    mods = w.mods

    r1 = chk.rule("C07-R1", "one vocabulary for the scaling dictionary (Python writers/readers, C readers); creators write the full key set",
                  "every scaling handed to a KKT solver carries d, di, v, beta, r, rti (and dnl, dnli)")
    used = {}
    for mn in ("coneprog", "cvxprog", "misc"):
        for name, key, node, st in w_keys(mods[mn].tree):
            used.setdefault(key, []).append((mn, node))
    for key, sites in sorted(used.items()):
        mn, node = sites[0]
        if key in DOC_KEYS:
            r1.ok("key '%s' (%d uses)" % (key, len(sites)), mods[mn].where(node))
        else:
            r1.violation("key '%s'" % key, mods[mn].where(node), "W['%s'] is not a key of the documented scaling dictionary" % key, sorted(DOC_KEYS), key)
    c = w.c["misc_solvers.c"]
    ckeys = set()
    for fn in c.funcs.values():
        for n in cf.walk(fn):
            if n.get("k") == "CallExpr" and cf.callee_name(n) == "PyDict_GetItemString" and len(n.get("c", [])) > 2:
                a0 = cf.strip(n["c"][1])
                if a0.get("ref") == "W":
                    sv = cf.string_value(n["c"][2])
                    if sv:
                        ckeys.add(sv)
    if not ckeys:
        raise AnalysisError("misc_solvers.c: no PyDict_GetItemString(W, ..) found")
    for k in sorted(ckeys):
        if k in DOC_KEYS:
            r1.ok("C kernels read W[\"%s\"]" % k, "src/C/misc_solvers.c")
        else:
            r1.violation("C kernels read W[\"%s\"]" % k, "src/C/misc_solvers.c", "the compiled kernels look up a key the Python side never writes", sorted(DOC_KEYS), k)
    # creators
    creators = []
    for mn, q in (("misc", "compute_scaling"), ("coneprog", "conelp"), ("coneprog", "coneqp"), ("cvxprog", "cpl")):
        fn = w.func(mn, q)
        m = mods[mn]
        for s in pf.stmts_of(fn):
            if isinstance(s, ast.Assign) and isinstance(s.targets[0], ast.Name) and s.targets[0].id in WNAMES \
                    and isinstance(s.value, ast.Dict) and not s.value.keys:
                nm = s.targets[0].id
                blk = None
                par = s._parent
                for f_ in ("body", "orelse"):
                    b = getattr(par, f_, None)
                    if isinstance(b, list) and any(x is s for x in b):
                        blk = b
                idx = [i for i, x in enumerate(blk) if x is s][0]
                keys = set()
                for t in blk[idx + 1:]:
                    for n_, k_, node, st in w_keys(t):
                        if n_ == nm and st:
                            keys.add(k_)
                need = {"d", "di", "v", "beta", "r", "rti"}
                key = "%s.%s:%s = {} creator" % (mn, q, nm)
                if need <= keys:
                    r1.ok(key, m.where(s, fn), sorted(keys))
                else:
                    r1.violation(key, m.where(s, fn), "a scaling dictionary is created without the keys %s" % sorted(need - keys), sorted(need), sorted(keys))
        for d in [n for n in ast.walk(fn) if isinstance(n, ast.Dict) and n.keys and all(isinstance(k, ast.Constant) for k in n.keys)]:
            ks = {k.value for k in d.keys}
            if {"d", "di"} <= ks:
                key = "%s.%s:literal scaling" % (mn, q)
                need = {"d", "di", "v", "beta", "r", "rti"}
                if need <= ks:
                    r1.ok(key, m.where(d, fn), sorted(ks))
                else:
                    r1.violation(key, m.where(d, fn), "literal scaling dictionary lacks %s" % sorted(need - ks), sorted(need), sorted(ks))

    r2 = chk.rule("C07-R2", "inverse pairs d/di, dnl/dnli, r/rti are co-updated in every function that writes one of them",
                  "di is the reciprocal of d, rti the inverse transpose of r, after every update")
    for mn in ("misc", "coneprog", "cvxprog"):
        m = mods[mn]
        for q, fn in m.funcs.items():
            if "." in q and not q.startswith(("conelp", "coneqp", "cpl", "cp")):
                pass
            wk = written_w_keys(fn, m)
            if not wk:
                continue
            for (nm, key), nodes in sorted(wk.items()):
                if key not in PAIRS:
                    continue
                partner = PAIRS[key]
                k2 = "%s.%s:%s['%s'] written => %s['%s'] written" % (mn, q, nm, key, nm, partner)
                if (nm, partner) in wk:
                    r2.ok(k2, m.where(nodes[0], fn))
                else:
                    r2.violation(k2, m.where(nodes[0], fn),
                                 "%s['%s'] is modified but its inverse partner %s['%s'] is not: the scaling no longer satisfies its invariant"
                                 % (nm, key, nm, partner), "both members written", "only '%s'" % key)

    r3 = chk.rule("C07-R3", "cpl save/restore: every copy goes between an object and its own saved counterpart",
                  "the scaling restored after a failed relaxed step is the one that was saved")
    cpl = w.func("cvxprog", "cpl")
    m = mods["cvxprog"]
    ncopy = 0
    for n in pf._scope_nodes(cpl):
        if isinstance(n, ast.Call) and pf.call_name(n) in ("blas.copy", "xcopy", "ycopy") and len(n.args) >= 2:
            a, b = n.args[0], n.args[1]
            if not (is_saved(a) or is_saved(b)):
                continue
            ncopy += 1
            key = "cpl:%s" % pf.norm_expr(n)
            if is_saved(a) and is_saved(b):
                r3.violation(key, m.where(n, cpl), "copy between two saved objects", "live <-> saved", pf.norm_expr(n))
            elif norm0(a) == norm0(b):
                r3.ok(key, m.where(n, cpl))
            else:
                r3.violation(key, m.where(n, cpl),
                             "`%s` is copied to `%s`: not its own saved counterpart, so the saved state is inconsistent with the live one"
                             % (ast.unparse(a), ast.unparse(b)), "%s <-> %s" % (norm0(a), norm0(a)), "%s vs %s" % (norm0(a), norm0(b)))
        if isinstance(n, ast.Assign) and isinstance(n.targets[0], ast.Subscript) and is_saved(n.targets[0]) != is_saved(n.value) \
                and isinstance(n.value, ast.Subscript):
            ncopy += 1
            key = "cpl:%s" % pf.norm_expr(n)
            if norm0(n.targets[0]) == norm0(n.value):
                r3.ok(key, m.where(n, cpl))
            else:
                r3.violation(key, m.where(n, cpl), "saved/live element assignment between different objects", norm0(n.value), norm0(n.targets[0]))
    chk.note_analysed("save_restore_copies", ncopy)
    # direction: all copies of one save block / one restore block go the same way
    DIR_EXC = {"lmbdasq": "F-13: the restore block copies lmbdasq -> lmbdasq0 instead of back, so the centering term of the one search "
                          "direction computed after a restore uses lambda o lambda of the abandoned iterate; lmbdasq is no part of the "
                          "scaling W, of the KKT system or of any reported quantity (it is recomputed by ssqr at the next iteration), "
                          "so no clause of C07 is affected - recorded as an observation, not suppressed for any other object"}
    groups = {}
    for n in pf._scope_nodes(cpl):
        d = None
        if isinstance(n, ast.Call) and pf.call_name(n) in ("blas.copy", "xcopy", "ycopy") and len(n.args) >= 2:
            a, b = n.args[0], n.args[1]
            if is_saved(a) != is_saved(b) and norm0(a) == norm0(b):
                d = "restore" if is_saved(a) else "save"
        elif isinstance(n, ast.Assign) and isinstance(n.targets[0], ast.Subscript) and isinstance(n.value, ast.Subscript) \
                and is_saved(n.targets[0]) != is_saved(n.value) and norm0(n.targets[0]) == norm0(n.value):
            d = "restore" if is_saved(n.value) else "save"
        if d is None and isinstance(n, ast.Assign) and len(n.targets) == 1:
            # scalar state: `step = step0`, `phi, gap = phi0, gap0`
            t_, v_ = n.targets[0], n.value
            prs = list(zip(t_.elts, v_.elts)) if isinstance(t_, ast.Tuple) and isinstance(v_, ast.Tuple) and len(t_.elts) == len(v_.elts) \
                else [(t_, v_)]
            ds = set()
            for a_, b_ in prs:
                if isinstance(a_, ast.Name) and isinstance(b_, ast.Name) and is_saved(a_) != is_saved(b_) and norm0(a_) == norm0(b_):
                    ds.add("restore" if is_saved(b_) else "save")
            if len(ds) == 1:
                d = ds.pop()
        if d is None:
            continue
        g = n
        while g is not cpl and not isinstance(g, (ast.If, ast.ExceptHandler, ast.Try)):
            g = g._parent
        # the branch of the If the node sits in
        br = "body"
        if isinstance(g, ast.If):
            x = n
            while x._parent is not g:
                x = x._parent
            br = "body" if any(x is y for y in g.body) else "orelse"
        groups.setdefault((id(g), br), []).append((n, d))
    for (gid, br), items in groups.items():
        if len(items) < 3:
            continue
        nsave = sum(1 for _, d in items if d == "save")
        major = "save" if nsave * 2 >= len(items) else "restore"
        for n, d in items:
            key = "cpl:direction:%s" % pf.norm_expr(n)[:70]
            if d == major:
                r3.ok(key, m.where(n, cpl), major)
                continue
            exc = [k_ for k_ in DIR_EXC if re.search(r"\b%s\b" % k_, pf.norm_expr(n))]
            if exc:
                r3.ok(key + ":named-exception", m.where(n, cpl), DIR_EXC[exc[0]])
            else:
                r3.violation(key, m.where(n, cpl),
                             "this copy goes the opposite way (%s) of the %d other copies of its block (%s): the %s state keeps the other one's values"
                             % (d, len(items) - 1, major, "live" if major == "restore" else "saved"),
                             "%s like its siblings" % major, d)
    # direction of restores (observation only, see DESIGN F-13)
    for n in pf._scope_nodes(cpl):
        if isinstance(n, ast.Call) and pf.call_name(n) == "blas.copy" and len(n.args) >= 2 and is_saved(n.args[1]) and not is_saved(n.args[0]):
            conds = pf.path_condition(n, cross_loops=True)
            if any("ArithmeticError" in repr(c) for c in conds) or any(isinstance(p, ast.ExceptHandler) for p in _parents(n, cpl)):
                r3.observe("copy in a restore block goes live -> saved: %s (line %d)" % (pf.norm_expr(n), n.lineno))

    r4 = chk.rule("C07-R4", "KKT factories: a matrix whose in-place factorisation failed is rebuilt before reuse; assembly sites of one matrix add the same contributions",
                  "each solver solves the documented block system also after the singular-case fallback")
    fallback_rule(r4, w)

    r6 = chk.rule("C07-R6", "KKT factories: work matrices that persist between factor() calls and are overwritten in place are defined in full "
                            "before anything reads them; the symmetrisation follows the last lower-triangular contribution and precedes the two-sided transform",
                  "repeated factor/solve calls on one factory do not interfere; the reduced matrix is the documented one")
    nf = factory_state_rule(r6, w)
    chk.note_analysed("persistent_factory_matrices", nf)
    r6.require(6)

    r7 = chk.rule("C07-R7", "paired kernel calls agree: d := d.*s./z (tbmv/tbsv on the same diagonal) address the same block; Householder reflectors are "
                            "applied (ormqr) with the offset and count they were computed with (geqrf); consecutive double scalings W^{-1}W^{-T} keep one order per factory",
                  "d/di, W z = W^{-T} s = lambda after every update; all five solvers solve the same system")
    npair = paired_calls_rule(r7, w)
    nex = exclusive_contribution_rule(r4, w)
    r4.ok("kkt_*: additive contributions are not placed in alternative arms", "src/python/misc.py", "%d alternative-arm pairs examined" % nex)
    chk.note_analysed("paired_kernel_calls", npair)
    r7.require(5)

    r5 = chk.rule("C07-R5", "block-offset discipline in compute_scaling, update_scaling and the kkt_* factories", "scalings and reduced systems address the right blocks")
    rc.offsets_rule(r5, w, [("misc", "compute_scaling"), ("misc", "update_scaling"), ("misc", "kkt_ldl.*"), ("misc", "kkt_ldl2.*"),
                            ("misc", "kkt_chol.*"), ("misc", "kkt_chol2.*"), ("misc", "kkt_qr.*")])
    return chk


def fallback_rule(r4, w):
    """R4: typestate of matrices that went through a failed in-place factorisation, and
    agreement of the contribution sets of all assembly sites (shared with C03)."""
    mods = w.mods
    mm = mods["misc"]
    for q, fn in mm.funcs.items():
        if not q.startswith("kkt_"):
            continue
        for t in [n for n in ast.walk(fn) if isinstance(n, ast.Try)]:
            victims = []
            for n in ast.walk(ast.Module(body=t.body, type_ignores=[])):
                if isinstance(n, ast.Call) and pf.call_name(n) in INPLACE_FACTOR and n.args:
                    victims.append(pf.norm_expr(n.args[INPLACE_FACTOR[pf.call_name(n)]]))
            for h in t.handlers:
                if not (h.type is not None and "ArithmeticError" in ast.unparse(h.type)):
                    continue
                for vic in set(victims):
                    state, verdict = _scan_clobbered(h.body, vic, "clobbered")
                    key = "%s:%s after failed in-place factorisation" % (q, vic)
                    if verdict is not None:
                        r4.violation(key, mm.where(verdict, fn),
                                     "`%s` has been partly overwritten by the failed factorisation and is %s before being rebuilt on "
                                     "some path through the handler" % (vic, "accumulated into" if _write_kind(verdict, vic) == "accumulate" else "read"),
                                     "an overwriting assembly (syrk with beta = 0 / assignment) on every path first", pf.norm_expr(verdict)[:80])
                    elif state == "rebuilt":
                        r4.ok(key, mm.where(h, fn), "rebuilt by an overwriting operation on every path before any use")
                    else:
                        r4.undecided(key, mm.where(h, fn), "handler does not touch the matrix")
        # contribution sets per assembly site
        sites = _assembly_sites(fn)
        for target, groups in sites.items():
            base = None
            for label, contrib, node in groups:
                core = {c_ for c_ in contrib if not c_.startswith("syrk(A")}
                if base is None:
                    base = (label, core)
                    r4.ok("%s:%s assembled @%s" % (q, target, label), mm.where(node, fn), sorted(contrib))
                    continue
                key = "%s:%s assembled @%s ~ @%s" % (q, target, label, base[0])
                if core == base[1]:
                    r4.ok(key, mm.where(node, fn), sorted(contrib))
                else:
                    r4.violation(key, mm.where(node, fn),
                                 "this assembly of %s adds %s but the one at %s adds %s: the two code paths factor different matrices"
                                 % (target, sorted(core), base[0], sorted(base[1])), sorted(base[1]), sorted(core))



def exclusive_contribution_rule(rule, w):
    """Additive contributions to one matrix (`S += H`, `syrk(A, S, beta = 1.0)`) are
    independent terms of a sum: two *different* terms must not sit in alternative arms of one
    if / elif chain (one would be dropped whenever the other is present)."""
    mm = w.mods["misc"]
    n = 0
    for q, fn in mm.funcs.items():
        if not q.startswith("kkt_") or "." in q:
            continue
        for st in ast.walk(fn):
            if not (isinstance(st, ast.If) and st.orelse):
                continue
            def terms(stmts):
                out = {}
                for x in stmts:
                    for y in ([x] if not isinstance(x, ast.If) else []):
                        if isinstance(y, ast.AugAssign) and isinstance(y.op, ast.Add):
                            out.setdefault(pf.norm_expr(y.target).split("[:")[0], set()).add("+= " + pf.norm_expr(y.value))
                        elif isinstance(y, ast.Expr) and isinstance(y.value, ast.Call) and pf.call_name(y.value) in ("base.syrk", "blas.syrk") \
                                and len(y.value.args) >= 2 and _kw(y.value, "beta") not in (None, "0.0"):
                            out.setdefault(pf.norm_expr(y.value.args[1]), set()).add("syrk(%s)" % pf.norm_expr(y.value.args[0]))
                return out
            a = terms(st.body)
            orelse = st.orelse
            b = terms(orelse[0].body) if len(orelse) == 1 and isinstance(orelse[0], ast.If) else terms(orelse)
            for tgt in set(a) & set(b):
                n += 1
                key = "misc.%s:contributions to %s in alternative arms" % (q, tgt)
                if a[tgt] == b[tgt]:
                    rule.ok(key, mm.where(st, fn), sorted(a[tgt]))
                else:
                    rule.violation(key, mm.where(st, fn),
                                   "%s receives `%s` in one arm and `%s` in the alternative arm of the same if-chain: the terms of the sum have become "
                                   "mutually exclusive" % (tgt, sorted(a[tgt])[0], sorted(b[tgt])[0]), "independent `if` statements", pf.norm_expr(st.test)[:60])
    return n


def _parents(n, stop):
    p = getattr(n, "_parent", None)
    while p is not None and p is not stop:
        yield p
        p = getattr(p, "_parent", None)


def _linear(stmts):
    """statements of a block in program order, descending into if-bodies (both arms)"""
    for s in stmts:
        yield s
        if isinstance(s, ast.If):
            for x in _linear(s.body):
                yield x
            for x in _linear(s.orelse):
                yield x


def _scan_clobbered(stmts, vic, state):
    """must-analysis over a block: -> (state after the block, first offending statement)"""
    for s in stmts:
        if isinstance(s, ast.If):
            tk = _write_kind(s, vic)
            mentions = any(pf.norm_expr(x) == vic for x in ast.walk(s.test))
            if state == "clobbered" and mentions and tk != "typetest":
                return state, s
            s1, v1 = _scan_clobbered(s.body, vic, state)
            if v1 is not None:
                return s1, v1
            s2, v2 = _scan_clobbered(s.orelse, vic, state)
            if v2 is not None:
                return s2, v2
            state = "rebuilt" if (s1 == "rebuilt" and s2 == "rebuilt") else state
            continue
        if isinstance(s, (ast.For, ast.While)):
            s1, v1 = _scan_clobbered(s.body, vic, state)
            if v1 is not None:
                return s1, v1
            continue
        if not any(pf.norm_expr(x) == vic for x in ast.walk(s)):
            continue
        if state == "rebuilt":
            continue
        kind = _write_kind(s, vic)
        if kind == "overwrite":
            state = "rebuilt"
        elif kind == "typetest":
            continue
        else:
            return state, s
    return state, None


def _write_kind(s, vic):
    """how statement s touches expression `vic`: overwrite / accumulate / typetest / read"""
    if isinstance(s, ast.If):
        t = pf.norm_expr(s.test)
        if "type(%s)" % vic in t or "isinstance(%s" % vic in t:
            return "typetest"
        return "read"
    if isinstance(s, ast.Assign) and any(pf.norm_expr(t) == vic for t in s.targets):
        return "overwrite" if vic not in pf.norm_expr(s.value) else "accumulate"
    if isinstance(s, ast.AugAssign) and pf.norm_expr(s.target) == vic:
        return "accumulate"
    if isinstance(s, ast.Expr) and isinstance(s.value, ast.Call):
        c = s.value
        nm = pf.call_name(c)
        if nm in ("base.syrk", "blas.syrk") and len(c.args) >= 2 and pf.norm_expr(c.args[1]) == vic:
            beta = [k for k in c.keywords if k.arg == "beta"]
            if not beta or (isinstance(beta[0].value, ast.Constant) and beta[0].value.value == 0.0):
                return "overwrite"
            return "accumulate"
        if nm in ("blas.copy", "lapack.lacpy") and len(c.args) >= 2 and pf.norm_expr(c.args[1]) == vic:
            return "overwrite"
        if nm in WRITES and any(i < len(c.args) and pf.norm_expr(c.args[i]) == vic for i in WRITES[nm]):
            return "accumulate"
    return "read"


def _assembly_sites(fn):
    """{target text: [(label, contributions, node)]}: straight-line groups of statements that
    build F['S'] / K before a factorisation call"""
    out = {}
    for blk in _blocks(fn):
        cur = {}
        for s in blk:
            for x in ([s] if not isinstance(s, ast.If) else list(_linear([s]))):
                if isinstance(x, ast.Expr) and isinstance(x.value, ast.Call) and pf.call_name(x.value) in ("base.syrk", "blas.syrk") \
                        and len(x.value.args) >= 2:
                    tgt = pf.norm_expr(x.value.args[1])
                    cur.setdefault(tgt, []).append("syrk(%s)" % pf.norm_expr(x.value.args[0]))
                elif isinstance(x, ast.AugAssign) and isinstance(x.op, ast.Add):
                    tgt = pf.norm_expr(x.target)
                    cur.setdefault(tgt, []).append("+= %s" % pf.norm_expr(x.value))
                elif isinstance(x, ast.Expr) and isinstance(x.value, ast.Call) and pf.call_name(x.value) in ("lapack.potrf", "cholmod.numeric") \
                        and x.value.args:
                    tgt = pf.norm_expr(x.value.args[0])
                    if tgt in cur and len(cur[tgt]) >= 2:
                        out.setdefault(tgt, []).append(("line %d" % x.lineno, set(cur[tgt]), x))
                        cur.pop(tgt)
    return {k: v for k, v in out.items() if len(v) >= 2}


def _blocks(fn):
    out = []

    def walk(stmts):
        out.append(stmts)
        for s in stmts:
            if isinstance(s, (ast.FunctionDef,)) and s is not fn:
                walk(s.body)
                continue
            for f in ("body", "orelse", "finalbody"):
                b = getattr(s, f, None)
                if isinstance(b, list) and b and not isinstance(s, ast.FunctionDef):
                    walk(b)
            if isinstance(s, ast.Try):
                for h in s.handlers:
                    walk(h.body)
    walk(fn.body)
    return out


# in-place producers / consumers of the work matrices of the kkt_* factories
CLOBBER = {"lapack.sytrf": [0], "lapack.potrf": [0], "lapack.geqrf": [0], "lapack.getrf": [0], "lapack.ormqr": [2],
           "scale": [0], "pack2": [0], "lapack.trtrs": [1], "lapack.potrs": [1], "lapack.sytrs": [2]}
READS = {"lapack.sytrf": [0], "lapack.potrf": [0], "lapack.geqrf": [0], "lapack.ormqr": [0, 2], "scale": [0], "pack2": [0],
         "blas.gemv": [0, 1], "blas.gemm": [0, 1], "blas.trsm": [0, 1], "blas.trsv": [0, 1], "blas.syrk": [0], "blas.copy": [0],
         "lapack.trtrs": [0, 1], "lapack.potrs": [0, 1], "lapack.sytrs": [0, 2], "symm": [0], "misc.symm": [0], "blas.axpy": [0, 1],
         "blas.scal": [1], "blas.tbsv": [0, 1], "blas.tbmv": [0, 1]}


def _slice_txt(sub):
    t = " ".join(ast.unparse(sub.slice).split())
    if t.startswith("(") and t.endswith(")"):
        t = t[1:-1]
    return t


def factory_state_rule(rule, w):
    mm = w.mods["misc"]
    count = 0
    for q, fn in mm.funcs.items():
        if not q.startswith("kkt_") or "." in q:
            continue
        fac = next((n for n in fn.body if isinstance(n, ast.FunctionDef) and n.name == "factor"), None)
        if fac is None:
            continue
        pers = [n.targets[0].id for n in fn.body if isinstance(n, ast.Assign) and len(n.targets) == 1 and isinstance(n.targets[0], ast.Name)
                and isinstance(n.value, ast.Call) and pf.call_name(n.value) == "matrix"]
        stmts = [st for st in fac.body if not isinstance(st, ast.FunctionDef)]
        for P in pers:
            clob = False
            for x in ast.walk(fac):
                if isinstance(x, ast.Call) and pf.call_name(x) in CLOBBER:
                    for i in CLOBBER[pf.call_name(x)]:
                        if i < len(x.args) and isinstance(x.args[i], ast.Name) and x.args[i].id == P:
                            clob = True
            if not clob:
                continue
            count += 1
            key = "misc.%s.factor:%s defined in full before read" % (q, P)
            verdict = _first_read_before_full_def(stmts, P)
            where = mm.where(verdict[1], fn) if verdict[1] is not None else mm.where(fac, fn)
            if verdict[0] == "undecided":
                count -= 1          # only read by solve(): nothing to decide in factor()
                continue
            if verdict[0] == "ok":
                rule.ok(key, where, verdict[2])
            elif verdict[0] == "bad":
                rule.violation(key, where,
                               "`%s` keeps the result of the previous factor() call (it is overwritten in place by a factorisation) and is "
                               "read here after only partial re-initialisation (%s): the second and later calls on one factory use stale entries"
                               % (P, verdict[2]), "full definition (blas.scal(0.0, %s) / %s[:,:] = .. / syrk with beta 0) first" % (P, P), verdict[2])
            else:
                rule.undecided(key, where, verdict[2])
        # triangle typestate of matrices that receive a two-sided orthogonal transform
        for P in pers:
            two_sided = [x for x in ast.walk(fac) if isinstance(x, ast.Call) and pf.call_name(x) == "lapack.ormqr" and len(x.args) > 2
                         and isinstance(x.args[2], ast.Name) and x.args[2].id == P]
            syms = [x for x in ast.walk(fac) if isinstance(x, ast.Call) and pf.call_name(x) in ("symm", "misc.symm") and x.args
                    and isinstance(x.args[0], ast.Name) and x.args[0].id == P]
            if not two_sided or not syms:
                continue
            count += 1
            key = "misc.%s.factor:%s symmetric when transformed" % (q, P)
            state, bad = "unknown", None
            for st in stmts:
                for ev, node in _triangle_events(st, P):
                    if ev == "lower":
                        state = "lower"
                    elif ev == "symm":
                        state = "full"
                    elif ev == "need-full" and state != "full" and bad is None:
                        bad = node
            if bad is not None:
                rule.violation(key, mm.where(bad, fn),
                               "`%s` is multiplied by Q on both sides while only its lower triangle is valid: a lower-triangular contribution "
                               "(syrk / += H, H in 'L' storage) is added after the symmetrisation, or the symmetrisation is missing" % P,
                               "symm(%s, n) after the last lower-triangular update and before ormqr" % P, "state: %s" % state)
            else:
                rule.ok(key, mm.where(two_sided[0], fn), "syrk/+= -> symm -> ormqr")
    return count


def _triangle_events(st, P):
    out = []
    for x in ast.walk(st):
        if isinstance(x, ast.Call):
            nm = pf.call_name(x)
            if nm == "blas.syrk" and len(x.args) > 1 and isinstance(x.args[1], ast.Name) and x.args[1].id == P:
                out.append(("lower", x))
            elif nm in ("symm", "misc.symm") and x.args and isinstance(x.args[0], ast.Name) and x.args[0].id == P:
                out.append(("symm", x))
            elif nm == "lapack.ormqr" and len(x.args) > 2 and isinstance(x.args[2], ast.Name) and x.args[2].id == P:
                out.append(("need-full", x))
        elif isinstance(x, ast.AugAssign) and isinstance(x.target, ast.Subscript) and isinstance(x.target.value, ast.Name) \
                and x.target.value.id == P:
            out.append(("lower", x))
    out.sort(key=lambda e: (e[1].lineno, e[1].col_offset))
    return out


def _first_read_before_full_def(stmts, P):
    """-> ('ok'|'bad'|'undecided', node, text)"""
    partial = []
    pending_head = None        # P[:e, ...] = X seen (possibly under `if e`)
    flat = []

    def _flatten(lst, cond):
        for st_ in lst:
            if isinstance(st_, ast.For):
                _flatten(st_.body, cond)
            elif isinstance(st_, ast.If) and cond is None and not st_.orelse:
                _flatten(st_.body, st_)
            else:
                flat.append((st_, cond))
    _flatten(stmts, None)
    for s_, cond in flat:
        # full definitions
        if isinstance(s_, ast.Expr) and isinstance(s_.value, ast.Call):
            c_ = s_.value
            nm = pf.call_name(c_)
            if nm == "blas.scal" and len(c_.args) == 2 and isinstance(c_.args[1], ast.Name) and c_.args[1].id == P \
                    and isinstance(c_.args[0], ast.Constant) and c_.args[0].value == 0.0 and not c_.keywords and cond is None:
                return ("ok", s_, "blas.scal(0.0, %s)" % P)
            if nm == "blas.syrk" and len(c_.args) > 1 and isinstance(c_.args[1], ast.Name) and c_.args[1].id == P \
                    and not any(k.arg in ("beta", "n", "offsetC", "ldC") for k in c_.keywords) and cond is None:
                return ("ok", s_, "blas.syrk(.., %s) with beta = 0 defines the referenced triangle" % P)
        if isinstance(s_, ast.Assign) and len(s_.targets) == 1 and isinstance(s_.targets[0], ast.Subscript) \
                and isinstance(s_.targets[0].value, ast.Name) and s_.targets[0].value.id == P:
            sl = _slice_txt(s_.targets[0])
            reads_self = any(isinstance(x, ast.Name) and x.id == P for x in ast.walk(s_.value))
            if reads_self:
                return ("bad", s_, "partial: %s" % (", ".join(partial) or "nothing"))
            if sl in (":, :", ":") and cond is None:
                return ("ok", s_, "%s[%s] = .." % (P, sl))
            mhead = re.fullmatch(r":(\w+)(?:, :)?", sl)
            mtail = re.fullmatch(r"(\w+):(?:, :)?", sl)
            if mhead and (cond is None or " ".join(ast.unparse(cond.test).split()) == mhead.group(1)):
                pending_head = mhead.group(1)
                partial.append("%s[%s]" % (P, sl))
                continue
            if mtail and pending_head == mtail.group(1) and cond is None:
                return ("ok", s_, "%s[:%s] and %s[%s:] together" % (P, pending_head, P, pending_head))
            partial.append("%s[%s]" % (P, sl))
            continue
        # reads
        for x in ast.walk(s_):
            if isinstance(x, ast.AugAssign) and isinstance(x.target, ast.Subscript) and isinstance(x.target.value, ast.Name) \
                    and x.target.value.id == P:
                return ("bad", x, "partial: %s" % (", ".join(partial) or "nothing"))
            if isinstance(x, ast.Call):
                nm = pf.call_name(x)
                for i_ in READS.get(nm, []):
                    if i_ < len(x.args) and isinstance(x.args[i_], ast.Name) and x.args[i_].id == P:
                        return ("bad", x, "partial: %s" % (", ".join(partial) or "nothing"))
                # writes of unknown extent by helper kernels (pack with offsety) are partial definitions
                if any(isinstance(a, ast.Name) and a.id == P for a in x.args) and nm not in READS:
                    partial.append("%s(..%s..)" % (nm, P))
    return ("undecided", None, "no read of %s found in factor()" % P)


def _kw(call, name, default=None):
    for k in call.keywords:
        if k.arg == name:
            return " ".join(ast.unparse(k.value).split())
    return default


def paired_calls_rule(rule, w):
    mm = w.mods["misc"]
    n = 0
    for q, fn in mm.funcs.items():
        if "." in q:
            continue
        # (a) tbmv / tbsv on the same diagonal in consecutive statements
        for blk in mr_blocks(fn):
            for s1, s2 in zip(blk, blk[1:]):
                if not all(isinstance(x, ast.Expr) and isinstance(x.value, ast.Call) for x in (s1, s2)):
                    continue
                c1, c2 = s1.value, s2.value
                n1, n2 = pf.call_name(c1), pf.call_name(c2)
                if {n1, n2} == {"blas.tbmv", "blas.tbsv"} and len(c1.args) > 1 and len(c2.args) > 1 \
                        and pf.norm_expr(c1.args[1]) == pf.norm_expr(c2.args[1]):
                    n += 1
                    key = "misc.%s:tbmv/tbsv on %s" % (q, pf.norm_expr(c1.args[1]))
                    k1 = {k: _kw(c1, k) for k in ("n", "k", "ldA", "offsetA", "offsetx", "incx")}
                    k2 = {k: _kw(c2, k) for k in ("n", "k", "ldA", "offsetA", "offsetx", "incx")}
                    if k1 == k2:
                        rule.ok(key, mm.where(s1, fn), {k: v for k, v in k1.items() if v is not None})
                    else:
                        d_ = {k: (k1[k], k2[k]) for k in k1 if k1[k] != k2[k]}
                        rule.violation(key, mm.where(s2, fn),
                                       "the multiplication by s and the division by z address different parts of %s: %s"
                                       % (pf.norm_expr(c1.args[1]), d_), k1, k2)
        # (b) consecutive scalings of one vector: order of (trans='T', inverse) then (inverse) is the same everywhere in the factory
        orders = []
        for blk in mr_blocks(fn):
            for s1, s2 in zip(blk, blk[1:]):
                if not all(isinstance(x, ast.Expr) and isinstance(x.value, ast.Call) for x in (s1, s2)):
                    continue
                c1, c2 = s1.value, s2.value
                if pf.call_name(c1) in ("scale", "misc.scale") and pf.call_name(c2) == pf.call_name(c1) and c1.args and c2.args \
                        and pf.norm_expr(c1.args[0]) == pf.norm_expr(c2.args[0]):
                    orders.append(((_kw(c1, "trans", "'N'"), _kw(c1, "inverse", "'N'")), (_kw(c2, "trans", "'N'"), _kw(c2, "inverse", "'N'")), s1))
        if len(orders) >= 2:
            ref = orders[0][:2]
            for o in orders:
                n += 1
                key = "misc.%s:double scaling @%s" % (q, pf.enclosing_function(o[2]).name)
                if o[:2] == ref:
                    rule.ok(key, mm.where(o[2], fn), str(ref))
                else:
                    rule.violation(key, mm.where(o[2], fn),
                                   "the two scalings are applied in the order %s here and %s elsewhere in the factory: for 's' blocks the scalings do "
                                   "not commute, so factor() and solve() describe different systems" % (o[:2], ref), ref, o[:2])
        # (c) geqrf -> ormqr
        qr = {}
        for x in ast.walk(fn):
            if isinstance(x, ast.Call) and pf.call_name(x) == "lapack.geqrf" and len(x.args) >= 2:
                qr[(pf.norm_expr(x.args[0]), pf.norm_expr(x.args[1]))] = x
        for x in ast.walk(fn):
            if isinstance(x, ast.Call) and pf.call_name(x) == "lapack.ormqr" and len(x.args) >= 3:
                g = qr.get((pf.norm_expr(x.args[0]), pf.norm_expr(x.args[1])))
                if g is None:
                    continue
                n += 1
                key = "misc.%s:ormqr(%s, %s) matches its geqrf @%s:%s" % (q, pf.norm_expr(x.args[0]), pf.norm_expr(x.args[1]),
                                                                          pf.enclosing_function(x).name, pf.norm_expr(x.args[2]))
                bad = []
                if _kw(x, "offsetA", "0") != _kw(g, "offsetA", "0"):
                    bad.append("offsetA %s vs %s" % (_kw(x, "offsetA", "0"), _kw(g, "offsetA", "0")))
                if _kw(x, "k") is not None and _kw(g, "n") is not None and _kw(x, "k") != _kw(g, "n"):
                    bad.append("k %s vs n %s" % (_kw(x, "k"), _kw(g, "n")))
                if _kw(x, "ldA") != _kw(g, "ldA"):
                    bad.append("ldA %s vs %s" % (_kw(x, "ldA"), _kw(g, "ldA")))
                if _kw(x, "side", "'L'") == "'L'" and _kw(x, "m") is not None and _kw(g, "m") is not None and _kw(x, "m") != _kw(g, "m"):
                    bad.append("m %s vs %s" % (_kw(x, "m"), _kw(g, "m")))
                if bad:
                    rule.violation(key, mm.where(x, fn),
                                   "the reflectors stored in %s by geqrf are applied with different addressing: %s" % (pf.norm_expr(x.args[0]), "; ".join(bad)),
                                   "same offsetA / ldA / count as the geqrf call", bad)
                else:
                    rule.ok(key, mm.where(x, fn))
    return n


def mr_blocks(fn):
    from ..modeling_rules import _blocks
    out = _blocks(fn)
    for d in ast.walk(fn):
        if isinstance(d, ast.FunctionDef) and d is not fn:
            out += _blocks(d)
    return out
