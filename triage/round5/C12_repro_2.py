# Multiplier of a PWL inequality whose max() mixes arguments of different lengths
from cvxopt import matrix, solvers
from cvxopt.modeling import variable, op, max
solvers.options['show_progress'] = False
solvers.options['glpk'] = {'msg_lev': 'GLP_MSG_OFF'}
def L(m): return [round(v, 6) for v in m]

# (a) scalar constraint, nested max: minimize -y  s.t. max(max(x), y) <= 1, x >= 0   (p* = -1)
x = variable(3); y = variable(1)
c = (max(max(x), y) <= 1)
p = op(-y, [c, x >= 0]); p.solve('dense', 'glpk')
lam = c.multiplier.value[0]
print('(a)', p.status, 'p* =', p.objective.value()[0], 'multiplier =', L(c.multiplier.value), '(expected [1.0])')
# Lagrangian at the feasible point x=0,y=0 with the multiplier of x>=0 equal to 0:
print('    L(0,0) = -0 + lam*(max(0,0)-1) =', -lam, ' < p* = -1  -> not a dual solution')

# (b) vector constraint, scalar argument broadcast: minimize -y s.t. max(x, y) <= 1 (length 3), x >= 0
x = variable(3); y = variable(1)
c = (max(x, y) <= 1)
p = op(-y, [c, x >= 0]); p.solve('dense', 'glpk')
print('(b)', p.status, 'p* =', p.objective.value()[0], 'multiplier =', L(c.multiplier.value),
      'sum =', sum(c.multiplier.value), '(expected: nonnegative, summing to 1.0)')

# (c) two inner maxima of different lengths: valid problem refused
x = variable(3); y = variable(2); t = variable(1)
c = (max(max(x), max(y)) <= t)
try:
    p = op(t, [c, x >= 1, y >= 2]); p.solve(); print('(c)', p.status, L(t.value), L(c.multiplier.value))
except Exception as e:
    print('(c)', type(e).__name__, e, '(expected optimal, t=2, multiplier [1.0])')
