# minor: option characters are truncated to 8 bits; syev returns 0 for n=0; defaults documented in lapack.rst differ
from cvxopt import matrix, lapack
A = matrix([[4.0,1.0],[1.0,3.0]])
F = +A; lapack.potrf(F, uplo=chr(0x100 + ord('U'))); print("potrf(uplo=%r) accepted, factor:" % chr(0x100+ord('U')), list(F))
try: lapack.potrf(+A, uplo='u')
except Exception as e: print("potrf(uplo='u') ->", type(e).__name__, e)
print("syev n=0 ->", repr(lapack.syev(matrix(0.0,(0,0)), matrix(0.0,(0,1)))), "; heev n=0 ->", repr(lapack.heev(matrix(0.0,(0,0)), matrix(0.0,(0,1)))))
A3 = matrix([[2.0,1.0,0.0],[1.0,2.0,1.0],[0.0,1.0,2.0]]); W = matrix(0.0,(3,1))
print("heevr(range='I') with default il, iu returns m =", lapack.heevr(+A3, W, range='I'), "(lapack.rst documents iu = n, i.e. m = 3)")
AB = matrix([[1.0,1.0],[1.0,0.0]]); B = matrix([1.0,3.0]); lapack.tbtrs(AB, B)
print("tbtrs default trans solves", list(B), "= trans 'N' (lapack.rst documents trans = 'T', which gives [-2, 3])")
