"""Triage: A[2**32, 0] on a dense matrix returns A[0,0] instead of raising IndexError."""
from cvxopt import matrix
A = matrix([1.0, 2.0, 3.0, 4.0], (2, 2))
try:
    v = A[2**32, 0]
    print('accepted, returned', v, '-> FAIL')
except IndexError as e:
    print('IndexError -> PASS')
