# dense  op=  sparse  never operates in place: the name is rebound to a new object
from cvxopt import matrix, spmatrix
S = spmatrix(1.0, [0,1], [0,1])
B = matrix(1.0, (2,2)); A = B
A += S
print(A is B, list(A), list(B))        # expected True / B also changed
B = matrix(1.0, (2,2)); A = B
A -= S
print(A is B, list(B))
B = matrix(1.0, (2,2)); A = B
A *= S                                  # doc: in-place matrix-matrix products are not allowed
print(A is B, list(A), list(B))
