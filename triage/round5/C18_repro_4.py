# size-inconsistent arguments accepted: dead B-order check in sygv/hegv, no squareness check in posv/potrs/potri
from cvxopt import matrix, lapack
def tr(label, f):
    try: print("%-28s accepted ->" % label, f())
    except Exception as e: print("%-28s %s: %s" % (label, type(e).__name__, e))
A  = lambda: matrix([[2.0,1.0,0.0],[1.0,2.0,1.0],[0.0,1.0,2.0]])
B4 = lambda: matrix([[5.0,1,0,0],[1,5.0,1,0],[0,1,5.0,1],[0,0,1,5.0]])
W = matrix(0.0,(3,1))
tr("gges A 3x3, B 4x4", lambda: lapack.gges(A(), B4()))
tr("sygv A 3x3, B 4x4", lambda: (lapack.sygv(A(), B4(), W), list(W))[1])
tr("hegv A 3x3, B 4x4", lambda: (lapack.hegv(A(), B4(), W), list(W))[1])
tr("sygv A 3x3, B 3x4", lambda: (lapack.sygv(A(), matrix(B4()[:3,:]), W), list(W))[1])
A23 = lambda: matrix([[2.0,1.0],[1.0,2.0],[9.0,9.0]])   # 2 x 3
b = lambda: matrix([1.0,1.0])
tr("potrf A 2x3", lambda: lapack.potrf(A23()))
tr("posv  A 2x3", lambda: lapack.posv(A23(), b()))
tr("potrs A 2x3", lambda: lapack.potrs(A23(), b()))
tr("potri A 2x3", lambda: lapack.potri(A23()))
