"""C19-R9: integer division / modulo by a value that may be zero (SIGFPE kills the
interpreter).  Every integer `/` `%` `/=` `%=` whose divisor is not a literal must be
discharged by one of the local idioms below, or be an instance of a frozen, hand-confirmed
table entry whose stated precondition is re-checked on every run."""
import re

from . import cexpr as cx
from . import cfront as cf
from . import cmodel as cm
from . import cguards as cg
from . import ceval as ce

FILES = ["blas.c", "lapack.c", "misc_solvers.c", "base.c", "dense.c", "sparse.c"]


def _parents(root):
    par = {}
    st = [root]
    while st:
        x = st.pop()
        for ch in x.get("c", []):
            par[id(ch)] = x
            st.append(ch)
    return par


def _is_exit(c, st):
    """statement leaves the normal path: return / goto / error macro"""
    if st is None:
        return False
    if cm.is_error_exit(st):
        return True
    for x in cf.walk(st):
        if x.get("k") in ("ReturnStmt", "GotoStmt"):
            return True
    return False


def _zero_implies(cond, D):
    """does the condition hold whenever D == 0 (all other sub-terms unknown)?
    Conservative: only disjunctions whose one disjunct tests D itself."""
    Dn = D.replace(" ", "")
    for d in cm._disjuncts(cond):
        d = cx.strip_casts(d)
        t = cx.unparse(d).replace(" ", "")
        if t in ("(%s==0)" % Dn, "%s==0" % Dn, "(!%s)" % Dn, "!%s" % Dn, "(%s<=0)" % Dn, "(%s<1)" % Dn, "(0==%s)" % Dn,
                 "(%s==0.0)" % Dn):
            return True
    return False


def _positive_conjunct(cond, D):
    Dn = D.replace(" ", "")

    def conj(e):
        e = cx.strip_casts(e)
        if e[0] == "bin" and e[1] == "&&":
            return conj(e[2]) + conj(e[3])
        return [e]
    for d in conj(cond):
        t = cx.unparse(cx.strip_casts(d)).replace(" ", "")
        if t in ("(%s>0)" % Dn, "(%s!=0)" % Dn, "(%s>=1)" % Dn, Dn, "(%s)" % Dn):
            return True
    return False


# (file, function, divisor) -> (reason, optional precondition checker name)
TABLE = {
    ("dense.c", "matrix_ass_subscr_noalias", "SP_NROWS(val)"):
        ("spmatrix_getitem_i(val, i, ..) is only reached inside `for (i = 0; i < lgt; ..)` loops over the elements of val: a sparse matrix "
         "with an element has SP_NROWS > 0", "inside_loop"),
    ("sparse.c", "spmatrix_subscr", "SP_NROWS(self)"):
        ("the linear index was range-checked against SP_LGT(self) (OUT_RNG / create_indexlist): an index in range implies SP_LGT > 0", None),
    ("sparse.c", "spmatrix_ass_subscr", "SP_NROWS(self)"):
        ("the linear indices come from a range-checked index list (create_indexlist against SP_LGT(self)): a valid index implies SP_LGT > 0 - "
         "provided the list is not empty: the function returns before the merge when lgtI == 0 (round 5: the entry was recorded without "
         "that precondition and A = spmatrix([],[],[],(0,3)); A[:] = 1.0 raised SIGFPE)", "range_checked_or_nonempty:lgtI"),
    ("sparse.c", "spmatrix_set_size", "m"):
        ("the division is inside the loop over the stored entries; m == 0 forces m*n == 0 == old size (checked just before), "
         "and a matrix with zero elements stores no entries", "inside_loop"),
    ("sparse.c", "sp_dgemv", "A->nrows"): ("early return when m or n is zero; for m, n > 0 base_gemv rejects unless m <= nrows*ncols", "returns_when_zero:m,n"),
    ("sparse.c", "sp_zgemv", "A->nrows"): ("early return when m or n is zero; for m, n > 0 base_gemv rejects unless m <= nrows*ncols", "returns_when_zero:m,n"),
    ("sparse.c", "sp_dsymv", "A->nrows"): ("early return when n is zero; for n > 0 base_symv rejects unless oA + (n-1)*ldA + n <= len(A), so len(A) > 0", "returns_when_zero:n"),
    ("sparse.c", "sp_zsymv", "A->nrows"): ("early return when n is zero; for n > 0 base_symv rejects unless oA + (n-1)*ldA + n <= len(A), so len(A) > 0", "returns_when_zero:n"),
}


def division_rule(rule, cs):
    nsites = 0
    for fname in FILES:
        c = cs[fname]
        for fn in c.order:
            node = c.funcs[fn]
            sites = []
            for n in cf.walk(node):
                if n.get("k") in ("BinaryOperator", "CompoundAssignOperator") and n.get("op") in ("/", "%", "/=", "%=") \
                        and len(n.get("c", [])) == 2:
                    t = n.get("t") or ""
                    rhs = cf.strip(n["c"][1])
                    if rhs.get("k") in ("IntegerLiteral", "FloatingLiteral"):
                        continue
                    if "double" in t or "float" in t or "complex" in t.lower():
                        continue
                    sites.append(n)
            if not sites:
                continue
            par = _parents(node)
            sim = cm.Simulator(c, fn)
            try:
                g = cg.global_sign_facts(sim)
            except Exception:
                g = {}
            seen = set()
            for n in sites:
                D = _divisor_text(c, n)
                line = c.line_of(n.get("b"))
                where = "src/C/%s:%s:%d" % (fname, fn, line)
                key = "%s:%s:divisor %s" % (fname, fn, D)
                nsites += 1
                why = _discharged(c, sim, g, par, node, n, D) or _callers_guarantee(c, fn, node, D)
                if why:
                    if key not in seen:
                        rule.ok(key, where, why)
                    seen.add(key)
                    continue
                ent = TABLE.get((fname, fn, D))
                if ent:
                    reason, pre = ent
                    bad = _check_pre(c, sim, par, node, n, pre)
                    if bad:
                        rule.violation(key, where, "division by `%s`: the precondition that made this division safe no longer holds: %s" % (D, bad),
                                       reason, "precondition missing")
                    elif key not in seen:
                        rule.ok(key + ":confirmed-invariant", where, reason)
                    seen.add(key)
                    continue
                rule.violation(key, where,
                               "integer division/modulo by `%s`, which no dominating test excludes from being zero: a zero divisor raises SIGFPE "
                               "and kills the interpreter" % D, "if (%s == 0) <error/return> before the division" % D, "no guard found")
    return nsites


def _divisor_text(c, n):
    rhs = n["c"][1]
    b = n.get("b")
    txt = None
    if not rhs.get("bm") and rhs.get("b") is not None:
        # text from the operand's begin: identifier / call / member chain / parenthesised expr
        s = c.text(rhs["b"], rhs["b"] + 120)
        m = re.match(r"\s*(\((?:[^()]|\([^()]*\))*\)|[A-Za-z_][\w]*(?:\s*\((?:[^()]|\([^()]*\))*\))?(?:\s*(?:->|\.)\s*\w+)*)", s)
        if m:
            txt = re.sub(r"\s+", "", m.group(1))
    if txt is None and b is not None and not n.get("bm"):
        # the divisor is a macro call (SP_NROWS(self)): take the operand after the top-level operator
        s = c.text(b, b + 200)
        depth = 0
        for i, ch in enumerate(s):
            if ch in "([":
                depth += 1
            elif ch in ")]":
                depth -= 1
                if depth < 0:
                    break
            elif ch in "/%" and depth == 0 and s[i + 1:i + 2] not in ("*", "/"):
                m = re.match(r"=?\s*(\((?:[^()]|\([^()]*\))*\)|[A-Za-z_][\w]*(?:\s*\((?:[^()]|\([^()]*\))*\))?(?:\s*(?:->|\.)\s*\w+)*)", s[i + 1:])
                if m:
                    txt = re.sub(r"\s+", "", m.group(1))
                break
            elif ch == ";":
                break
    if txt is None:
        # inside a macro expansion: recover from the macro's definition
        s = c.text(b, b + 160) if b is not None else ""
        m = re.match(r"\s*(spmatrix_[gs]etitem_i)\s*\(\s*(?:\(\s*spmatrix\s*\*\s*\)\s*)?(\w+)", s)
        if m:
            txt = "SP_NROWS(%s)" % m.group(2)
        else:
            txt = "<macro>"
    return txt


def _discharged(c, sim, g, par, fnode, n, D):
    why = _discharged1(c, sim, g, par, fnode, n, D)
    if why:
        return why
    # copy propagation: a local that is assigned exactly once, from a plain expression (`int_t d = a.i;`), is zero exactly when
    # that expression is - the tests made on the expression before the copy discharge the division by the copy
    core = re.fullmatch(r"(?:abs\()?(\w+)\)?", D)
    if core and fnode.get("b") is not None:
        v = core.group(1)
        txt = cx.strip_pp(c.text(fnode["b"], fnode["e"]))
        writes = re.findall(r"(?<![\w.>])%s\s*(?:=(?!=)|\+=|-=|\*=|/=|%%=|\+\+|--)" % re.escape(v), txt) + re.findall(r"(?:\+\+|--)\s*%s\b" % re.escape(v), txt)
        m1 = re.search(r"(?<![\w.>])%s\s*=(?!=)\s*([^,;]+)[,;]" % re.escape(v), txt)
        if len(writes) == 1 and m1:
            src = " ".join(m1.group(1).split())
            if re.fullmatch(r"[\w.>\-\[\]()*]+", src) and not re.search(r"\w\s*\(", src.replace("(int_t)", "").replace("(int)", "")):
                src0 = re.sub(r"^\((?:int_t|int|long)\)\s*", "", src)
                why = _discharged1(c, sim, g, par, fnode, n, src0)
                if why:
                    return "`%s` is a copy of `%s`: %s" % (v, src0, why)
    return None


def _discharged1(c, sim, g, par, fnode, n, D):
    core = D
    m = re.fullmatch(r"abs\((\w+)\)", D)
    if m:
        core = m.group(1)
    if re.fullmatch(r"\w+", core):
        f = g.get(core, ())
        if "!=0" in f or ">0" in f:
            return "`%s` is rejected when zero (%s)" % (core, ",".join(sorted(f)))
    # walk up: preceding sibling statements with `if (D == 0) exit`, enclosing conditions with D > 0
    x = n
    while id(x) in par:
        p = par[id(x)]
        kids = p.get("c", [])
        if p.get("k") in ("CompoundStmt", "CaseStmt", "DefaultStmt"):
            # statements that precede x in this block; inside a switch body only those of x's own arm
            # (back to the nearest break), looking through `case L:` wrappers at their first statement
            prev = []
            for sib in kids:
                if sib is x:
                    break
                prev.append(sib)
            arm = []
            for sib in reversed(prev):
                if sib.get("k") == "BreakStmt":
                    break
                arm.append(sib)
            cand = []
            for sib in arm:
                y = sib
                while y.get("k") in ("CaseStmt", "DefaultStmt") and y.get("c"):
                    y = y["c"][-1]
                cand.append(y)
            if x.get("k") not in ("CaseStmt", "DefaultStmt") and p.get("k") in ("CaseStmt", "DefaultStmt"):
                cand = []
            for sib in cand:
                if sib.get("k") == "IfStmt" and len(sib.get("c", [])) >= 2:
                    ce_ = sim.cond_of(sib)
                    if ce_ is not None and _zero_implies(ce_, core) and _is_exit(c, sib["c"][1]):
                        return "dominated by `if (%s) <exit>`" % cx.unparse(ce_)[:60]
        if p.get("k") == "IfStmt" and len(kids) >= 2 and kids[1] is x:
            ce_ = sim.cond_of(p)
            if ce_ is not None and _positive_conjunct(ce_, core):
                return "inside `if (%s)`" % cx.unparse(ce_)[:60]
        if p.get("k") in ("BinaryOperator",) and p.get("op") == "&&" and len(kids) == 2 and kids[1] is x:
            pass
        x = p
    # short-circuit inside one condition: `D > 0 && a > INT_MAX / D`
    x = n
    while id(x) in par:
        p = par[id(x)]
        if p.get("k") == "BinaryOperator" and p.get("op") == "&&" and p.get("c") and p["c"][-1] is x and not p.get("bm") and p.get("b") is not None:
            try:
                lhs = cx.parse(c.text(p["b"], (x.get("b") or p["b"])).rstrip().rstrip("&").rstrip())
                if _positive_conjunct(lhs, core):
                    return "short-circuit `%s && ..`" % cx.unparse(lhs)[:50]
            except cx.ParseError:
                pass
        x = p
    return None


_GF = {}


def _callers_guarantee(c, fn, fnode, D):
    """the divisor is a parameter of a file-local helper and every call site passes a variable
    its caller rejects when zero"""
    core = D
    m = re.fullmatch(r"abs\((\w+)\)", D)
    if m:
        core = m.group(1)
    params = [x.get("n") for x in fnode.get("c", []) if x.get("k") == "ParmVarDecl"]
    if core not in params:
        return None
    pos = params.index(core)
    sites = 0
    for caller in c.order:
        if caller == fn:
            continue
        for x in cf.walk(c.funcs[caller]):
            if x.get("k") == "CallExpr" and cf.callee_name(x) == fn and not x.get("bm") and x.get("b") is not None:
                span = c.paren_after(x["b"])
                if not span:
                    return None
                args = cf.split_top(c.text(span[0] + 1, span[1]))
                if pos >= len(args):
                    return None
                a = re.sub(r"\s+", "", args[pos])
                ma = re.fullmatch(r"(?:abs\()?(\w+)\)?", a)
                if not ma:
                    return None
                if (c.name, caller) not in _GF:
                    try:
                        _GF[(c.name, caller)] = cg.global_sign_facts(cm.Simulator(c, caller))
                    except Exception:
                        _GF[(c.name, caller)] = {}
                f = _GF[(c.name, caller)].get(ma.group(1), ())
                if not ("!=0" in f or ">0" in f):
                    return None
                sites += 1
    if sites == 0:
        return None
    return "parameter `%s`: each of the %d call sites passes a variable its caller rejects when zero" % (core, sites)


def _check_pre(c, sim, par, fnode, n, pre):
    if pre is None:
        return None
    if pre == "inside_loop":
        x = n
        while id(x) in par:
            x = par[id(x)]
            if x.get("k") in ("ForStmt", "WhileStmt"):
                return None
        return "the division is no longer inside a loop over the stored elements"
    if pre.startswith("range_checked_or_nonempty:"):
        v = pre.split(":", 1)[1]
        b = n.get("b")
        txt = cx.strip_pp(c.text(fnode["b"], b)) if b is not None else ""
        if re.search(r"<\s*-\s*SP_LGT\s*\(\s*self\s*\)\s*\|\|\s*\w+\s*>=\s*SP_LGT\s*\(\s*self\s*\)", txt) and \
                not re.search(r"create_indexlist", txt):
            return None                       # a scalar index that passed its range test: SP_LGT > 0
        if re.search(r"\bif\s*\(\s*%s\s*==\s*0\s*\)\s*\{(?:[^{}]|\{[^{}]*\})*\breturn\b[^{}]*\}" % re.escape(v), txt):
            return None                       # index list known to be non-empty
        return "neither a range-checked scalar index nor an `if (%s == 0) return` precedes the division" % v
    if pre.startswith("returns_when_zero:"):
        vs = pre.split(":", 1)[1].split(",")
        b = n.get("b")
        for st in cf.walk(fnode):
            if st.get("k") == "IfStmt" and st.get("b") is not None and b is not None and st["b"] < b and len(st.get("c", [])) >= 2:
                th = st["c"][1]
                if not any(x.get("k") == "ReturnStmt" for x in cf.walk(th)):
                    continue
                ce_ = sim.cond_of(st)
                if ce_ is None or not (ce.free_names(ce_) <= set(vs)):
                    continue
                import itertools
                ok = True
                try:
                    for combo in itertools.product((0, 1, 2), repeat=len(vs)):
                        env = dict(zip(vs, combo))
                        if 0 in combo and not ce.ceval(ce_, env):
                            ok = False
                except ce.Unknown:
                    ok = False
                if ok:
                    return None
        return "no early return covering %s == 0 precedes the division" % " or ".join(vs)
    return None
