# real sparse RHS assigned into a complex dense matrix -> garbage imaginary parts
from cvxopt import matrix, sparse
S = sparse(matrix([5., 0., 0., 6.], (2, 2)))          # 'd' sparse
A = matrix(1j, (2, 2)); A[:, :] = S;  print(list(A))   # expected [(5+0j), 0j, 0j, (6+0j)]
B = matrix(1j, (4, 1)); B[:] = S[:];  print(list(B))   # same, one-argument path
ok = [(5+0j), 0j, 0j, (6+0j)]
print("A ok:", list(A) == ok, " B ok:", list(B) == ok)
