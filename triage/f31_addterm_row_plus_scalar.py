from cvxopt import matrix
from cvxopt.modeling import variable, dot, sum as msum
x = variable(3); x.value = matrix([1., 2., 3.])
c = matrix([1., 10., 100.])
f = dot(c, x) + x
print("dot(c,x)+x value:", list(f.value()), "expected", [321.+v for v in (1., 2., 3.)])
g = (2*x)[0] + x
print("(2*x)[0]+x value:", list(g.value()), "expected", [2.+v for v in (1., 2., 3.)])
h = x + dot(c, x)
print("x+dot(c,x) value:", list(h.value()), "expected", [321.+v for v in (1., 2., 3.)])
k = msum(x) + x
print("sum(x)+x value:", list(k.value()), "expected", [6.+v for v in (1., 2., 3.)])
