#!/venv/bin/python
"""Confirm a sub-agent's seeded change independently (triage tool, not a check).
usage: confirm_seed.py <PID> <k>   (reads /tmp/wt/<PID>/out/<k>/; writes /verif/seeded/<PID>-<k>/)
Steps: scratch worktree of /repo HEAD -> overlay -> demo must PASS; apply patch -> overlay
-> demo must FAIL, test-suite must give 36 passed.  Worktree and overlays are removed."""
import json, os, shutil, subprocess, sys, tempfile
pid, k = sys.argv[1], sys.argv[2]
src = "%s/%s/out/%s" % (os.environ.get("SEED_ROOT", "/tmp/wt2"), pid, k)
dst = "/verif/seeded/%s%s-%s" % (os.environ.get("SEED_PREFIX", ""), pid, k)
wt = tempfile.mkdtemp(prefix="seedwt-", dir="/var/tmp")
os.rmdir(wt)
def sh(cmd, **kw):
    return subprocess.run(cmd, shell=True, stdout=subprocess.PIPE, stderr=subprocess.STDOUT, text=True, **kw)
log = {}
try:
    r = sh("git -C /repo worktree add --detach %s HEAD" % wt); assert r.returncode == 0, r.stdout
    ov0, ov1 = wt + "-ov0", wt + "-ov1"
    sh("/verif/triage/mkoverlay.sh %s %s" % (wt, ov0))
    r0 = sh("cd %s && PYTHONPATH=%s timeout 300 /venv/bin/python %s/demo.py" % (wt, ov0, src))
    log["demo_without_change"] = (r0.returncode, r0.stdout[-300:])
    ra = sh("git -C %s apply %s/patch.diff" % (wt, src))
    log["apply"] = (ra.returncode, ra.stdout[-300:])
    if ra.returncode != 0:
        ra = sh("git -C %s apply -3 %s/patch.diff" % (wt, src)); log["apply3"] = (ra.returncode, ra.stdout[-300:])
    sh("/verif/triage/mkoverlay.sh %s %s" % (wt, ov1))
    r1 = sh("cd %s && PYTHONPATH=%s timeout 300 /venv/bin/python %s/demo.py" % (wt, ov1, src))
    log["demo_with_change"] = (r1.returncode, r1.stdout[-300:])
    rt = sh("cd %s && PYTHONPATH=%s timeout 900 /venv/bin/python -m pytest -q -o addopts= -p no:cacheprovider tests 2>&1 | tail -1" % (wt, ov1))
    log["tests_with_change"] = rt.stdout.strip()
    ok = r0.returncode == 0 and r1.returncode != 0 and "36 passed" in rt.stdout and " failed" not in rt.stdout and ra.returncode == 0
    log["confirmed"] = ok
    if ok:
        os.makedirs(dst, exist_ok=True)
        # regenerate the patch against the current /repo HEAD
        d = sh("git -C %s diff" % wt)
        open(dst + "/patch.diff", "w").write(d.stdout)
        shutil.copy(src + "/demo.py", dst + "/demo.py")
        meta = json.load(open(src + "/meta.json"))
        meta["confirmed_by_main"] = {"base_commit": sh("git -C /repo rev-parse --short HEAD").stdout.strip(),
                                     "demo_without_change": "exit %d" % r0.returncode,
                                     "demo_with_change": "exit %d" % r1.returncode,
                                     "tests_with_change": log["tests_with_change"],
                                     "ran": "triage/confirm_seed.py %s %s" % (pid, k)}
        json.dump(meta, open(dst + "/meta.json", "w"), indent=1)
finally:
    sh("git -C /repo worktree remove --force %s" % wt)
    for d in (wt + "-ov0", wt + "-ov1"):
        shutil.rmtree(d, ignore_errors=True)
print(pid, k, json.dumps(log)[:900])
