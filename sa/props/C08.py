"""C08 - cone-algebra kernels match their definition in both implementations
(structural part: the compiled kernels and the pure-Python fallbacks expose the same
interface and make the same flag decisions; offsets belong to their buffers; block walks)."""
import ast
import itertools
import re

from .. import cexpr as cx
from .. import cfront as cf
from .. import cguards as cg
from .. import cmodel as cm
from .. import pyfront as pf
from .. import rules_common as rc
from ..core import Check, AnalysisError
from ..world import World

SWITCHED = ["scale", "scale2", "pack", "pack2", "unpack", "sdot", "trisc", "triusc", "symm", "sprod", "sinv", "max_step"]
ALWAYS_PY = ["sdot2", "snrm2", "sgemv", "jdot", "jnrm2", "ssqr", "compute_scaling", "update_scaling"]
FLAGKW = ("side", "uplo", "trans", "transA", "transB", "diag", "jobz", "range")
# BLAS/LAPACK keyword order (python level) for positional flags
C_FLAG_POS = {"tbmv": ["uplo", "trans", "diag"], "tbsv": ["uplo", "trans", "diag"], "trmm": ["side", "uplo", "transA", "diag"],
              "trsm": ["side", "uplo", "transA", "diag"], "syr2k": ["uplo", "trans"], "syrk": ["uplo", "trans"],
              "gemv": ["trans"], "syevr": ["jobz", "range", "uplo"], "syevd": ["jobz", "uplo"], "lacpy": ["uplo"],
              "trmv": ["uplo", "trans", "diag"], "trsv": ["uplo", "trans", "diag"], "gemm": ["transA", "transB"],
              "symv": ["uplo"], "ger": [], "syr": ["uplo"]}
PY_FLAG_DEFAULT = {"side": "L", "uplo": "L", "trans": "N", "transA": "N", "transB": "N", "diag": "N", "jobz": "N", "range": "A"}


class PyCaseEval:
    """Constant propagation of flag parameters through a pure-Python kernel: which
    BLAS/LAPACK calls (with which flag keywords) are reachable for given flag values."""

    def __init__(self, fn, flags):
        self.env = dict(flags)
        self.calls = set()
        self.run(fn.body)

    def ev(self, e):
        if isinstance(e, ast.Constant):
            return e.value
        if isinstance(e, ast.Name):
            return self.env.get(e.id, Ellipsis)
        if isinstance(e, ast.Attribute) and isinstance(e.value, ast.Name) and e.value.id in ("blas", "lapack"):
            return ("fn", "%s.%s" % (e.value.id, e.attr))       # a routine selected once and called through a local name
        if isinstance(e, ast.IfExp):
            t_ = self.ev(e.test)
            if t_ is Ellipsis:
                return Ellipsis
            return self.ev(e.body if t_ else e.orelse)
        if isinstance(e, ast.Compare) and len(e.ops) == 1:
            l, r = self.ev(e.left), self.ev(e.comparators[0])
            if l is Ellipsis or r is Ellipsis:
                return Ellipsis
            if isinstance(e.ops[0], ast.Eq):
                return l == r
            if isinstance(e.ops[0], ast.NotEq):
                return l != r
            if isinstance(e.ops[0], ast.Is):
                return l is r
            if isinstance(e.ops[0], ast.IsNot):
                return l is not r
            return Ellipsis
        if isinstance(e, ast.BoolOp):
            vals = [self.ev(v) for v in e.values]
            if isinstance(e.op, ast.And):
                if any(v is False for v in vals):
                    return False
                return Ellipsis if any(v is Ellipsis for v in vals) else all(vals)
            if any(v is True for v in vals):
                return True
            return Ellipsis if any(v is Ellipsis for v in vals) else any(vals)
        if isinstance(e, ast.UnaryOp) and isinstance(e.op, ast.Not):
            v = self.ev(e.operand)
            return Ellipsis if v is Ellipsis else (not v)
        return Ellipsis

    def run(self, stmts):
        for s in stmts:
            if isinstance(s, ast.If):
                t = self.ev(s.test)
                if t is True or t is Ellipsis:
                    saved = dict(self.env)
                    self.run(s.body)
                    env_t = self.env
                    self.env = saved if t is Ellipsis else env_t
                    if t is Ellipsis:
                        self.run(s.orelse)
                        # merge: forget names that differ
                        self.env = {k: v for k, v in self.env.items() if env_t.get(k, Ellipsis) == v}
                else:
                    self.run(s.orelse)
            elif isinstance(s, (ast.For, ast.While)):
                self.run(s.body)
            elif isinstance(s, ast.Assign) and len(s.targets) == 1 and isinstance(s.targets[0], ast.Name):
                v = self.ev(s.value)
                if v is Ellipsis:
                    self.env.pop(s.targets[0].id, None)
                else:
                    self.env[s.targets[0].id] = v
                self.scan(s)
            elif isinstance(s, ast.Return):
                self.scan(s)
                return
            else:
                self.scan(s)

    def scan(self, s):
        for c in ast.walk(s):
            if isinstance(c, ast.Call):
                nm = pf.call_name(c)
                if isinstance(c.func, ast.Name) and isinstance(self.env.get(c.func.id), tuple) and self.env[c.func.id][0] == "fn":
                    nm = self.env[c.func.id][1]
                if nm and "." in nm and nm.split(".")[0] in ("blas", "lapack") and nm.split(".")[1] in C_FLAG_POS:
                    r = nm.split(".")[1]
                    fl = {}
                    for k in c.keywords:
                        if k.arg in FLAGKW:
                            fl[k.arg] = self.ev(k.value)
                    tup = tuple((f, fl.get(f, PY_FLAG_DEFAULT[f])) for f in C_FLAG_POS[r])
                    self.calls.add((r, tup))


def c_case_calls(c, fn, case_flags):
    """{(routine, ((flag, value),..))} reachable in the C kernel for the given flags"""
    sim = cm.Simulator(c, fn)
    ext = set(c.externs)
    out = set()
    cases = [cs for cs in sim.cases(mids=(None,)) if all(cs.flags.get(k) == v for k, v in case_flags.items())]
    for cs in cases:
        sites, end = sim.run(cs, ext)
        for s in sites:
            base = re.sub(r"^d|_$", "", s.callee)
            if base not in C_FLAG_POS:
                continue
            vals = []
            for i, fname in enumerate(C_FLAG_POS[base]):
                a = s.args[i] if i < len(s.args) else None
                a = cg.simplify(a, s.case) if a is not None else None
                if a is not None and a[0] == "str":
                    vals.append((fname, a[1]))
                elif a is not None and a[0] == "un" and a[1] == "&" and a[2][0] == "id" and a[2][1] in s.case.flags:
                    vals.append((fname, s.case.flags[a[2][1]]))
                else:
                    vals.append((fname, "?"))
            out.add((base, tuple(vals)))
    return out


def build(tier, repo):
    chk = Check(
        "C08", tier, repo,
        explanation=(
            "That either implementation computes the mathematical definition is NOT decided. Decided: (R1) "
            "each of the 12 switched kernels has the same parameter names, order, optionality and defaults "
            "in the compiled wrapper (keyword list / parse format / C initialisers) and in the pure-Python "
            "fallback; (R2) both arms of every `if use_C:` switch bind the name and the compiled name exists; "
            "(R3) block-offset discipline in the Python fallbacks and the always-Python kernels; (R4) in the "
            "compiled kernels every offset added to a matrix buffer belongs to that matrix (oX with X) - an "
            "offset of another argument addresses the wrong block; (R5) for every combination of flag "
            "arguments the compiled kernel and the Python fallback make the same BLAS/LAPACK calls with the "
            "same flag arguments (side/uplo/trans/diag), i.e. the two implementations take the same decisions; "
            "(R6) sgemv undoes trisc with triusc on the same arguments. Missing type/length guards of the "
            "compiled kernels are recorded under C19."),
        trusted_base=["clang 14 AST", "CPython ast", "sa/cmodel.py", "sa/offsets.py"],
        assumptions=["BLAS/LAPACK compute their documented operations (C17/C18)"])
    w = World(repo)
    c = w.c["misc_solvers.c"]
    m = w.mods["misc"]
    tab = dict(cf.method_table(c).get("misc_solvers_functions", []))
    if not tab:
        raise AnalysisError("misc_solvers_functions table not found")

    r1 = chk.rule("C08-R1", "compiled wrapper and Python fallback expose the same parameters (names, order, optionality, defaults)",
                  "results are independent of which implementation is active")
    r2 = chk.rule("C08-R2", "both arms of every use_C switch bind the kernel; the compiled name exists", "both implementations are available under one name")
    switches = [s for s in m.tree.body if isinstance(s, ast.If) and isinstance(s.test, ast.Name) and s.test.id == "use_C"]
    seen = set()
    for sw in switches:
        cname = [a.targets[0].id for a in sw.body if isinstance(a, ast.Assign) and isinstance(a.targets[0], ast.Name)]
        pdefs = [d for d in sw.orelse if isinstance(d, ast.FunctionDef)]
        for nm in cname:
            seen.add(nm)
            key = "misc.%s" % nm
            a = [x for x in sw.body if isinstance(x, ast.Assign) and x.targets[0].id == nm][0]
            src = pf.norm_expr(a.value)
            pd = [d for d in pdefs if d.name == nm]
            if not pd:
                r2.violation(key + ":python arm", m.where(sw), "no pure-Python definition of %s in the else arm" % nm, "def %s" % nm, "absent")
                continue
            if not (src.startswith("misc_solvers.") and src.split(".")[1] in tab):
                r2.violation(key + ":compiled arm", m.where(a), "%s is not a function of cvxopt.misc_solvers" % src, sorted(tab), src)
                continue
            r2.ok(key, m.where(sw), "%s / def %s" % (src, nm))
            cfn = tab[src.split(".")[1]]
            wrap = cm.Wrapper(c, cfn)
            pp = wrap.py_params()
            pos = [x.arg for x in pd[0].args.args]
            nreq = len(pos) - len(pd[0].args.defaults)
            pdef = dict(zip(pos[nreq:], pd[0].args.defaults))
            ckw = [p[0] for p in pp]
            creq = [p[0] for p in pp if not p[3]]
            where = "src/C/misc_solvers.c:%s ~ src/python/misc.py:%s" % (cfn, nm)
            if ckw != pos:
                r1.violation(key + ":names", where, "parameter names/order differ between the two implementations", pos, ckw)
                continue
            if creq != pos[:nreq]:
                r1.violation(key + ":required", where, "required/optional split differs", pos[:nreq], creq)
                continue
            bad = []
            for kw, var, unit, opt in pp:
                if not opt:
                    continue
                pv = pdef.get(kw)
                cinit = wrap.locals.get(var, (None, None))[1]
                pyv = pv.value if isinstance(pv, ast.Constant) else "?"
                if unit in ("i",) and isinstance(pyv, int) and cinit is not None and re.fullmatch(r"-?\d+", cinit):
                    if int(cinit) != pyv:
                        bad.append("%s: C %s vs Python %r" % (kw, cinit, pyv))
                elif unit in ("C", "c") and isinstance(pyv, str):
                    ci = cinit or wrap.locals.get(var.rstrip("_"), (None, None))[1]
                    if ci is not None and ci.strip("'") != pyv:
                        bad.append("%s: C %s vs Python %r" % (kw, ci, pyv))
                elif unit == "O" and pyv is None and cinit not in (None, "NULL", "0"):
                    bad.append("%s: C %s vs Python None" % (kw, cinit))
            if bad:
                r1.violation(key + ":defaults", where, "default values differ between the two implementations", "equal defaults", bad)
            else:
                r1.ok(key, where, "(%s)" % ", ".join(pos))
    for nm in SWITCHED:
        if nm not in seen:
            r2.violation("misc.%s:switched" % nm, "src/python/misc.py", "kernel %s is no longer switched on use_C" % nm, "if use_C: %s = misc_solvers.%s else: def %s" % (nm, nm, nm), "absent")

    r9 = chk.rule("C08-R9", "every argument of a kernel reaches its computation: compiled kernels read each parsed variable before overwriting it; "
                            "Python kernels read each of their parameters",
                  "offsets / mnl / flags address the blocks they were given for")
    from .. import cwrap_rules as cw
    kfns = [fn for _, fn in cf.method_table(c).get("misc_solvers_functions", []) if fn in c.funcs]
    cw.parse_target_rule(r9, c, kfns)
    for q, fn in m.funcs.items():
        if "." in q or q.startswith("_"):
            continue
        params = [a for a in pf.arg_names(fn)]
        loads = {x.id for x in ast.walk(fn) if isinstance(x, ast.Name) and isinstance(x.ctx, ast.Load)}
        for a in params:
            key = "misc.%s:parameter %s is read" % (q, a)
            if a in loads:
                r9.ok(key, m.where(fn, fn))
            else:
                r9.violation(key, m.where(fn, fn), "parameter `%s` of misc.%s is accepted and never used: the caller's value has no effect" % (a, q),
                             "a read of %s" % a, "no use")
    r9.require(60)

    r10 = chk.rule("C08-R10", "if/else arms that apply an operation resp. its inverse (tbsv/tbmv, trsv/trmv, trsm/trmm) address the same block with the same arguments",
                   "scale2 with inverse='I' undoes inverse='N' on every entry of the block")
    INV = {frozenset(("dtbsv_", "dtbmv_")), frozenset(("dtrsv_", "dtrmv_")), frozenset(("dtrsm_", "dtrmm_")),
           frozenset(("ztbsv_", "ztbmv_")), frozenset(("ztrsv_", "ztrmv_")), frozenset(("ztrsm_", "ztrmm_"))}
    ext_ = set(c.externs)

    def _single_call(st):
        if st is None:
            return None
        if st.get("k") == "CompoundStmt":
            kids = [k_ for k_ in st.get("c", []) if k_.get("k") not in ("NullStmt",)]
            calls_ = [k_ for k_ in kids if k_.get("k") == "CallExpr"]
            if len(calls_) != 1:
                return None
            st = calls_[0]
        if st.get("k") == "CallExpr" and cf.callee_name(st) in ext_ and not st.get("bm") and st.get("b") is not None:
            span = c.paren_after(st["b"])
            if span:
                return cf.callee_name(st), [re.sub(r"\s+", "", a_) for a_ in cf.split_top(c.text(span[0] + 1, span[1]))], st
        return None
    for cfn in c.order:
        nth_ = 0
        for st in cf.walk(c.funcs[cfn]):
            if st.get("k") == "IfStmt" and len(st.get("c", [])) == 3:
                a_, b_ = _single_call(st["c"][1]), _single_call(st["c"][2])
                if not a_ or not b_ or frozenset((a_[0], b_[0])) not in INV:
                    continue
                nth_ += 1
                key = "%s:#%d %s/%s arms@%s" % (cfn, nth_, a_[0], b_[0], cx.unparse(cm.Simulator(c, cfn).cond_of(st) or ("id", "?"))[:30])
                where = "src/C/misc_solvers.c:%s:%d" % (cfn, c.line_of(st["b"]))
                if a_[1] == b_[1]:
                    r10.ok(key, where, "identical argument lists")
                else:
                    diff = [(x_, y_) for x_, y_ in zip(a_[1], b_[1]) if x_ != y_][:3]
                    r10.violation(key, where, "the operation and its inverse are applied to different parts of the block: %s" % diff,
                                  "identical arguments", diff)
    r10.require(2)

    r3 = chk.rule("C08-R3", "block-offset discipline in the Python kernels", "kernels touch exactly the addressed blocks")
    fns = []
    for sw in switches:
        for d in sw.orelse:
            if isinstance(d, ast.FunctionDef):
                fns.append(d)
    from .. import offsets
    for d in fns + [m.funcs[q] for q in ALWAYS_PY if q in m.funcs]:
        for f in offsets.analyze(d, m, d.name):
            key = "misc.%s" % f.key
            if f.kind == "ok":
                r3.ok(key, m.where(f.node, d), f.detail)
            elif f.kind == "violation":
                r3.violation(key, m.where(f.node, d), f.detail, f.expected, f.observed)
            else:
                r3.undecided(key, m.where(f.node, d), f.detail)

    r4 = chk.rule("C08-R4", "compiled kernels: an offset variable added to a matrix buffer belongs to that matrix (oX with X)",
                  "offsets address the block of the argument they were given for")
    for cfn in c.order:
        wrap = cm.Wrapper(c, cfn)
        pp = wrap.py_params()
        if not pp:
            continue
        offvars = {}
        mats = {p[1] for p in pp if p[1] and "*" in (wrap.locals.get(p[1], ("", None))[0] or "")}
        for kw, var, unit, opt in pp:
            mm_ = re.fullmatch(r"o([A-Za-z]\w*)", var or "")
            if mm_ and mm_.group(1) in mats:
                offvars[var] = mm_.group(1)
        if not offvars:
            continue
        node = c.funcs[cfn]
        txt = cx.strip_pp(c.text(node["b"], node["e"]))
        # running index variables seeded from an offset (`ip = ox + m`, `for (.., iu = oy + m; ..)`)
        # inherit the matrix of that offset
        derived = {}
        for _round in range(3):
            for ma in re.finditer(r"\b([A-Za-z_]\w*)\s*=\s*([^;,=][^;,]*)", txt):
                v, rhs = ma.group(1), ma.group(2)
                if v in offvars:
                    continue
                src_ = {offvars[o] for o in offvars if re.search(r"\b%s\b" % o, rhs)} | \
                       {X_ for d_, Xs in derived.items() for X_ in Xs if d_ != v and re.search(r"\b%s\b" % d_, rhs)}
                if src_:
                    derived.setdefault(v, set()).update(src_)
        # an index / length computed from offsets or running indices of two different buffers (`np = ip - ox - nlq` with ip
        # running in y): the difference is only right while the two offsets happen to be equal
        for ma in re.finditer(r"\b([A-Za-z_]\w*)\s*=\s*([^;,=][^;,]*)", txt):
            v, rhs = ma.group(1), ma.group(2)
            srcs = {}
            for o in offvars:
                if re.search(r"\b%s\b" % o, rhs):
                    srcs[o] = {offvars[o]}
            for d_, Xs in derived.items():
                if d_ != v and re.search(r"\b%s\b" % d_, rhs):
                    srcs[d_] = set(Xs)
            if len(srcs) < 2:
                continue
            key = "%s:`%s = %s` combines indices of one buffer" % (cfn, v, " ".join(rhs.split())[:40])
            where = "src/C/misc_solvers.c:%s:%d" % (cfn, c.line_of(node["b"] + ma.start()))
            mats_ = set().union(*srcs.values())
            if len(mats_) == 1:
                r4.ok(key, where)
            else:
                r4.violation(key, where,
                             "`%s` is computed from %s, which index different buffers (%s): the value is right only when their offsets coincide"
                             % (v, ", ".join(sorted(srcs)), ", ".join(sorted(mats_))), "indices of one buffer", sorted(srcs))
        for mt in re.finditer(r"MAT_BUF[DZI]?\(\s*(\w+)\s*\)\s*((?:\+\s*[\w*() ]+?)+)\s*[,)]", txt):
            X, tail = mt.group(1), mt.group(2)
            for v, Xs in derived.items():
                if re.search(r"\b%s\b" % v, tail):
                    key = "%s:MAT_BUF(%s) + ..%s.." % (cfn, X, v)
                    where = "src/C/misc_solvers.c:%s" % cfn
                    if Xs == {X}:
                        r4.ok(key, where, "%s runs from o%s" % (v, X))
                    else:
                        r4.violation(key, where,
                                     "the buffer of `%s` is addressed with the running index `%s`, which starts from the offset of argument `%s`"
                                     % (X, v, "/".join(sorted(Xs))), "an index seeded from o%s" % X, "%s seeded from o%s" % (v, "/o".join(sorted(Xs))))
            used = [v for v in offvars if re.search(r"\b%s\b" % v, tail)]
            for v in used:
                key = "%s:MAT_BUF(%s) + ..%s.." % (cfn, X, v)
                where = "src/C/misc_solvers.c:%s:%d" % (cfn, c.line_of(node["b"] + mt.start()))
                if offvars[v] == X:
                    r4.ok(key, where)
                else:
                    r4.violation(key, where,
                                 "the buffer of `%s` is addressed with `%s`, the offset of argument `%s`" % (X, v, offvars[v]),
                                 "o%s" % X, v)

    r5 = chk.rule("C08-R5", "for every flag combination the compiled kernel and the Python fallback call the same BLAS/LAPACK routines with the same flag arguments",
                  "the two implementations take the same decisions (e.g. scale with trans/inverse, sprod with diag)")
    for sw in switches:
        for d in [x for x in sw.orelse if isinstance(x, ast.FunctionDef)]:
            nm = d.name
            if nm not in tab:
                continue
            cfn = tab[nm]
            wrap = cm.Wrapper(c, cfn)
            pp = wrap.py_params() or []
            flagp = [(kw, var) for kw, var, unit, opt in pp if unit in ("C", "c")]
            if not flagp:
                continue
            sim = cm.Simulator(c, cfn)
            domains = []
            for kw, var in flagp:
                v = var if var in sim.flag_vars else var.rstrip("_")
                vals = set(sim.flag_vars.get(v) or sim.flag_vars.get(var) or [])
                # the fallback's own comparisons complete the value set
                for cmpn in ast.walk(d):
                    if isinstance(cmpn, ast.Compare) and isinstance(cmpn.left, ast.Name) and cmpn.left.id == kw:
                        for cc_ in cmpn.comparators:
                            if isinstance(cc_, ast.Constant) and isinstance(cc_.value, str) and len(cc_.value) == 1:
                                vals.add(cc_.value)
                domains.append((kw, v, sorted(vals)))
            if any(not dom for _, _, dom in domains):
                r5.undecided("misc.%s:flag domains" % nm, "src/C/misc_solvers.c:%s" % cfn, "validated flag values not found")
                continue
            for combo in itertools.product(*[dom for _, _, dom in domains]):
                pyflags = {kw: val for (kw, _, _), val in zip(domains, combo)}
                cflags = {v: val for (_, v, _), val in zip(domains, combo)}
                pc = PyCaseEval(d, pyflags).calls
                cc = c_case_calls(c, cfn, cflags)
                # compare on routines that carry flags
                pcf = {(r, fl) for r, fl in pc if fl}
                ccf = {(r, fl) for r, fl in cc if fl}
                key = "misc.%s[%s]" % (nm, ", ".join("%s=%s" % kv for kv in sorted(pyflags.items())))
                where = "src/C/misc_solvers.c:%s ~ src/python/misc.py:%s" % (cfn, nm)
                if any(v == "?" or v is Ellipsis for _, fl in pcf | ccf for _, v in fl):
                    r5.undecided(key, where, "a flag argument is not a constant in this case")
                elif pcf == ccf:
                    r5.ok(key, where, sorted("%s(%s)" % (r, ",".join(v for _, v in fl)) for r, fl in pcf))
                else:
                    r5.violation(key, where,
                                 "for %s the compiled kernel calls %s but the Python fallback calls %s" % (
                                     pyflags, sorted("%s(%s)" % (r, ",".join(str(v) for _, v in fl)) for r, fl in ccf - pcf),
                                     sorted("%s(%s)" % (r, ",".join(str(v) for _, v in fl)) for r, fl in pcf - ccf)),
                                 sorted(str(x) for x in pcf), sorted(str(x) for x in ccf))

    r7 = chk.rule("C08-R7", "compiled kernels: the arms of an if / else-if chain write the same argument matrices",
                  "every block gets the same outputs (e.g. max_step returns eigenvalues and eigenvectors for every block order)")
    OUTP = {"dscal_": [2], "dcopy_": [3], "daxpy_": [4], "dtbmv_": [7], "dtbsv_": [7], "dgemv_": [9], "dger_": [7], "dtrmm_": [9],
            "dsyr2k_": [11], "dlacpy_": [5], "dsyevr_": [5, 13, 14], "dsyevd_": [3, 5]}
    CHAIN_EXCEPTIONS = {("sprod", "(diag == 'N')"): "diag='N' uses y as scratch for the Jordan product and restores it; diag='D' scales x in place"}

    def writes(node):
        out = set()
        for n in cf.walk(node):
            if n.get("k") == "CallExpr" and cf.callee_name(n) in OUTP and not n.get("bm"):
                sp = c.paren_after(n["b"])
                a = cf.split_top(c.text(sp[0] + 1, sp[1]))
                for i in OUTP[cf.callee_name(n)]:
                    if i < len(a):
                        mm2 = re.search(r"MAT_BUF[DZI]?\(\s*(\w+)\s*\)", a[i])
                        if mm2:
                            out.add(mm2.group(1))
            if n.get("k") in ("BinaryOperator", "CompoundAssignOperator") and n.get("op", "").endswith("=") \
                    and n.get("op") not in ("==", "!=", "<=", ">=") and n.get("b") is not None:
                t = c.stmt_text_until_semicolon(n["b"])
                mm2 = re.match(r"\s*MAT_BUF[DZI]?\(\s*(\w+)\s*\)\s*\[", t)
                if mm2:
                    out.add(mm2.group(1))
        return out
    for cfn in c.order:
        sim = cm.Simulator(c, cfn)
        visited = set()
        for st in cf.walk(sim.body):
            if st.get("k") != "IfStmt" or len(st.get("c", [])) < 3 or id(st) in visited:
                continue
            arms = []
            node = st
            while node is not None and node.get("k") == "IfStmt":
                visited.add(id(node))
                ce = sim.cond_of(node)
                arms.append((cx.unparse(ce) if ce else "?", writes(node["c"][1])))
                nxt = node["c"][2] if len(node["c"]) > 2 else None
                if nxt is not None and nxt.get("k") != "IfStmt":
                    arms.append(("else", writes(nxt)))
                    nxt = None
                node = nxt
            ws = [w_ for _, w_ in arms if w_]
            if len(ws) < 2:
                continue
            key = "%s:if-chain %s" % (cfn, arms[0][0][:40])
            where = "src/C/misc_solvers.c:%s:%d" % (cfn, c.line_of(st["b"]))
            if all(w_ == ws[0] for w_ in ws):
                r7.ok(key, where, sorted(ws[0]))
            elif (cfn, arms[0][0]) in CHAIN_EXCEPTIONS:
                r7.ok(key + ":named-exception", where, CHAIN_EXCEPTIONS[(cfn, arms[0][0])])
            else:
                r7.violation(key, where, "the arms of this chain write different argument matrices: %s" % [(a_[:30], sorted(w_)) for a_, w_ in arms],
                             "same outputs in every arm", [(a_[:30], sorted(w_)) for a_, w_ in arms])

    r8 = chk.rule("C08-R8", "compiled kernels special-case a cone block only on size zero, as the Python reference does (`if m:`)",
                  "kernels agree with the reference for every block size, including orders 0 and 1")
    from .. import ceval as cev
    BLOCK_EXC = {("sprod", "(F,F,T,T)"): "`if (mk > 1)` only skips a loop whose copies have length zero for mk <= 1"}
    for cfn in c.order:
        node = c.funcs[cfn]
        txt = cx.strip_pp(c.text(node["b"], node["e"]))
        asg = {}
        for ma in re.finditer(r"\b([A-Za-z_]\w*)\s*=\s*([^;=][^;]*);", txt):
            asg.setdefault(ma.group(1), []).append(ma.group(2).strip())
        bs = {v for v, rs in asg.items() if all(re.match(r"\(int\)\s*Py(Long|Int)_AsLong\s*\(", r_) for r_ in rs)}
        if not bs:
            continue
        sim = cm.Simulator(c, cfn)
        for st in cf.walk(node):
            if st.get("k") != "IfStmt":
                continue
            ce_ = sim.cond_of(st)
            if ce_ is None:
                continue
            names = cev.free_names(ce_)
            direct = names & bs
            der = {v for v in names - bs if v in asg and len(asg[v]) >= 1 and
                   any(re.search(r"\b(%s)\b" % "|".join(map(re.escape, bs)), r_) for r_ in asg[v])}
            if not (direct or der) or len(direct | der) != 1 or names - direct - der:
                continue
            key = "%s:block-size test `%s`" % (cfn, cx.unparse(ce_)[:50])
            where = "src/C/misc_solvers.c:%s:%d" % (cfn, c.line_of(st["b"]))
            b = sorted(direct)[0] if direct else None
            vecs = set()
            try:
                if direct:
                    vecs.add(tuple(bool(cev.ceval(ce_, {b: mval})) for mval in (0, 1, 2, 3)))
                else:
                    dv = sorted(der)[0]
                    for r_ in asg[dv]:
                        used = [x for x in bs if re.search(r"\b%s\b" % re.escape(x), r_)]
                        if len(used) != 1:
                            raise cev.Unknown("derived from several sizes")
                        re_ = cx.parse(r_)
                        vecs.add(tuple(bool(cev.ceval(ce_, {dv: cev.ceval(re_, {used[0]: mval})})) for mval in (0, 1, 2, 3)))
            except (cev.Unknown, cx.ParseError, ZeroDivisionError) as ex:
                r8.undecided(key, where, "condition on a block size not evaluable: %s" % ex)
                continue
            for vec in sorted(vecs):
                tv = "(%s)" % ",".join("T" if x else "F" for x in vec)
                if vec in ((False, True, True, True), (True, False, False, False), (True,) * 4, (False,) * 4):
                    r8.ok(key, where, "zero test %s" % tv)
                elif (cfn, tv) in BLOCK_EXC:
                    r8.ok(key + ":named-exception", where, BLOCK_EXC[(cfn, tv)])
                else:
                    r8.violation(key, where,
                                 "the kernel treats blocks of order m = 0,1,2,3 as %s: a special case by block size that the Python reference "
                                 "(which only tests `if m:`) does not have, so the two implementations differ on the singled-out orders" % tv,
                                 "(F,T,T,T): only empty blocks are special", tv)
    r8.require(2)

    r6 = chk.rule("C08-R6", "sgemv restores its argument: trisc(x, ...) is undone by triusc on the same arguments on the normal path",
                  "touching nothing outside (and leaving unchanged) the addressed blocks")
    sg = m.funcs.get("sgemv")
    if sg is None:
        raise AnalysisError("misc.sgemv not found")
    tr = [n for n in ast.walk(sg) if isinstance(n, ast.Call) and pf.call_name(n) == "trisc"]
    tu = [n for n in ast.walk(sg) if isinstance(n, ast.Call) and pf.call_name(n) == "triusc"]
    def _guard(n):
        return sorted(repr(c_) for c_ in pf.path_condition(n, cross_loops=True))
    if tr and tu and [pf.norm_expr(a) for a in tr[0].args] == [pf.norm_expr(a) for a in tu[0].args] and tr[0].lineno < tu[0].lineno \
            and {k.arg: pf.norm_expr(k.value) for k in tr[0].keywords} == {k.arg: pf.norm_expr(k.value) for k in tu[0].keywords} \
            and _guard(tr[0]) != _guard(tu[0]):
        r6.violation("misc.sgemv:trisc/triusc pairing", m.where(tu[0], sg),
                     "the scaling of x and its inverse run under different conditions: on the paths where only one of them runs, x is left scaled",
                     "triusc under %s" % _guard(tr[0]), "triusc under %s" % _guard(tu[0]))
    elif tr and tu and [pf.norm_expr(a) for a in tr[0].args] == [pf.norm_expr(a) for a in tu[0].args] and tr[0].lineno < tu[0].lineno \
            and {k.arg: pf.norm_expr(k.value) for k in tr[0].keywords} == {k.arg: pf.norm_expr(k.value) for k in tu[0].keywords}:
        r6.ok("misc.sgemv:trisc/triusc pairing", m.where(tr[0], sg))
    else:
        r6.violation("misc.sgemv:trisc/triusc pairing", m.where(sg, sg), "the temporary scaling of x is not undone with the same arguments",
                     "trisc(x, dims, off) ... triusc(x, dims, off)", "%d/%d calls" % (len(tr), len(tu)))
    return chk
