#!/bin/bash
# run every claimed check (quick tier by default) in parallel; print one status line each
cd "$(dirname "$0")/.."
TIER=${1:-quick}
IDS=$(/venv/bin/python -c "import json;print(' '.join(sorted(c['property_id'] for c in json.load(open('MANIFEST.json'))['checks'])))" 2>/dev/null)
[ -z "$IDS" ] && IDS="C01 C02 C03 C04 C06 C07 C08 C09 C10 C11 C12 C13 C14 C15 C17 C18 C19 C20"
mkdir -p /var/tmp/runall
for i in $IDS; do
  ( ./check $i --tier $TIER > /var/tmp/runall/$i.out 2>&1; echo "$i exit=$? $(grep -c '^VIOLATION' /var/tmp/runall/$i.out) violations; $(grep '^SUMMARY' /var/tmp/runall/$i.out | cut -c1-120)" ) &
done
wait
