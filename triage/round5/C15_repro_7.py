# indexed assignment whose right-hand side is the matrix itself reads entries it has already overwritten
from cvxopt import matrix
A = matrix([1, 2, 3, 4]);            A[::-1] = A;     print(list(A), "expected [4, 3, 2, 1]")
A = matrix([1, 2, 3, 4, 5, 6], (2, 3)); A[:, ::-1] = A; print(list(A), "expected [5, 6, 3, 4, 1, 2]")
A = matrix([1, 2, 3, 4], (2, 2));    A[[1, 0], :] = A; print(list(A), "expected [2, 1, 4, 3]")
A = matrix([1., 2., 3., 4.]);        A[[1, 2, 3, 0]] = A; print(list(A), "expected [4.0, 1.0, 2.0, 3.0]")
A = matrix([1, 2, 3, 4]);            A[::-1] = +A;    print(list(A), "(with a copy on the right)")
