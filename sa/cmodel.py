"""Model of a C wrapper function: argument parsing tables, and a case-based abstract
execution that collects, for every call to an external (Fortran) routine, the facts
established by the dominating rejecting guards.

A *case* fixes: the matrix id arm (DOUBLE/COMPLEX), the value of every validated flag
character (trans, uplo, ...), the sign (zero / positive) of every integer that the code
compares with 0, and presence/absence of optional object arguments.  Under a case most
guard conditions evaluate to constants; what is left of a rejecting condition is negated
and its comparison atoms become polynomial facts  D >= 0 / D > 0."""
import itertools
import re

from . import cexpr as cx
from . import cfront as cf
from .poly import Poly

PYERR = ("PyErr_SetString", "PyErr_Format", "PyErr_NoMemory", "PyErr_SetObject", "PyErr_SetNone")


def is_error_exit(stmt):
    """Statement that never falls through and reports a Python error: contains a
    PyErr_* call and ends in `return NULL/-1`, or `return PyErr_NoMemory()`."""
    if stmt is None:
        return False
    k = stmt.get("k")
    if k == "CompoundStmt":
        kids = [c for c in stmt.get("c", []) if c.get("k") != "NullStmt"]
        if not kids:
            return False
        if len(kids) == 1:
            return is_error_exit(kids[0])
        last = kids[-1]
        has_err = any(cf.callee_name(n) in PYERR for n in cf.walk(stmt) if n.get("k") == "CallExpr")
        return has_err and (last.get("k") == "ReturnStmt" or is_error_exit(last))
    if k == "ReturnStmt":
        return any(cf.callee_name(n) in PYERR for n in cf.walk(stmt) if n.get("k") == "CallExpr")
    return False


def always_returns(stmt):
    if stmt is None:
        return False
    k = stmt.get("k")
    if k == "ReturnStmt":
        return True
    if k == "CompoundStmt":
        kids = [c for c in stmt.get("c", []) if c.get("k") != "NullStmt"]
        return bool(kids) and always_returns(kids[-1])
    if k == "IfStmt":
        c = stmt.get("c", [])
        return len(c) >= 3 and always_returns(c[1]) and always_returns(c[2])
    return False


class Wrapper:
    """PyArg_ParseTupleAndKeywords tables of a Python-callable C function."""

    def __init__(self, cfile, name):
        self.cfile = cfile
        self.name = name
        self.node = cfile.funcs[name]
        self.locals = {}       # name -> (ctype, init text or None)
        self.kwlist = None
        self.fmt = None
        self.addr_vars = None
        self.addr_bare = set()   # parse targets passed without `&`
        self.parse_call = None
        self._scan()

    def _scan(self):
        c = self.cfile
        for n in cf.walk(self.node):
            if n.get("k") == "VarDecl" and n.get("n"):
                init = None
                kids = n.get("c", [])
                if kids:
                    v = cf.strip(kids[0])
                    if v.get("k") in ("IntegerLiteral", "CharacterLiteral", "FloatingLiteral"):
                        init = v.get("v")
                        if v.get("k") == "CharacterLiteral":
                            try:
                                init = "'%s'" % chr(int(init))
                            except Exception:
                                pass
                    elif v.get("k") == "UnaryOperator" and v.get("op") == "-" and v.get("c") and \
                            cf.strip(v["c"][0]).get("k") == "IntegerLiteral":
                        init = "-" + cf.strip(v["c"][0]).get("v")
                    elif n["n"] != "kwlist":
                        # NULL and other macro initialisers: recover from text after '='
                        lo = n.get("lo")
                        if lo is not None:
                            t = c.stmt_text_until_semicolon(lo)
                            t = t.split(",")[0]
                            if "=" in t:
                                init = t.split("=", 1)[1].strip()
                self.locals[n["n"]] = (n.get("t"), init)
                if n["n"] == "kwlist" and kids:
                    self.kwlist = [cf.string_value(x) for x in kids[0].get("c", [])]
                    self.kwlist = [x for x in self.kwlist if x is not None]
            if n.get("k") == "CallExpr" and cf.callee_name(n) in ("PyArg_ParseTupleAndKeywords", "PyArg_ParseTuple") \
                    and self.parse_call is None:
                self.parse_call = n
                args = n["c"][1:]
                off = 2 if cf.callee_name(n) == "PyArg_ParseTupleAndKeywords" else 1
                self.fmt = cf.string_value(args[off]) if len(args) > off else None
                first = off + (2 if cf.callee_name(n) == "PyArg_ParseTupleAndKeywords" else 1)
                self.addr_vars = []
                for a in args[first:]:
                    a = cf.strip(a)
                    nm = None
                    if a.get("k") == "UnaryOperator" and a.get("op") == "&" and a.get("c"):
                        t = cf.strip(a["c"][0])
                        if t.get("k") == "DeclRefExpr":
                            nm = t.get("ref")
                    elif a.get("k") == "DeclRefExpr":
                        nm = a.get("ref")
                        self.addr_bare.add(nm)
                    self.addr_vars.append(nm)

    def format_units(self):
        """[(unit, optional?)] of the parse format (without ':name' / ';msg')."""
        if self.fmt is None:
            return None
        out, opt = [], False
        i = 0
        f = self.fmt.split(":")[0].split(";")[0]
        while i < len(f):
            ch = f[i]
            if ch == "|":
                opt = True
            elif ch == "$":
                pass
            elif ch == "O" and i + 1 < len(f) and f[i + 1] in "!&":
                out.append((f[i:i + 2], opt))
                i += 1
            elif ch in "sz" and i + 1 < len(f) and f[i + 1] == "#":
                out.append((f[i:i + 2], opt))
                i += 1
            else:
                out.append((ch, opt))
            i += 1
        return out

    def py_params(self):
        """[(python keyword, C variable, format unit, optional?)]"""
        u = self.format_units()
        if u is None or self.kwlist is None or self.addr_vars is None:
            return None
        out = []
        ai = 0
        for i, (unit, opt) in enumerate(u):
            kw = self.kwlist[i] if i < len(self.kwlist) else None
            var = self.addr_vars[ai] if ai < len(self.addr_vars) else None
            ai += 2 if unit in ("O!", "O&", "s#", "z#") else 1
            if unit in ("O!", "O&"):
                var = self.addr_vars[ai - 1] if ai - 1 < len(self.addr_vars) else None
            out.append((kw, var, unit, opt))
        return out


# --------------------------------------------------------------------------------------
# three-valued partial evaluation of conditions
# --------------------------------------------------------------------------------------

class Case:
    def __init__(self, mid, flags, signs, ptrs, rels=None):
        self.mid = mid          # 'DOUBLE' / 'COMPLEX' / None
        self.flags = flags      # var -> char
        self.signs = signs      # var -> 0 / 1
        self.ptrs = ptrs        # var -> bool (non-NULL?)
        self.rels = rels or {}  # (a, b) -> bool : truth of `a < b` for two integer variables

    def key(self):
        return (self.mid, tuple(sorted(self.flags.items())), tuple(sorted(self.signs.items())),
                tuple(sorted(self.ptrs.items())))

    def __repr__(self):
        return "id=%s %s %s %s%s" % (self.mid, " ".join("%s='%s'" % kv for kv in sorted(self.flags.items())),
                                   " ".join("%s%s" % (k, ">0" if v else "=0") for k, v in sorted(self.signs.items())),
                                   " ".join("%s%s" % ("" if v else "!", k) for k, v in sorted(self.ptrs.items())),
                                   "".join(" %s%s%s" % (a, "<" if v else ">=", b) for (a, b), v in sorted(self.rels.items())))


CMP = {"==", "!=", "<", ">", "<=", ">="}


def peval(e, case):
    """-> True / False / residual expression"""
    e = cx.strip_casts(e)
    k = e[0]
    if k == "num":
        return bool(e[1])
    if k == "un" and e[1] == "!":
        v = peval(e[2], case)
        if v is True:
            return False
        if v is False:
            return True
        return ("un", "!", v)
    if k == "bin" and e[1] in ("&&", "||"):
        l, r = peval(e[2], case), peval(e[3], case)
        if e[1] == "&&":
            if l is False or r is False:
                return False
            if l is True:
                return r
            if r is True:
                return l
        else:
            if l is True or r is True:
                return True
            if l is False:
                return r
            if r is False:
                return l
        return ("bin", e[1], l, r)
    if k == "id":
        if e[1] in case.signs:
            return case.signs[e[1]] == 1
        if e[1] in case.ptrs:
            return case.ptrs[e[1]]
        return e
    if k == "bin" and e[1] in CMP:
        l, r = cx.strip_casts(e[2]), cx.strip_casts(e[3])
        op = e[1]
        if r[0] == "id" and l[0] in ("num", "chr"):
            l, r = r, l
            op = {"<": ">", ">": "<", "<=": ">=", ">=": "<=", "==": "==", "!=": "!="}[op]
        if l[0] == "id" and r[0] == "chr" and l[1] in case.flags and op in ("==", "!="):
            return (case.flags[l[1]] == r[1]) == (op == "==")
        if l[0] == "id" and r[0] == "num" and l[1] in case.signs and isinstance(r[1], int):
            s, c = case.signs[l[1]], r[1]
            # value is 0 when s == 0, some integer >= 1 when s == 1
            if s == 0:
                return {"==": 0 == c, "!=": 0 != c, "<": 0 < c, ">": 0 > c, "<=": 0 <= c, ">=": 0 >= c}[op]
            if c <= 0:
                return {"==": False, "!=": True, "<": False, ">": True, "<=": False, ">=": True}[op]
            if c == 1:
                if op == ">=":
                    return True
                if op == "<":
                    return False
        if l[0] == "id" and r[0] == "id" and op in ("<", ">", "<=", ">=") and getattr(case, "rels", None):
            a, b = l[1], r[1]
            if (a, b) in case.rels:        # a < b known
                v = case.rels[(a, b)]
                if op == "<":
                    return v
                if op == ">=":
                    return not v
            if (b, a) in case.rels:        # b < a known
                v = case.rels[(b, a)]
                if op == ">":
                    return v
                if op == "<=":
                    return not v
        if l[0] == "id" and r[0] == "id" and r[1] == "NULL" and l[1] in case.ptrs and op in ("==", "!="):
            return case.ptrs[l[1]] == (op == "!=")
        if l[0] == "call" and l[1] in ("MAT_ID", "X_ID", "SP_ID") and r[0] == "id" and r[1] in ("DOUBLE", "COMPLEX", "INT") \
                and case.mid and op in ("==", "!="):
            return (case.mid == r[1]) == (op == "==")
        return e
    return e


def nnf_not(e):
    """negation of a residual condition pushed to the atoms"""
    k = e[0]
    if k == "un" and e[1] == "!":
        return e[2]
    if k == "bin" and e[1] == "&&":
        return ("bin", "||", nnf_not(e[2]), nnf_not(e[3]))
    if k == "bin" and e[1] == "||":
        return ("bin", "&&", nnf_not(e[2]), nnf_not(e[3]))
    if k == "bin" and e[1] in CMP:
        neg = {"==": "!=", "!=": "==", "<": ">=", ">": "<=", "<=": ">", ">=": "<"}[e[1]]
        return ("bin", neg, e[2], e[3])
    return ("un", "!", e)


def conjuncts(e):
    if e[0] == "bin" and e[1] == "&&":
        return conjuncts(e[2]) + conjuncts(e[3])
    return [e]


def _resolve(e, case):
    """resolve ternaries whose condition is decided by the case"""
    if not isinstance(e, tuple):
        return e
    k = e[0]
    if k == "tern":
        v = peval(e[1], case)
        if v is True:
            return _resolve(e[2], case)
        if v is False:
            return _resolve(e[3], case)
        return ("tern", e[1], _resolve(e[2], case), _resolve(e[3], case))
    if k == "bin":
        return ("bin", e[1], _resolve(e[2], case), _resolve(e[3], case))
    if k == "un":
        return ("un", e[1], _resolve(e[2], case))
    if k == "cast":
        return ("cast", e[1], _resolve(e[2], case))
    if k == "call":
        return ("call", e[1], [_resolve(a, case) for a in e[2]])
    return e


class Fact:
    """D >= 0 (strict: D > 0), or an equality/other atom kept as text."""

    def __init__(self, op, lhs, rhs, text):
        self.text = text
        self.op = op
        self.D = None
        self.strict = False
        l, r = cx.to_poly(lhs), cx.to_poly(rhs)
        if l is not None and r is not None:
            if op in ("<=", "<"):
                self.D, self.strict = r - l, op == "<"
            elif op in (">=", ">"):
                self.D, self.strict = l - r, op == ">"
            elif op == "==":
                self.D = l - r
        self.eq = op == "=="
        self.ne = op == "!="
        self.idents = cx.idents(lhs) | cx.idents(rhs)


def facts_of_rejected(cond_residual):
    """facts that hold after `if (cond) <error exit>` did not exit"""
    out = []
    neg = nnf_not(cond_residual)
    for a in conjuncts(neg):
        if a[0] == "bin" and a[1] in CMP:
            out.append(Fact(a[1], a[2], a[3], cx.unparse(a)))
        elif a[0] == "un" and a[1] == "!" and a[2][0] == "un" and a[2][1] == "!":
            out.append(Fact("truthy", a[2][2], ("num", 0), cx.unparse(a[2][2])))
        else:
            f = Fact("other", a, ("num", 0), cx.unparse(a))
            f.D = None
            out.append(f)
    return out


class CallSite:
    def __init__(self, node, callee, args_text, facts, case, in_threads, path):
        self.node = node
        self.callee = callee
        self.args_text = args_text
        self.args = []
        for t in args_text:
            try:
                self.args.append(cx.parse(t))
            except cx.ParseError:
                self.args.append(None)
        self.facts = list(facts)
        self.case = case
        self.in_threads = in_threads
        self.path = path


def is_type_id_expr(c, fnode, ce):
    """`MAT_ID(x)` / `X_ID(x)` / `SP_ID(x)`, or a local that is only ever assigned such a value (`int id = MAT_ID(dl)`)"""
    ce = cx.strip_casts(ce)
    if ce[0] == "call" and ce[1] in ("MAT_ID", "X_ID", "SP_ID"):
        return True
    if ce[0] != "id":
        return False
    key = (id(fnode), ce[1])
    if key not in _ID_LOCALS:
        txt = cx.strip_pp(c.text(fnode["b"], fnode["e"]))
        rhss = re.findall(r"\b%s\s*=(?!=)\s*([^;,]+)" % re.escape(ce[1]), txt)
        _ID_LOCALS[key] = bool(rhss) and all(re.match(r"\s*(MAT_ID|X_ID|SP_ID)\s*\(", r_) for r_ in rhss)
    return _ID_LOCALS[key]


_ID_LOCALS = {}


_PRED_CACHE = {}


def _predicate_helper(c, name):
    """(params, expression text) of a static helper whose body is a chain `if (C) return E; .. return E;` - a predicate used
    inside guards (`if (operand_too_small(trans, n, k, ld, o, len(A))) err_buf_len("A")`) - else None"""
    key = (c.path, name)
    if key in _PRED_CACHE:
        return _PRED_CACHE[key]
    res = None
    node = c.funcs.get(name)
    if node is not None and node.get("b") is not None:
        params = [x.get("n") for x in node.get("c", []) if x.get("k") == "ParmVarDecl"]
        txt = cx.strip_pp(c.text(node["b"], node["e"]))
        txt = re.sub(r"/\*.*?\*/", " ", txt, flags=re.S)
        i = txt.find("{")
        body = txt[i + 1:txt.rfind("}")].strip() if i >= 0 else ""
        parts = []
        ok = bool(body)
        while body and ok:
            m1 = re.match(r"if\s*\(", body)
            if m1:
                d, j = 0, m1.end() - 1
                while j < len(body):
                    if body[j] == "(":
                        d += 1
                    elif body[j] == ")":
                        d -= 1
                        if d == 0:
                            break
                    j += 1
                cond = body[m1.end():j]
                m2 = re.match(r"\s*return\s+([^;]+);", body[j + 1:])
                if not m2:
                    ok = False
                    break
                parts.append((cond, m2.group(1)))
                body = body[j + 1 + m2.end():].strip()
            else:
                m2 = re.fullmatch(r"return\s+([^;]+);", body)
                if not m2:
                    ok = False
                    break
                parts.append((None, m2.group(1)))
                body = ""
        if ok and parts and parts[-1][0] is None and all(p_ for p_ in params):
            expr = "(%s)" % parts[-1][1]
            for cond, val in reversed(parts[:-1]):
                expr = "((%s) ? (%s) : %s)" % (cond, val, expr)
            res = (params, expr)
    _PRED_CACHE[key] = res
    return res


def inline_predicates(c, e, depth=0):
    """replace calls of predicate helpers (see _predicate_helper) by their body with the arguments substituted"""
    if not isinstance(e, tuple) or depth > 3:
        return e
    if e[0] == "call" and isinstance(e[1], str) and e[1] in c.funcs:
        ph = _predicate_helper(c, e[1])
        if ph is not None and len(ph[0]) == len(e[2]):
            txt = ph[1]
            # simultaneous substitution through placeholders
            for k, p_ in enumerate(ph[0]):
                txt = re.sub(r"(?<![\w.>])%s\b" % re.escape(p_), "\x00%d\x00" % k, txt)
            for k, a in enumerate(e[2]):
                txt = txt.replace("\x00%d\x00" % k, "(" + cx.unparse(a) + ")")
            try:
                return inline_predicates(c, cx.parse(txt), depth + 1)
            except cx.ParseError:
                return e
    return tuple(inline_predicates(c, x, depth) if isinstance(x, tuple) else
                 ([inline_predicates(c, y, depth) for y in x] if isinstance(x, list) else x) for x in e)


def _disjuncts(e):
    e = cx.strip_casts(e)
    if e[0] == "bin" and e[1] == "||":
        return _disjuncts(e[2]) + _disjuncts(e[3])
    return [e]


class Simulator:
    def __init__(self, cfile, fname):
        self.c = cfile
        self.fname = fname
        self.fn = cfile.funcs[fname]
        self.body = cf.body_of(self.fn)
        self._cond_cache = {}
        self.parse_errors = []
        self.rel_vars = set()
        # variables whose address goes to PyArg_Parse*: their declared initialiser is only a default
        self.parse_targets = set()
        for n in cf.walk(self.fn):
            if n.get("k") == "CallExpr" and (cf.callee_name(n) or "").startswith("PyArg_Parse"):
                for a in n.get("c", [])[1:]:
                    a = cf.strip(a)
                    if a.get("k") == "UnaryOperator" and a.get("op") == "&" and a.get("c"):
                        t = cf.strip(a["c"][0])
                        if t.get("k") == "DeclRefExpr":
                            self.parse_targets.add(t.get("ref"))
        self.flag_vars, self.sign_vars, self.ptr_vars = self._discover()

    # ---- text helpers -----------------------------------------------------------------
    def cond_of(self, stmt):
        """parsed condition of an if/while/switch statement from source text"""
        key = id(stmt)
        if key in self._cond_cache:
            return self._cond_cache[key]
        res = None
        if not stmt.get("bm") and stmt.get("b") is not None:
            span = self.c.paren_after(stmt["b"])
            if span:
                txt = self.c.text(span[0] + 1, span[1])
                try:
                    res = cx.parse(txt)
                    res = inline_predicates(self.c, res)
                except cx.ParseError as ex:
                    self.parse_errors.append((txt[:60], str(ex)))
        self._cond_cache[key] = res
        return res

    def call_args(self, call):
        if call.get("bm") or call.get("b") is None:
            return None
        span = self.c.paren_after(call["b"])
        if not span:
            return None
        return cf.split_top(self.c.text(span[0] + 1, span[1]))

    def stmt_expr(self, stmt):
        if stmt.get("bm") or stmt.get("b") is None:
            return None
        txt = self.c.stmt_text_until_semicolon(stmt["b"])
        try:
            return cx.parse(txt)
        except cx.ParseError:
            return None

    # ---- case dimensions --------------------------------------------------------------
    def _discover(self):
        flags, signs, ptrs = {}, set(), set()
        loc = {}
        for n in cf.walk(self.fn):
            if n.get("k") in ("VarDecl", "ParmVarDecl") and n.get("n"):
                loc[n["n"]] = n.get("t") or ""
        for st in cf.walk(self.body):
            if st.get("k") in ("IfStmt", "ConditionalOperator", "WhileStmt"):
                if st.get("k") != "IfStmt":
                    continue
                c = self.cond_of(st)
                if c is None:
                    continue
                rej = is_error_exit(st["c"][1]) if len(st.get("c", [])) > 1 else False
                cc = cx.strip_casts(c)
                if rej and cc[0] == "bin" and cc[1] in ("<", "<=", "==") and cx.strip_casts(cc[2])[0] == "id" \
                        and cx.strip_casts(cc[3]) == ("num", 0):
                    continue      # `if (v < 0) error`: a global fact about v, not a case split
                if cc[0] == "bin" and cc[1] in ("<", "==") and cx.strip_casts(cc[2])[0] == "id" \
                        and cx.strip_casts(cc[3]) == ("num", 0) and len(st.get("c", [])) == 2:
                    then = st["c"][1]
                    if then.get("k") == "CompoundStmt" and len(then.get("c", [])) == 1:
                        then = then["c"][0]
                    if then.get("k") == "BinaryOperator" and then.get("op") == "=" and \
                            cf.strip(then["c"][0]).get("ref") == cx.strip_casts(cc[2])[1]:
                        continue  # `if (v == 0) v = default;` / `if (v < 0) v = default;`: default idiom
                self._scan_cond(c, loc, flags, signs, ptrs, rej)
        # relational tests inside the arguments of library calls (`cond ? buf : NULL`)
        for n in cf.walk(self.body):
            if n.get("k") == "ConditionalOperator" and not n.get("bm") and n.get("b") is not None:
                end = self.c.srcb.find(b"?", n["b"])
                if 0 < end - n["b"] < 200:
                    try:
                        ce = cx.parse(self.c.text(n["b"], end))
                        self._scan_cond(ce, loc, flags, set(), set(), False)
                    except cx.ParseError:
                        pass
        # character comparisons anywhere in the body (assignments, arguments)
        import re
        if self.fn.get("b") is not None and self.fn.get("e") is not None:
            for mm in re.finditer(r"\b([A-Za-z_]\w*)\s*[!=]=\s*'(.)'", self.c.text(self.fn["b"], self.fn["e"])):
                if loc.get(mm.group(1), "") in ("char", "int"):
                    flags.setdefault(mm.group(1), set()).add(mm.group(2))
        # flags: only characters with a validated value set
        flags = {k: sorted(v) for k, v in flags.items() if v}
        return flags, sorted(signs), sorted(ptrs)

    def _scan_cond(self, e, loc, flags, signs, ptrs, rejecting):
        e = cx.strip_casts(e)
        k = e[0]
        if k == "bin" and e[1] in ("&&", "||"):
            self._scan_cond(e[2], loc, flags, signs, ptrs, rejecting)
            self._scan_cond(e[3], loc, flags, signs, ptrs, rejecting)
        elif k == "un" and e[1] == "!":
            self._scan_cond(e[2], loc, flags, signs, ptrs, rejecting)
        elif k == "tern":
            # an inlined predicate helper: `(k <= 0) ? 0 : ((trans == 'N') ? .. : ..)`
            for sub in e[1:4]:
                self._scan_cond(sub, loc, flags, signs, ptrs, rejecting)
        elif k == "id":
            t = loc.get(e[1], "")
            if t == "int":
                signs.add(e[1])
            elif "*" in t:
                ptrs.add(e[1])
        elif k == "bin" and e[1] in CMP:
            l, r = cx.strip_casts(e[2]), cx.strip_casts(e[3])
            if r[0] == "id" and l[0] in ("num", "chr"):
                l, r = r, l
            if l[0] == "id" and r[0] == "chr" and loc.get(l[1], "") in ("char", "int"):
                flags.setdefault(l[1], set()).add(r[1])
            elif l[0] == "id" and r[0] == "num" and r[1] in (0, 1) and loc.get(l[1], "") == "int":
                signs.add(l[1])
            elif l[0] == "id" and r[0] == "id" and r[1] == "NULL" and "*" in loc.get(l[1], ""):
                ptrs.add(l[1])
            elif l[0] == "id" and r[0] == "id" and loc.get(l[1]) == "int" and loc.get(r[1]) == "int" \
                    and e[1] in ("<", ">", "<=", ">="):
                a, b = (l[1], r[1]) if e[1] in ("<", ">=") else (r[1], l[1])
                if (b, a) not in self.rel_vars:
                    self.rel_vars.add((a, b))

    def cases(self, mids=("DOUBLE", "COMPLEX"), max_cases=6000):
        fl = sorted(self.flag_vars.items())
        dims = [v for v in self.sign_vars]
        ptrs = [v for v in self.ptr_vars]
        n = len(mids)
        for _, vals in fl:
            n *= len(vals)
        n *= 2 ** (len(dims) + len(ptrs))
        if n > max_cases:
            # too many: keep signs positive for all but enumerate each dim zero alone
            sign_sets = [dict((d, 1) for d in dims)] + [dict((d, 0 if d == z else 1) for d in dims) for z in dims]
            ptr_sets = [dict((p, True) for p in ptrs), dict((p, False) for p in ptrs)]
        else:
            sign_sets = [dict(zip(dims, c)) for c in itertools.product((1, 0), repeat=len(dims))]
            ptr_sets = [dict(zip(ptrs, c)) for c in itertools.product((True, False), repeat=len(ptrs))]
        rels = sorted(self.rel_vars)[:3]
        rel_sets = [dict(zip(rels, c)) for c in itertools.product((True, False), repeat=len(rels))]
        for mid in mids:
            for combo in itertools.product(*[v for _, v in fl]):
                fd = dict(zip([k for k, _ in fl], combo))
                for sg in sign_sets:
                    for pt in ptr_sets:
                        for rl in rel_sets:
                            yield Case(mid, fd, sg, pt, rl)

    # ---- abstract execution ------------------------------------------------------------
    def run(self, case, externs):
        """-> (list of CallSite, ended: 'return'|'error'|'fallthrough', notes)"""
        self.sites = []
        self.case = Case(case.mid, dict(case.flags), dict(case.signs), dict(case.ptrs), dict(case.rels))
        self.orig_case = case
        self.externs = externs
        self.assigned_after_guard = []
        self.guarded_vars = set()
        facts = []
        self.infeasible = False
        end = self._block([self.body], facts, False, [])
        if self.infeasible:
            return [], "infeasible"
        return self.sites, end

    def _block(self, stmts, facts, in_threads, path):
        for st in stmts:
            r = self._stmt(st, facts, in_threads, path)
            if r in ("return", "error"):
                return r
        return None

    def _stmt(self, st, facts, in_threads, path):
        k = st.get("k")
        if k == "CompoundStmt":
            # Py_BEGIN_ALLOW_THREADS opens a block `{ PyThreadState *_save; ...`
            thr = in_threads or any(c.get("k") == "DeclStmt" and any(
                v.get("n") == "_save" for v in c.get("c", [])) for c in st.get("c", []))
            return self._block(st.get("c", []), facts, thr, path)
        if k == "IfStmt":
            kids = st.get("c", [])
            cond, then = kids[0], kids[1] if len(kids) > 1 else None
            els = kids[2] if len(kids) > 2 else None
            ce = self.cond_of(st)
            dv = self._default_idiom_var(st, ce)
            if dv is not None:
                # `if (v < 0) v = default;`: whatever was established about v before this point was
                # established for the raw argument (-1 / 0 when omitted), not for the value used below
                facts[:] = [f for f in facts if dv not in f.idents]
            v = peval(ce, self.case) if ce is not None else None
            if v is True:
                return self._stmt(then, facts, in_threads, path + [("T", st)]) if then else None
            if v is False:
                return self._stmt(els, facts, in_threads, path + [("F", st)]) if els else None
            # unknown
            if is_error_exit(then):
                if self.case.rels and ce is not None:
                    # disjuncts decided false by the case's order relation between two integers
                    # (`n > ldA || ...`) still hold as facts after the guard
                    for d in _disjuncts(ce):
                        d = cx.strip_casts(d)
                        if d[0] == "bin" and d[1] in ("<", ">", "<=", ">=") and cx.strip_casts(d[2])[0] == "id" \
                                and cx.strip_casts(d[3])[0] == "id" and peval(d, self.case) is False:
                            facts.extend(facts_of_rejected(d))
                if v is not None:
                    new = facts_of_rejected(_resolve(v, self.case))
                    facts.extend(new)
                    for f in new:
                        self.guarded_vars |= f.idents
                if els:
                    return self._stmt(els, facts, in_threads, path)
                return None
            if els is not None and is_error_exit(els):
                if v is not None:
                    facts.extend(facts_of_rejected(("un", "!", v)))
                return self._stmt(then, facts, in_threads, path)
            # neither branch is an error exit and the condition is undetermined: explore
            # both with copies of the facts; keep only facts that hold after both
            f1, f2 = list(facts), list(facts)
            r1 = self._stmt(then, f1, in_threads, path + [("?T", st)]) if then else None
            r2 = self._stmt(els, f2, in_threads, path + [("?F", st)]) if els else None
            keep = [f for f in facts if (f in f1 or r1) and (f in f2 or r2)]
            facts[:] = keep
            if r1 and r2:
                return r1
            return None
        if k == "SwitchStmt":
            kids = st.get("c", [])
            ce = self.cond_of(st)
            body = kids[-1] if kids else None
            on_id = ce is not None and is_type_id_expr(self.c, self.fn, ce)
            if body is None:
                return None
            arms = self._switch_arms(body)
            if on_id and self.case.mid:
                chosen = None
                for labels, stmts in arms:
                    if self.case.mid in labels:
                        chosen = stmts
                if chosen is None:
                    for labels, stmts in arms:
                        if "default" in labels:
                            chosen = stmts
                if chosen is None:
                    return None
                return self._arm(chosen, facts, in_threads, path)
            # other switches: run every arm on copies
            for labels, stmts in arms:
                self._arm(stmts, list(facts), in_threads, path)
            return None
        if k == "ReturnStmt":
            return "error" if is_error_exit(st) else "return"
        if k in ("ForStmt", "WhileStmt", "DoStmt"):
            # loops: analyse the body once with copies (facts inside do not escape)
            for c in st.get("c", []):
                if c.get("k") in ("CompoundStmt", "CallExpr", "IfStmt", "BinaryOperator"):
                    self._stmt(c, list(facts), in_threads, path)
            self._note_assignments(st, facts)
            return None
        if k in ("BinaryOperator", "CompoundAssignOperator", "UnaryOperator"):
            self._note_assignments(st, facts)
            for c in cf.walk(st):
                if c.get("k") == "CallExpr":
                    self._call(c, facts, in_threads, path)
            return None
        if k == "CallExpr":
            self._call(st, facts, in_threads, path)
            for c in st.get("c", [])[1:]:
                for x in cf.walk(c):
                    if x.get("k") == "CallExpr":
                        self._call(x, facts, in_threads, path)
            return None
        if k == "DeclStmt":
            for c in cf.walk(st):
                if c.get("k") == "CallExpr":
                    self._call(c, facts, in_threads, path)
            # locals initialised with a condition that the case decides (`int rs = (trans == 'N' || ..)`)
            for vd in st.get("c", []):
                if vd.get("k") == "VarDecl" and vd.get("c") and vd.get("t") in ("int", "char", "_Bool") and vd.get("lo") is not None:
                    txt = self.c.stmt_text_until_semicolon(vd["lo"])
                    txt = txt.split(",")[0] if txt.count("(") == txt.split(",")[0].count("(") else txt
                    if "=" in txt and vd["n"] not in self.parse_targets:
                        try:
                            v = peval(cx.parse(txt.split("=", 1)[1]), self.case)
                        except cx.ParseError:
                            v = None
                        if v is True or v is False:
                            self.case.signs[vd["n"]] = 1 if v else 0
                        else:
                            try:
                                rhs = _resolve(cx.parse(txt.split("=", 1)[1]), self.case)
                                pz = cx.to_poly(rhs)
                            except cx.ParseError:
                                pz = None
                            if pz is not None and vd["n"] not in pz.symbols():
                                # a local defined as a copy of a case variable has that variable's sign: the case
                                # combinations that give it another one are infeasible
                                r0 = cx.strip_casts(rhs)
                                if r0[0] == "id" and r0[1] in self.case.signs and vd["n"] in self.case.signs \
                                        and self.case.signs[vd["n"]] != self.case.signs[r0[1]]:
                                    self.infeasible = True
                                f = Fact("==", ("id", vd["n"]), rhs, "%s == %s" % (vd["n"], cx.unparse(rhs)))
                                f.assign_var, f.assign_poly = vd["n"], pz
                                facts.append(f)
            return None
        if k in ("BreakStmt", "ContinueStmt"):
            return None
        if k == "GotoStmt":
            return "return"
        for c in st.get("c", []):
            if c.get("k") and c.get("k").endswith("Stmt"):
                r = self._stmt(c, facts, in_threads, path)
                if r:
                    return r
        return None

    def _switch_arms(self, body):
        arms = []
        cur = None
        for s in body.get("c", []):
            node = s
            labels = []
            while node.get("k") in ("CaseStmt", "DefaultStmt"):
                if node["k"] == "DefaultStmt":
                    labels.append("default")
                    node = node["c"][-1] if node.get("c") else {"k": "NullStmt"}
                else:
                    lab = cf.strip(node["c"][0])
                    txt = None
                    if lab.get("b") is not None:
                        t = self.c.text(lab["b"], (lab.get("e") or lab["b"]) + 0)
                        txt = t.strip() or None
                    if lab.get("k") == "DeclRefExpr":
                        txt = lab.get("ref")
                    elif lab.get("k") == "IntegerLiteral" and txt is None:
                        txt = lab.get("v")
                    # enum constants DOUBLE/COMPLEX/INT come as DeclRefExpr to EnumConstantDecl
                    if txt is None or not txt.isidentifier():
                        for x in cf.walk(node["c"][0]):
                            if x.get("k") == "DeclRefExpr":
                                txt = x.get("ref")
                    # macros: recover from source
                    if (txt is None or txt.isdigit()) and node.get("b") is not None:
                        src = self.c.text(node["b"], node["b"] + 40)
                        import re
                        m = re.match(r"case\s+(\w+)", src)
                        if m:
                            txt = m.group(1)
                    labels.append(txt or "?")
                    node = node["c"][-1]
            if labels:
                cur = (labels, [node])
                arms.append(cur)
            elif cur is not None:
                cur[1].append(s)
        return arms

    def _arm(self, stmts, facts, in_threads, path):
        for s in stmts:
            if s.get("k") == "BreakStmt":
                return None
            r = self._stmt(s, facts, in_threads, path)
            if r:
                return r
        return None

    def _default_idiom_var(self, st, ce):
        if ce is None or len(st.get("c", [])) != 2:
            return None
        cc = cx.strip_casts(ce)
        if not (cc[0] == "bin" and cc[1] in ("<", "==", "<=") and cx.strip_casts(cc[2])[0] == "id"
                and cx.strip_casts(cc[3]) in (("num", 0),)):
            return None
        then = st["c"][1]
        if then.get("k") == "CompoundStmt" and len(then.get("c", [])) == 1:
            then = then["c"][0]
        if then.get("k") == "BinaryOperator" and then.get("op") == "=" and then.get("c") and \
                cf.strip(then["c"][0]).get("ref") == cx.strip_casts(cc[2])[1]:
            return cx.strip_casts(cc[2])[1]
        return None

    def _note_assignments(self, st, facts):
        for n in cf.walk(st):
            tgt = None
            if n.get("k") in ("BinaryOperator", "CompoundAssignOperator") and n.get("op", "").endswith("=") \
                    and n.get("op") not in ("==", "!=", "<=", ">="):
                t = cf.strip(n["c"][0]) if n.get("c") else None
                if t and t.get("k") == "DeclRefExpr":
                    tgt = t.get("ref")
            elif n.get("k") == "UnaryOperator" and n.get("op") in ("++", "--") and n.get("c"):
                t = cf.strip(n["c"][0])
                if t.get("k") == "DeclRefExpr":
                    tgt = t.get("ref")
            if tgt and n.get("k") == "CompoundAssignOperator" and n.get("op") == "*=" and len(n.get("c", [])) > 1 \
                    and cf.strip(n["c"][1]).get("k") == "IntegerLiteral":
                # v *= c : facts are re-expressed in the new value (old v = v / c)
                from fractions import Fraction
                c = int(cf.strip(n["c"][1]).get("v"))
                if c != 0:
                    sub = {tgt: Poly.sym(tgt) * Poly.const(Fraction(1, c)),
                           "abs(%s)" % tgt: Poly.sym("abs(%s)" % tgt) * Poly.const(Fraction(1, abs(c)))}
                    for f in facts:
                        if f.D is not None and tgt in f.idents:
                            f.D = f.D.subs(sub)
                            f.text = f.text + "  [after %s *= %d]" % (tgt, c)
                    continue
            if tgt and n.get("k") == "BinaryOperator" and n.get("op") == "=" and len(n.get("c", [])) > 1 \
                    and cf.strip(n["c"][1]).get("k") == "DeclRefExpr" and cf.strip(n["c"][1]).get("ref") in self.case.flags:
                self.case.flags[tgt] = self.case.flags[cf.strip(n["c"][1])["ref"]]     # `trans_ = trans;`
                continue
            if tgt and tgt in self.case.flags and n.get("k") == "BinaryOperator" and n.get("op") == "=" \
                    and cf.strip(n["c"][1]).get("k") == "CharacterLiteral":
                try:
                    self.case.flags[tgt] = chr(int(cf.strip(n["c"][1]).get("v")))
                except Exception:
                    self.case.flags.pop(tgt, None)
                continue
            if tgt:
                # facts about the old value of tgt no longer hold
                before = len(facts)
                facts[:] = [f for f in facts if tgt not in f.idents]
                if before != len(facts):
                    self.assigned_after_guard.append((tgt, st))
                if n is st and n.get("k") == "BinaryOperator" and n.get("op") == "=":
                    e0 = self.stmt_expr(st)
                    if e0 and e0[0] == "assign" and e0[1] == "=" and e0[2] == ("id", tgt):
                        v0 = peval(e0[3], self.case)
                        if v0 is True or v0 is False:
                            self.case.signs[tgt] = 1 if v0 else 0
                        elif tgt in self.case.signs and tgt not in self.orig_case.signs:
                            self.case.signs.pop(tgt, None)
                # a plain top-level assignment `v = E` (E not mentioning v) gives v == E
                if n is st and n.get("k") == "BinaryOperator" and n.get("op") == "=":
                    e = self.stmt_expr(st)
                    if e and e[0] == "assign" and e[1] == "=" and e[2] == ("id", tgt) and tgt not in cx.idents(e[3]):
                        e = ("assign", "=", e[2], _resolve(e[3], self.case))
                        p = cx.to_poly(e[3])
                        # a local assigned a copy of a case variable (`yn = (trans == 'N') ? m : n;` resolved by the case's flag) has
                        # that variable's sign: case combinations that give it another one are infeasible
                        r0 = cx.strip_casts(e[3])
                        if r0[0] == "id" and r0[1] in self.orig_case.signs and tgt in self.orig_case.signs \
                                and self.orig_case.signs[tgt] != self.orig_case.signs[r0[1]]:
                            self.infeasible = True
                        if p is not None:
                            f = Fact("==", e[2], e[3], cx.unparse(e))
                            f.assign_var, f.assign_poly = tgt, p
                            facts.append(f)

    def _call(self, call, facts, in_threads, path):
        nm = cf.callee_name(call)
        if nm is None and call.get("c"):
            f0 = cf.strip(call["c"][0])
            if f0.get("k") == "ArraySubscriptExpr" and f0.get("c"):
                b0 = cf.strip(f0["c"][0])
                if b0.get("k") == "DeclRefExpr" and ("tbl:" + (b0.get("ref") or "")) in self.externs:
                    nm = "tbl:" + b0["ref"]
        if nm is None:
            return
        if nm in self.externs:
            args = self.call_args(call)
            if args is None:
                return
            snap = Case(self.case.mid, dict(self.case.flags), dict(self.case.signs), dict(self.case.ptrs), dict(self.case.rels))
            self.sites.append(CallSite(call, nm, args, facts, snap, in_threads, list(path)))
