# A[slice, slice] = v goes through a fast path with different rules from every other index pair
from array import array
from cvxopt import matrix
A = matrix(1.0, (2, 2))
A[[0, 1], :] = matrix(5.0); print(list(A))          # 1x1 matrix is a scalar: ok
A[:, :] = matrix(6);        print(list(A))          # 1x1 'i' matrix into 'd': ok (general path)
try: A[:, :] = matrix(7.0); print(list(A))          # 1x1 'd' matrix into 'd': refused
except Exception as e: print(type(e).__name__, e)
try: A[:, 0] = [8.0]; print(list(A)); A[:, 0:1] = [9.0]; print(list(A))
except Exception as e: print(type(e).__name__, e)
# and it accepts a 2-D buffer of the wrong shape, silently re-shaping it
m = memoryview(array('d', [1, 2, 3, 4, 5, 6])).cast('B').cast('d', (3, 2))   # 3x2 array [[1,2],[3,4],[5,6]]
B = matrix(0.0, (2, 3))
try: B[[0, 1], :] = m
except Exception as e: print("general path:", type(e).__name__, e)
B[:, :] = m; print("fast path accepted 3x2 into 2x3:", list(B))
