# gemv/gbmv with an empty inner dimension and a negative incy: the documented y := beta*y is silently skipped.
from cvxopt import matrix, blas
A = matrix(0.0, (3, 0)); x = matrix(0.0, (0, 1))
y = matrix([1., 2., 3.]); blas.gemv(A, x, y, beta=2.0);           print("gemv incy=+1:", list(y))
y = matrix([1., 2., 3.]); blas.gemv(A, x, y, beta=2.0, incy=-1);  print("gemv incy=-1:", list(y))
y = matrix([1., 2., 3.]); blas.gemv(A, x, y, incy=-1);            print("gemv incy=-1 beta default 0:", list(y))
At = matrix(0.0, (0, 3))
y = matrix([1+1j, 2, 3]); blas.gemv(matrix(0j, (0, 3)), matrix(0j, (0, 1)), y, trans='T', beta=2.0, incy=-1); print("gemv 'T' complex:", list(y))
Ab = matrix(0.0, (2, 0))
y = matrix([1., 2., 3.]); blas.gbmv(Ab, 3, 1, x, y, beta=2.0);          print("gbmv incy=+1:", list(y))
y = matrix([1., 2., 3.]); blas.gbmv(Ab, 3, 1, x, y, beta=2.0, incy=-1); print("gbmv incy=-1:", list(y))
# for comparison, the non-degenerate path honours a negative incy
A1 = matrix(0.0, (3, 1)); x1 = matrix([0.0])
y = matrix([1., 2., 3.]); blas.gemv(A1, x1, y, beta=2.0, incy=-1); print("gemv n=1, A=0, incy=-1:", list(y))
