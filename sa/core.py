"""Core of the static-analysis framework: rule/obligation bookkeeping, evidence,
known findings, exit codes.  Stdlib only.  Nothing here imports or executes cvxopt."""
import hashlib
import json
import os
import sys
import time
import traceback

VERIF = os.path.dirname(os.path.dirname(os.path.abspath(__file__)))
EVIDENCE_DIR = os.path.join(VERIF, "evidence")
REPLAY_DIR = os.path.join(EVIDENCE_DIR, "replay")
KNOWN_FINDINGS = os.path.join(VERIF, "known_findings.json")
FLOORS = os.path.join(VERIF, "floors.json")


def load_floors():
    """Minimum number of decided instances per rule, calibrated on the reference tree
    (tools/calibrate_floors.py: 40% of the count confirmed there).  A rule that decides
    fewer instances has lost its anchors: ANALYSIS-ERROR, never a silent pass."""
    try:
        with open(FLOORS) as f:
            return json.load(f)
    except Exception:
        return {}


class AnalysisError(Exception):
    """The check itself is broken on this tree (vanished anchor, floor not met,
    parser failure).  Exit 2, never a VIOLATION line."""


def norm_key(s):
    return " ".join(str(s).split())


class Rule:
    def __init__(self, check, rid, text, necessary_for):
        self.check = check
        self.rid = rid
        self.text = text
        self.necessary_for = necessary_for
        self.ok_items = []        # (key, where, detail)
        self.violations = []      # dicts
        self.undecided_items = []  # (key, where, why)
        self.observations = []
        self.floor = 0
        self._seen_ok = set()

    # an obligation that was enumerated and discharged on this run
    def ok(self, key, where="", detail=None):
        k = norm_key(key)
        if k in self._seen_ok:
            return
        self._seen_ok.add(k)
        self.ok_items.append((k, where, detail))

    def violation(self, key, where, msg, expected=None, observed=None):
        self.violations.append({
            "rule": self.rid, "key": norm_key(key), "where": where, "msg": msg,
            "expected": expected, "observed": observed})

    def undecided(self, key, where, why):
        self.undecided_items.append((norm_key(key), where, why))

    def observe(self, msg):
        self.observations.append(msg)

    def require(self, n):
        """Minimum number of *decided* instances (ok + violations); below it the
        rule has lost its anchors and the run is ANALYSIS-ERROR."""
        self.floor = n

    @property
    def decided(self):
        return len(self.ok_items) + len(self.violations)


class Check:
    def __init__(self, pid, tier, repo, explanation, trusted_base, assumptions,
                 only_key=None):
        self.pid = pid
        self.tier = tier
        self.repo = repo
        self.explanation = explanation
        self.trusted_base = list(trusted_base)
        self.assumptions = list(assumptions)
        self.rules = []
        self.analysed = {}      # free-form counts: files, functions, call sites...
        self.t0 = time.time()
        self.only_key = only_key
        self.xref = []

    def rule(self, rid, text, necessary_for=""):
        r = Rule(self, rid, text, necessary_for)
        self.rules.append(r)
        return r

    def note_analysed(self, what, n):
        self.analysed[what] = self.analysed.get(what, 0) + n


def load_known():
    if not os.path.exists(KNOWN_FINDINGS):
        return []
    with open(KNOWN_FINDINGS) as f:
        return json.load(f).get("findings", [])


def finish(chk):
    """Print the per-rule report, write evidence + replay files, return exit code."""
    known = [k for k in load_known()
             if k.get("property") == chk.pid and k.get("status", "open") == "open"]
    known_idx = {(k["rule"], norm_key(k["key"])): k for k in known}
    os.makedirs(REPLAY_DIR, exist_ok=True)
    total_obl = total_ok = total_und = 0
    new_violations = []
    known_hits = []
    floor_errors = []
    per_rule = []
    samples = []
    distinct = set()
    floors = load_floors()
    for r in chk.rules:
        if r.rid in floors:
            r.floor = floors[r.rid]
        if os.environ.get("VERIF_CALIBRATE"):
            r.floor = 0
        n_ok, n_v, n_u = len(r.ok_items), len(r.violations), len(r.undecided_items)
        total_obl += n_ok + n_v + n_u
        total_ok += n_ok
        total_und += n_u
        for k, _, _ in r.ok_items:
            distinct.add((r.rid, k))
        for v in r.violations:
            distinct.add((r.rid, v["key"]))
        if r.decided < r.floor:
            floor_errors.append("%s: decided %d < floor %d" % (r.rid, r.decided, r.floor))
        print("RULE %-10s obligations=%d ok=%d violations=%d undecided=%d  -- %s"
              % (r.rid, n_ok + n_v + n_u, n_ok, n_v, n_u, r.text))
        for v in r.violations:
            kk = (r.rid, v["key"])
            if chk.only_key and v["key"] != chk.only_key:
                continue
            if kk in known_idx:
                known_hits.append((known_idx[kk], v))
            else:
                new_violations.append(v)
        for k, where, why in r.undecided_items[:50]:
            print("  UNDECIDED %s %s @ %s : %s" % (r.rid, k, where, why))
        for o in r.observations:
            print("  OBSERVATION %s: %s" % (r.rid, o))
        per_rule.append({
            "rule": r.rid, "text": r.text, "necessary_for": r.necessary_for,
            "obligations": n_ok + n_v + n_u, "discharged": n_ok,
            "violations": n_v, "undecided": n_u, "floor": r.floor,
            "observations": r.observations[:40],
            "undecided_items": [{"key": k, "where": w, "why": y}
                                for k, w, y in r.undecided_items[:40]],
        })
        for k, where, detail in r.ok_items[:3]:
            samples.append({"rule": r.rid, "obligation": k, "where": where,
                            "detail": detail, "verdict": "ok"})
    stale_known = [k for kk, k in known_idx.items()
                   if not any(kh[0] is k for kh in known_hits)]
    for k, v in known_hits:
        print("KNOWN-FINDING: property=%s rule=%s %s @ %s : %s"
              % (chk.pid, v["rule"], v["key"], v["where"], k.get("what_fails", v["msg"])))
    for k in stale_known:
        # a listed finding that no longer reproduces: informational only
        print("NOTE: listed known finding no longer reported: %s %s" % (k["rule"], k["key"]))
    rc = 0
    for v in new_violations:
        h = hashlib.sha1((v["rule"] + "|" + v["key"]).encode()).hexdigest()[:10]
        path = os.path.join(REPLAY_DIR, "%s-%s-%s.json" % (chk.pid, v["rule"], h))
        with open(path, "w") as f:
            json.dump({"property": chk.pid, **v,
                       "replay": "./check %s --replay %s" % (chk.pid, path)}, f, indent=1)
        print("  FAIL %s %s @ %s\n       %s\n       expected: %s\n       observed: %s"
              % (v["rule"], v["key"], v["where"], v["msg"], v["expected"], v["observed"]))
        print("VIOLATION property=%s replay=%s" % (chk.pid, path))
        samples.append({"rule": v["rule"], "obligation": v["key"], "where": v["where"],
                        "detail": v["msg"], "verdict": "VIOLATION"})
        rc = 1
    wall = time.time() - chk.t0
    ev = {
        "property_id": chk.pid,
        "tier": chk.tier,
        "seed": int(os.environ.get("VERIF_SEED", "0") or 0),
        "level": "other",
        "coverage": {
            "explanation": chk.explanation,
            "obligations": total_obl,
            "discharged": total_ok,
            "undecided": total_und,
            "evaluations": total_obl,
            "distinct_nontrivial": len(distinct),
            "rule": "one evaluation = one rule instance (an obligation enumerated from "
                    "/repo's current source on this run and decided by the rule); "
                    "distinct = distinct (rule, normalised construct key); an instance is "
                    "non-trivial when it was decided (ok or violation), undecided ones are "
                    "not counted",
            "samples": samples[:60],
            "exhaustive": True,
            "checker_cmd": "./check %s --tier %s" % (chk.pid, chk.tier),
            "trusted_base": chk.trusted_base,
            "analysed": chk.analysed,
            "rules": per_rule,
            "known_findings_reported": [
                {"rule": v["rule"], "key": v["key"], "where": v["where"]}
                for _, v in known_hits],
            "xref": chk.xref,
        },
        "assumptions": chk.assumptions,
        "wall_s": round(wall, 3),
        "violations": len(new_violations),
    }
    os.makedirs(EVIDENCE_DIR, exist_ok=True)
    if not chk.only_key and not os.environ.get("VERIF_NO_EVIDENCE"):
        with open(os.path.join(EVIDENCE_DIR, chk.pid + ".json"), "w") as f:
            json.dump(ev, f, indent=1, default=str)
    print("SUMMARY property=%s tier=%s obligations=%d discharged=%d undecided=%d "
          "new_violations=%d known=%d wall=%.2fs analysed=%s"
          % (chk.pid, chk.tier, total_obl, total_ok, total_und, len(new_violations),
             len(known_hits), wall, json.dumps(chk.analysed, sort_keys=True)))
    if floor_errors:
        for e in floor_errors:
            print("ANALYSIS-ERROR property=%s floor: %s" % (chk.pid, e))
        return 2 if rc == 0 else rc
    return rc


def selftest(chk, pid, repo):
    """thorough tier: mutation self-test.  Every seeded change that this property's check
    is recorded to catch (seeded/INDEX.json) is applied to a scratch copy of the sources
    (outside /repo, /verif and /tmp; removed afterwards) and the check is re-run on it: it
    must report a violation.  A miss is a defect of the checker (ANALYSIS-ERROR), not of
    cvxopt.  Seeds whose patch no longer applies to the current tree are skipped and listed."""
    import shutil
    import subprocess
    import tempfile
    from concurrent.futures import ThreadPoolExecutor
    idx_path = os.path.join(VERIF, "seeded", "INDEX.json")
    if not os.path.exists(idx_path):
        return
    with open(idx_path) as f:
        idx = json.load(f)
    seeds = sorted(s_ for s_, props in idx.items() if pid in props
                   and os.path.exists(os.path.join(VERIF, "seeded", s_, "patch.diff")))
    rule = chk.rule(pid + "-SELFTEST", "mutation self-test: each seeded change recorded for this property is reported on a scratch copy",
                    "the checker detects realistic breaking changes (both directions tested)")
    base = os.environ.get("VERIF_SCRATCH", "/var/tmp")

    def one(seed):
        d = tempfile.mkdtemp(prefix="verif-selftest-", dir=base)
        try:
            for sub in ("src", "doc"):
                shutil.copytree(os.path.join(repo, sub), os.path.join(d, sub))
            r = subprocess.run(["patch", "-p1", "-s", "-d", d, "-i", os.path.join(VERIF, "seeded", seed, "patch.diff")],
                               stdout=subprocess.PIPE, stderr=subprocess.STDOUT, text=True)
            if r.returncode != 0:
                return seed, "skip", "patch does not apply to the current tree"
            env = dict(os.environ, VERIF_SELFTEST="1", VERIF_NO_EVIDENCE="1")
            c = subprocess.run([os.path.join(VERIF, "check"), pid, "--repo", d, "--tier", "quick"], stdout=subprocess.PIPE,
                               stderr=subprocess.STDOUT, text=True, env=env)
            fails = [l.strip() for l in c.stdout.splitlines() if l.startswith("  FAIL ")]
            return seed, ("caught" if c.returncode == 1 and fails else "missed"), (fails[0][:160] if fails else "exit %d" % c.returncode)
        finally:
            shutil.rmtree(d, ignore_errors=True)
    with ThreadPoolExecutor(max_workers=4) as ex:
        results = list(ex.map(one, seeds))
    missed = []
    for seed, verdict, detail in results:
        where = "seeded/%s/patch.diff" % seed
        if verdict == "caught":
            rule.ok("seed %s is reported" % seed, where, detail)
        elif verdict == "skip":
            rule.undecided("seed %s" % seed, where, detail)
        else:
            missed.append(seed)
            rule.undecided("seed %s" % seed, where, "NOT reported: " + detail)
    chk.note_analysed("selftest_seeds", len(seeds))
    if missed:
        raise AnalysisError("selftest-miss: seeded change(s) %s are no longer detected by %s" % (missed, pid))


def run_main(pid, build, argv):
    """build(chk_args) -> Check.  Catches everything: a traceback is exit 2."""
    import argparse
    ap = argparse.ArgumentParser()
    ap.add_argument("--tier", default=os.environ.get("VERIF_TIER", "quick"))
    ap.add_argument("--repo", default=os.environ.get("VERIF_REPO", "/repo"))
    ap.add_argument("--replay", default=None)
    a = ap.parse_args(argv)
    only = None
    if a.replay:
        with open(a.replay) as f:
            only = json.load(f)["key"]
    try:
        tier = a.tier if a.tier in ("quick", "thorough") else "quick"
        chk = build(tier, a.repo)
        chk.only_key = only
        if tier == "thorough" and not os.environ.get("VERIF_SELFTEST") and not only:
            selftest(chk, pid, a.repo)
        return finish(chk)
    except AnalysisError as e:
        print("ANALYSIS-ERROR property=%s %s" % (pid, e))
        return 2
    except Exception:
        traceback.print_exc()
        print("ANALYSIS-ERROR property=%s internal error (traceback above)" % pid)
        return 2
