"""C front-end: clang JSON AST of the repo's C sources (real include path, same macros
as setup.py on Linux), pruned to the main file's functions/variables, cached by digest.
Structure, types and callee resolution come from clang; expression *text* (needed for
guard algebra, where the repo's macros should stay named functions) is recovered from
the source between reliable anchors (statement begin offsets, balanced parentheses)."""
import hashlib
import json
import os
import time
import pickle
import subprocess
import sys
from concurrent.futures import ProcessPoolExecutor

from .core import AnalysisError, VERIF

C_FILES = ["base.c", "dense.c", "sparse.c", "blas.c", "lapack.c", "misc_solvers.c"]
CACHE = os.path.join(VERIF, ".cache")
_PYINC = None


def py_include():
    global _PYINC
    if _PYINC is None:
        import sysconfig
        _PYINC = sysconfig.get_paths()["include"]
    return _PYINC


def _loc_off(loc):
    """(offset in main-file coordinates or None, is_macro, tokLen)"""
    if not loc:
        return (None, False, 0)
    if "expansionLoc" in loc:
        e = loc["expansionLoc"]
        return (e.get("offset"), True, e.get("tokLen", 0))
    return (loc.get("offset"), False, loc.get("tokLen", 0))


KEEP_KEYS = ("name", "value", "opcode", "castKind", "isPostfix", "isArrow", "storageClass")


def _prune(n):
    """Compact dict: k kind, n name, t type, v value, op opcode, ref/refk referenced decl,
    b/e begin/end offsets (expansion coords), bm/em whether they lie in a macro, c kids."""
    if not n or "kind" not in n:
        return {"k": "Null", "c": []}
    d = {"k": n["kind"]}
    if "name" in n:
        d["n"] = n["name"]
    t = n.get("type")
    if t:
        d["t"] = t.get("qualType")
    if "value" in n:
        d["v"] = n["value"]
    if "opcode" in n:
        d["op"] = n["opcode"]
    if "castKind" in n:
        d["ck"] = n["castKind"]
    if n.get("isPostfix"):
        d["post"] = True
    if "isArrow" in n:
        d["arrow"] = n["isArrow"]
    if "storageClass" in n:
        d["sc"] = n["storageClass"]
    r = n.get("referencedDecl")
    if r:
        d["ref"] = r.get("name")
        d["refk"] = r.get("kind")
        d["refid"] = r.get("id")
    if "id" in n and n["kind"] in ("VarDecl", "ParmVarDecl", "FunctionDecl", "LabelStmt"):
        d["id"] = n["id"]
    if n["kind"] == "LabelStmt" or n["kind"] == "GotoStmt":
        d["n"] = n.get("name", d.get("n"))
        if "targetLabelDeclId" in n:
            d["target"] = n["targetLabelDeclId"]
        if "declId" in n:
            d["declId"] = n["declId"]
    rg = n.get("range")
    if rg:
        b, bm, _ = _loc_off(rg.get("begin"))
        e, em, tl = _loc_off(rg.get("end"))
        d["b"], d["bm"] = b, bm
        d["e"], d["em"] = (e + tl if e is not None else None), em
    lc = n.get("loc")
    if lc:
        o, m, tl = _loc_off(lc)
        d["lo"] = o
        if "line" in lc:
            d["ln"] = lc["line"]
        elif "expansionLoc" in lc and "line" in lc["expansionLoc"]:
            d["ln"] = lc["expansionLoc"]["line"]
    d["c"] = [_prune(c) for c in n.get("inner", [])]
    return d


def _dump_one(args):
    path, key = args
    out = os.path.join(CACHE, key + ".pkl")
    cmd = ["clang", "-fsyntax-only", "-w", "-I" + py_include(),
           "-I" + os.path.dirname(path), "-Xclang", "-ast-dump=json", path]
    p = subprocess.run(cmd, stdout=subprocess.PIPE, stderr=subprocess.PIPE)
    if p.returncode != 0:
        return (path, None, "clang failed: " + p.stderr.decode(errors="replace")[:2000])
    data = p.stdout
    del p
    with open(path, "rb") as f:
        srcb = f.read()
    # The dump is pretty-printed with two spaces per level: children of the translation
    # unit start on a line "    {" and end on "    }" / "    },".  Only chunks that are
    # FunctionDecl/VarDecl whose name occurs in the main file are parsed (the headers'
    # thousands of declarations are skipped unparsed); the precise main-file test
    # follows below on the parsed node.
    import re
    starts = [m.start() for m in re.finditer(rb"^    \{$", data, re.M)]
    ends = [m.end() for m in re.finditer(rb"^    \},?$", data, re.M)]
    if not starts or len(starts) != len(ends):
        return (path, None, "unexpected clang JSON layout (%d starts, %d ends)"
                % (len(starts), len(ends)))
    inner = []
    kind_re = re.compile(rb'^      "kind": "(\w+)"', re.M)
    name_re = re.compile(rb'^      "name": "([^"]+)"', re.M)
    for b, e in zip(starts, ends):
        head = data[b:b + 4000]
        mk = kind_re.search(head)
        if not mk or mk.group(1) not in (b"FunctionDecl", b"VarDecl"):
            continue
        chunk = data[b:e].rstrip(b",")
        mn = name_re.search(chunk)
        if not mn or mn.group(1) not in srcb:
            continue
        try:
            inner.append(json.loads(chunk))
        except Exception as ex:
            return (path, None, "cannot parse clang JSON chunk: %s" % ex)
    del data
    tu = {"inner": inner}
    funcs, vars_, externs = {}, {}, {}
    order = []
    for n in tu.get("inner", []):
        k = n.get("kind")
        if k not in ("FunctionDecl", "VarDecl"):
            continue
        lc = n.get("loc") or {}
        if "expansionLoc" in lc or "includedFrom" in lc:
            if "expansionLoc" in lc:
                lc = lc["expansionLoc"]
            else:
                continue
        off, tl, name = lc.get("offset"), lc.get("tokLen"), n.get("name")
        if off is None or name is None:
            continue
        if srcb[off:off + tl].decode(errors="replace") != name:
            continue
        f = lc.get("file")
        if f and os.path.abspath(f) != os.path.abspath(path):
            continue
        pn = _prune(n)
        if k == "FunctionDecl":
            has_body = any(c.get("kind") == "CompoundStmt" for c in n.get("inner", []))
            if has_body:
                funcs[name] = pn
                order.append(name)
            else:
                externs[name] = pn
        else:
            vars_[name] = pn
    res = {"path": path, "funcs": funcs, "vars": vars_, "externs": externs, "order": order}
    os.makedirs(CACHE, exist_ok=True)
    tmp = out + ".%d.tmp" % os.getpid()
    with open(tmp, "wb") as f:
        pickle.dump(res, f, protocol=pickle.HIGHEST_PROTOCOL)
    os.replace(tmp, out)
    return (path, out, None)


def _digest(path):
    h = hashlib.sha256()
    d = os.path.dirname(path)
    h.update(b"v4")
    for fn in [path] + sorted(os.path.join(d, x) for x in os.listdir(d) if x.endswith(".h")):
        with open(fn, "rb") as f:
            h.update(os.path.basename(fn).encode())
            h.update(f.read())
    h.update(py_include().encode())
    return h.hexdigest()[:32]


class CFile:
    def __init__(self, path, data):
        self.path = path
        self.name = os.path.basename(path)
        with open(path, "rb") as f:
            self.srcb = f.read()
        self.funcs = data["funcs"]
        self.vars = data["vars"]
        self.externs = data["externs"]
        self.order = data["order"]
        self._line_starts = None

    # ---- source text helpers (offsets are byte offsets) -------------------------------
    def text(self, b, e):
        return self.srcb[b:e].decode(errors="replace")

    def line_of(self, off):
        if self._line_starts is None:
            ls = [0]
            for i, ch in enumerate(self.srcb):
                if ch == 10:
                    ls.append(i + 1)
            self._line_starts = ls
        import bisect
        return bisect.bisect_right(self._line_starts, off or 0)

    def where(self, fname, node=None):
        ln = self.line_of(node.get("b")) if node is not None and node.get("b") is not None else 0
        return "src/C/%s:%s:%d" % (self.name, fname, ln)

    def paren_after(self, off):
        """Given an offset at/before a '(' return (open, close) offsets of the balanced
        pair, skipping strings/chars/comments."""
        s = self.srcb
        i = off
        n = len(s)
        while i < n and s[i:i + 1] != b"(":
            if s[i:i + 1] in b";{}":
                return None
            i += 1
        if i >= n:
            return None
        start = i
        depth = 0
        while i < n:
            c = s[i:i + 1]
            if c == b'"' or c == b"'":
                q = c
                i += 1
                while i < n and s[i:i + 1] != q:
                    if s[i:i + 1] == b"\\":
                        i += 1
                    i += 1
            elif s[i:i + 2] == b"/*":
                j = s.find(b"*/", i + 2)
                i = j + 1 if j >= 0 else n
            elif s[i:i + 2] == b"//":
                j = s.find(b"\n", i)
                i = j if j >= 0 else n
            elif c == b"(":
                depth += 1
            elif c == b")":
                depth -= 1
                if depth == 0:
                    return (start, i)
            i += 1
        return None

    def stmt_text_until_semicolon(self, off):
        s = self.srcb
        i = off
        depth = 0
        n = len(s)
        while i < n:
            c = s[i:i + 1]
            if c == b'"' or c == b"'":
                q = c
                i += 1
                while i < n and s[i:i + 1] != q:
                    if s[i:i + 1] == b"\\":
                        i += 1
                    i += 1
            elif s[i:i + 2] == b"/*":
                j = s.find(b"*/", i + 2)
                i = j + 1 if j >= 0 else n
            elif c in b"([":
                depth += 1
            elif c in b")]":
                depth -= 1
            elif c == b";" and depth <= 0:
                return self.text(off, i)
            i += 1
        return self.text(off, n)


def split_top(text, sep=","):
    """Split on top-level separators (not inside parens/brackets/strings)."""
    if "#" in text:
        from .cexpr import strip_pp
        text = strip_pp(text)
    out, depth, cur, i, n = [], 0, [], 0, len(text)
    while i < n:
        c = text[i]
        if c in "\"'":
            q = c
            cur.append(c)
            i += 1
            while i < n and text[i] != q:
                if text[i] == "\\":
                    cur.append(text[i])
                    i += 1
                cur.append(text[i])
                i += 1
            if i < n:
                cur.append(text[i])
        elif text.startswith("/*", i):
            j = text.find("*/", i + 2)
            i = (j + 1) if j >= 0 else n
        elif c in "([{":
            depth += 1
            cur.append(c)
        elif c in ")]}":
            depth -= 1
            cur.append(c)
        elif c == sep and depth == 0:
            out.append("".join(cur).strip())
            cur = []
        else:
            cur.append(c)
        i += 1
    last = "".join(cur).strip()
    if last or out:
        out.append(last)
    return out


def load_c(repo, files=C_FILES, jobs=6):
    """-> {basename: CFile}.  Dumps missing cache entries in parallel."""
    paths = []
    for f in files:
        p = os.path.join(repo, "src", "C", f)
        if not os.path.exists(p):
            raise AnalysisError("anchor file missing: %s" % p)
        paths.append(p)
    todo, keys = [], {}
    for p in paths:
        k = os.path.basename(p) + "-" + _digest(p)
        keys[p] = k
        if not os.path.exists(os.path.join(CACHE, k + ".pkl")):
            todo.append((p, k))
    if todo:
        os.makedirs(CACHE, exist_ok=True)
        if len(todo) == 1:
            results = [_dump_one(todo[0])]
        else:
            with ProcessPoolExecutor(max_workers=min(jobs, len(todo))) as ex:
                results = list(ex.map(_dump_one, todo))
        for path, out, err in results:
            if err:
                raise AnalysisError("%s: %s" % (path, err))
        _gc_cache(set(keys.values()))
    out = {}
    for p in paths:
        for attempt in (0, 1, 2):
            try:
                with open(os.path.join(CACHE, keys[p] + ".pkl"), "rb") as f:
                    out[os.path.basename(p)] = CFile(p, pickle.load(f))
                break
            except (FileNotFoundError, EOFError):
                # a concurrent run's cache clean-up removed the entry: rebuild it
                if attempt == 2:
                    raise
                path_, o_, err = _dump_one((p, keys[p]))
                if err:
                    raise AnalysisError("%s: %s" % (p, err))
    return out


def _gc_cache(keep):
    """Keep the cache small: drop entries for the same file name with another digest,
    except the few most recent (mutation self-tests churn through variants)."""
    try:
        ents = [(os.path.getmtime(os.path.join(CACHE, f)), f) for f in os.listdir(CACHE)
                if f.endswith(".pkl")]
        ents.sort(reverse=True)
        now = time.time()
        for i, (mt, f) in enumerate(ents):
            # never entries younger than ten minutes: a concurrent run may be about to read them
            if f[:-4] not in keep and i >= 24 and now - mt > 600:
                os.unlink(os.path.join(CACHE, f))
    except OSError:
        pass


# --------------------------------------------------------------------------------------
# AST helpers on pruned nodes
# --------------------------------------------------------------------------------------

def walk(n):
    st = [n]
    while st:
        x = st.pop()
        yield x
        st.extend(reversed(x.get("c", [])))


def strip(n):
    """Skip ImplicitCast/Paren/CStyleCast wrappers."""
    while n.get("k") in ("ImplicitCastExpr", "ParenExpr", "CStyleCastExpr", "ConstantExpr") and n.get("c"):
        n = n["c"][-1]
    return n


def callee_name(call):
    if call.get("k") != "CallExpr" or not call.get("c"):
        return None
    f = strip(call["c"][0])
    if f.get("k") == "DeclRefExpr":
        return f.get("ref")
    return None


def string_value(n):
    """Concatenated value of a (possibly cast) StringLiteral."""
    n = strip(n)
    if n.get("k") == "StringLiteral":
        v = n.get("v", "")
        try:
            return json.loads(v) if v.startswith('"') else v
        except Exception:
            return v.strip('"')
    return None


def body_of(fn):
    for c in fn.get("c", []):
        if c.get("k") == "CompoundStmt":
            return c
    return None


def method_table(cf):
    """All PyMethodDef tables of a file: {var: [(pyname, cfunc, flags_text)]}"""
    out = {}
    for vn, v in cf.vars.items():
        t = v.get("t") or ""
        if "PyMethodDef" not in t or "[" not in t:
            continue
        ents = []
        for il in walk(v):
            if il.get("k") == "InitListExpr" and (il.get("t") or "").startswith("PyMethodDef") \
                    and "[" not in (il.get("t") or ""):
                kids = il.get("c", [])
                if not kids:
                    continue
                pyname = string_value(kids[0])
                cfunc = None
                if len(kids) > 1:
                    for x in walk(kids[1]):
                        if x.get("k") == "DeclRefExpr" and x.get("refk") == "FunctionDecl":
                            cfunc = x.get("ref")
                            break
                if pyname:
                    ents.append((pyname, cfunc))
        out[vn] = ents
    return out
