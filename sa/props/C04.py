"""C04 - 'optimal' from cpl/cp/gp satisfies the nonlinear KKT conditions in-domain
(structural part)."""
import ast

from .. import pyfront as pf
from .. import rules_common as rc
from .. import solvers_common as sc
from .. import termination as tm
from ..core import Check, AnalysisError
from ..world import World, bind_call
from .C01 import check_finalisation


def check_normalisers(rule, w):
    """pres/dres are reported relative to their own starting-point normalisers:
    every self-normalisation `V = V / N` in cpl has N bound (only) by `N = max(1.0, V)`
    under the first-iteration test."""
    m = w.mods["cvxprog"]
    fn = w.func("cvxprog", "cpl")
    loop = sc.main_loop(fn)
    itn = loop.target.id
    n = 0
    for s in pf._scope_nodes(fn):
        if isinstance(s, ast.Assign) and len(s.targets) == 1 and isinstance(s.targets[0], ast.Name) \
                and isinstance(s.value, ast.BinOp) and isinstance(s.value.op, ast.Div) \
                and isinstance(s.value.left, ast.Name) and s.value.left.id == s.targets[0].id \
                and isinstance(s.value.right, ast.Name):
            v, nrm = s.targets[0].id, s.value.right.id
            key = "cpl:%s normalised by %s" % (v, nrm)
            defs = [a for a in pf._scope_nodes(fn) if isinstance(a, ast.Assign) and any(
                isinstance(t, ast.Name) and t.id == nrm for t in a.targets)]
            good = len(defs) == 1 and pf.norm_expr(defs[0].value) in ("max(1.0, %s)" % v,)
            if good:
                conds = pf.path_condition(defs[0], stop=loop)
                a, b = sorted(["0", itn])
                good = bool(conds) and pf.implies(pf.P_and(*conds), pf.P_atom("(%s == %s)" % (a, b))) is True
            n += 1
            if good:
                rule.ok(key, m.where(s, fn), "%s = max(1.0, %s) at iteration 0" % (nrm, v))
            else:
                rule.violation(key, m.where(s, fn),
                               "the reported/tested residual %s is divided by %s, which is not its own "
                               "starting-point normaliser max(1.0, %s) taken at iteration 0" % (v, nrm, v),
                               "%s = max(1.0, %s) under iters == 0 (single definition)" % (nrm, v),
                               [pf.norm_expr(d) for d in defs][:3])
    return n


def check_domain_at_return(rule, w):
    """x in dom F at the 'optimal' return: within the same loop iteration the return is
    preceded by an evaluation F(x)/F(x, z..) whose result is unpacked (a refusal cannot
    pass), and x is not written in between."""
    m = w.mods["cvxprog"]
    fn = w.func("cvxprog", "cpl")
    loop = sc.main_loop(fn)
    cfg = pf.CFG(fn)
    for site, ret, items in tm.optimal_sites(fn, cfg):
        xn = items.get("x")
        key = "cpl:optimal return: F evaluated at the returned x"
        if not isinstance(xn, ast.Name):
            rule.undecided(key, m.where(ret, fn), "'x' not a plain name")
            continue
        pre = sc.preceding_in_blocks(ret, loop)
        evals, writes = [], []
        for i, st in enumerate(pre):
            for c in ast.walk(st):
                if isinstance(c, ast.Call) and isinstance(c.func, ast.Name) and c.func.id == "F" and c.args \
                        and isinstance(c.args[0], ast.Name) and c.args[0].id == xn.id:
                    stc = pf.enclosing_stmt(c)
                    if isinstance(stc, ast.Assign) and isinstance(stc.targets[0], ast.Tuple):
                        evals.append(i)
                if isinstance(c, ast.Call) and pf.call_name(c) in ("xaxpy", "xcopy", "xscal") and len(c.args) >= 2 \
                        and isinstance(c.args[-1 if pf.call_name(c) != "xaxpy" else 1], ast.Name) \
                        and c.args[-1 if pf.call_name(c) != "xaxpy" else 1].id == xn.id:
                    writes.append(i)
        if not evals:
            rule.violation(key, m.where(ret, fn), "no unpacked evaluation F(%s) precedes the return in the iteration" % xn.id,
                           "f, Df = F(x) before the stop test", "absent")
        elif any(wi > max(evals) for wi in writes):
            rule.violation(key, m.where(ret, fn), "x is modified between the evaluation of F and the return",
                           "no write to x after F(x)", "write at prefix position %s" % writes)
        else:
            rule.ok(key, m.where(ret, fn), "F(%s) unpacked in the same iteration, no later write" % xn.id)


def check_cp_strip(rule, w):
    """cp returns the original problem: after the cpl call every path to the return
    strips the epigraph variable and the first nonlinear component."""
    m = w.mods["cvxprog"]
    fn = w.func("cvxprog", "cp")
    calls = [c for c in pf._scope_nodes(fn) if isinstance(c, ast.Call) and pf.call_name(c) == "cpl"]
    if len(calls) != 1:
        raise AnalysisError("cp: expected one call to cpl, found %d" % len(calls))
    st = pf.enclosing_stmt(calls[0])
    if not (isinstance(st, ast.Assign) and isinstance(st.targets[0], ast.Name)):
        raise AnalysisError("cp: result of cpl is not bound to a name")
    sol = st.targets[0].id
    blk = fn.body
    idx = [i for i, x in enumerate(blk) if x is st]
    if not idx:
        raise AnalysisError("cp: cpl call is not a top-level statement")
    tail = blk[idx[0] + 1:]
    want = {"x": "%s['x'][0]" % sol, "znl": "%s['znl'][1:]" % sol, "snl": "%s['snl'][1:]" % sol}
    got = {}
    for s in tail:
        if isinstance(s, ast.Assign):
            tg, val = s.targets[0], s.value
            pairs = list(zip(tg.elts, val.elts)) if isinstance(tg, ast.Tuple) and isinstance(val, ast.Tuple) else [(tg, val)]
            for t, v in pairs:
                if isinstance(t, ast.Subscript) and isinstance(t.value, ast.Name) and t.value.id == sol \
                        and isinstance(t.slice, ast.Constant):
                    got[t.slice.value] = pf.norm_expr(v)
    for k, exp in want.items():
        key = "cp:strip %s" % k
        if got.get(k) == exp:
            rule.ok(key, m.where(st, fn), exp)
        else:
            rule.violation(key, m.where(st, fn), "cp does not remove the epigraph component from sol['%s']" % k, exp, got.get(k))
    last = tail[-1] if tail else None
    if isinstance(last, ast.Return) and isinstance(last.value, ast.Name) and last.value.id == sol and \
            not any(isinstance(s, (ast.If, ast.Return, ast.For, ast.While, ast.Try)) for s in tail[:-1]):
        rule.ok("cp:single straight-line path to return", m.where(last, fn))
    else:
        rule.violation("cp:single straight-line path to return", m.where(st, fn),
                       "the tail of cp after the cpl call is not one straight-line path that strips and returns",
                       "assignments then `return %s`" % sol, [type(s).__name__ for s in tail])
    # F_e subtracts the epigraph variable on both evaluation branches
    fe = w.func("cvxprog", "cp.F_e")
    subs = [s for s in pf._scope_nodes(fe) if isinstance(s, ast.AugAssign) and isinstance(s.op, ast.Sub)
            and pf.norm_expr(s.target) == "val[0]" and pf.norm_expr(s.value) == "x[1]"]
    if len(subs) >= 2:
        rule.ok("cp.F_e:val[0] -= x[1] on both branches", m.where(subs[0], fe), "%d sites" % len(subs))
    else:
        rule.violation("cp.F_e:val[0] -= x[1] on both branches", m.where(fe, fe),
                       "the epigraph function f0(x) - t is not formed on every evaluation branch",
                       "2 sites (value-only and Hessian branch)", len(subs))
    # gp -> cp forwarding
    gp = w.func("cvxprog", "gp")
    cpd = w.func("cvxprog", "cp")
    for c in pf._scope_nodes(gp):
        if isinstance(c, ast.Call) and pf.call_name(c) == "cp":
            ok, msg, mp = bind_call(c, cpd)
            bad = [] if ok else [msg]
            for pn in ("G", "h", "dims", "A", "b", "kktsolver"):
                v = mp.get(pn)
                if not (isinstance(v, ast.Name) and v.id == pn):
                    bad.append("%s<-%s" % (pn, pf.norm_expr(v) if v is not None else "missing"))
            if bad:
                rule.violation("gp:cp(...) binding", m.where(c, gp), "gp does not forward its arguments by name", "G,h,dims,A,b,kktsolver", bad)
            else:
                rule.ok("gp:cp(...) binding", m.where(c, gp))


def build(tier, repo):
    chk = Check(
        "C04", tier, repo,
        explanation=(
            "Static analysis of cvxprog.cpl/cp/gp. Decides structural necessary conditions of C04: (R1) "
            "'optimal' is dominated by the documented stop test on the reported (normalised) variables and "
            "each residual is normalised by its own starting-point normaliser; (R2) loop bound; (R3) sl/zl "
            "symmetrised, slacks recomputed on s/z and reported; (R4) F is evaluated (and unpacked) at the "
            "returned x in the same iteration with no later write to x; (R5) cp strips the epigraph "
            "components on its single path and F_e forms f0 - t on both branches, gp forwards by name; (R6) "
            "block-offset discipline in cpl/cp/gp; (R7) cone-space vectors normed with the cone inner "
            "product. NOT decided: the residual formulas, agreement of cp with coneqp and gp with cp, "
            "log-sum-exp formulas."),
        trusted_base=["CPython ast", "sa/pyfront.py", "sa/offsets.py footprint table"],
        assumptions=["F, G, A callbacks obey their documented contracts"])
    w = World(repo)
    r1 = chk.rule("C04-R1", "'optimal' of cpl dominated by the stop test on the reported quantities; residuals normalised by their own normalisers",
                  "stationarity/primal residual within feastol relative to the documented normalisers; gap criterion")
    tm.check_optimal(r1, w, "cvxprog", "cpl", None)
    tm.check_relgap(r1, w, "cvxprog", "cpl")
    check_normalisers(r1, w)
    r1.require(7)
    r2 = chk.rule("C04-R2", "loop bound", "iterations <= maxiters")
    tm.check_loop_bound(r2, w, "cvxprog", "cpl")
    r2.require(3)
    r3 = chk.rule("C04-R3", "result finalisation: symmetrise 's' blocks of sl, zl; slacks recomputed and reported",
                  "snl, sl, znl, zl nonnegative / in the cone")
    check_finalisation(r3, w, "cvxprog", "cpl", need_rescale=False, pairs=(("sl", "primal slack"), ("zl", "dual slack")))
    r3.require(2)
    r4 = chk.rule("C04-R4", "F evaluated and unpacked at the returned x within the iteration", "returned x lies in dom F")
    check_domain_at_return(r4, w)
    r4.require(1)
    r5 = chk.rule("C04-R5", "cp strips the epigraph components; F_e forms f0 - t; gp forwards by name",
                  "cp/gp return the minimiser of the original problem")
    check_cp_strip(r5, w)
    r5.require(6)
    r6 = chk.rule("C04-R6", "block-offset discipline in cpl/cp/gp", "blocks addressed consistently")
    rc.offsets_rule(r6, w, [("cvxprog", "cpl"), ("cvxprog", "cp.*"), ("cvxprog", "gp.*")])
    r6.require(18)
    r7 = chk.rule("C04-R7", "cone-space vectors normed with misc.snrm2/sdot", "documented norms")
    rc.norm_discipline(r7, w, "cvxprog", "cpl")
    rc.cone_product_rule(r7, w, "cvxprog", "cpl")
    rc.cone_product_rule(r7, w, "cvxprog", "cp")
    r7.require(4)
    from .. import solver_rules as sr5
    r8 = chk.rule("C04-R8", "the operator wrappers of cp/cpl forward alpha and beta in every call of the wrapped operator",
                  "residuals are those of the problem that was posed (A x - b, not A x) when G, A are given as functions")
    chk.note_analysed("forwarding_calls", sr5.closure_forwards_parameters_rule(r8, w, [("cvxprog", "cp"), ("cvxprog", "cpl"), ("cvxprog", "gp")]))
    r8.require(4)
    return chk
