"""Triage: cp with every kktsolver name. Expect: ldl, ldl2, chol, chol2 -> optimal,
same x; 'qr'/'foo' -> ValueError before solving."""
from cvxopt import matrix, solvers, log, div, spdiag
solvers.options['show_progress'] = False
def acent(A, b):
    m, n = A.size
    def F(x=None, z=None):
        if x is None: return 0, matrix(1.0, (n,1))
        if min(x) <= 0.0: return None
        f = -sum(log(x)); Df = -(x**-1).T
        if z is None: return f, Df
        return f, Df, spdiag(z[0] * x**-2)
    return F
A = matrix([[1.0,2.0],[1.0,1.0],[3.0,1.0]]).T; b = matrix([1.0,1.0])
A = matrix([1.0,2.0,1.5],(1,3)); b=matrix([1.0])
G = matrix([[-1.0,0,0],[0,-1.0,0]]).T; h = matrix([0.0,0.0])
ok = True; xs = []
for k in ['ldl','ldl2','chol','chol2']:
    try:
        sol = solvers.cp(acent(A,b), G=G, h=h, A=A, b=b, kktsolver=k)
        print(k, sol['status']); xs.append(sol['x']); ok &= sol['status']=='optimal'
    except Exception as e:
        print(k, type(e).__name__, e); ok = False
for k in ['qr','foo']:
    try:
        solvers.cp(acent(A,b), A=A, b=b, kktsolver=k); print(k,'accepted'); ok=False
    except ValueError as e: print(k,'ValueError',e)
    except Exception as e: print(k, type(e).__name__, e); ok=False
ok &= all(max(abs(x-xs[0])) < 1e-5 for x in xs)
print('PASS' if ok else 'FAIL')
