"""The resolved program: Python modules + C extension export tables, import aliasing,
attribute resolution across modules, call resolution to defs (incl. nested defs and
factories returning nested defs)."""
import ast
import os

from . import pyfront as pf
from . import cfront as cf
from .core import AnalysisError

PY_SUBMODULES = {"coneprog", "cvxprog", "misc", "modeling", "solvers", "printing",
                 "msk", "info"}
C_SUBMODULES = {"base": ["base.c", "dense.c", "sparse.c"], "blas": ["blas.c"],
                "lapack": ["lapack.c"], "misc_solvers": ["misc_solvers.c"]}
# extension modules whose sources cannot be parsed here (no SuiteSparse/GLPK/... headers)
# or that are not in the repository at all: attributes on them are external.
EXTERNAL = {"cholmod", "umfpack", "amd", "glpk", "dsdp", "gsl", "fftw", "mosek", "_version"}


class World:
    def __init__(self, repo, need_c=True):
        self.repo = repo
        self.mods = pf.load_modules(repo)
        self._c = None
        self.need_c = need_c
        self._exports = {}
        self._inject()

    @property
    def c(self):
        if self._c is None:
            self._c = cf.load_c(self.repo)
        return self._c

    def _inject(self):
        """Static attribute injections `cvxopt.<mod>.<attr> = ...` at module level."""
        self.injected = {}
        for m in self.mods.values():
            for s in m.tree.body:
                if isinstance(s, ast.Assign):
                    tg = []
                    for t in s.targets:
                        tg += t.elts if isinstance(t, ast.Tuple) else [t]
                    for t in tg:
                        if isinstance(t, ast.Attribute) and isinstance(t.value, ast.Attribute) \
                                and isinstance(t.value.value, ast.Name) and t.value.value.id == "cvxopt":
                            self.injected.setdefault(t.value.attr, set()).add(t.attr)

    def exports(self, modname):
        """set of attribute names of cvxopt.<modname> ('' = the package), or None if
        the module is external / not analysable."""
        if modname in self._exports:
            return self._exports[modname]
        res = None
        if modname == "":
            m = self.mods["__init__"]
            res = set(m.exports) | PY_SUBMODULES | set(C_SUBMODULES) | EXTERNAL
        elif modname in PY_SUBMODULES and modname in self.mods:
            res = set(self.mods[modname].exports)
        elif modname in C_SUBMODULES:
            res = set()
            for fn in C_SUBMODULES[modname]:
                c = self.c[fn]
                for tn, ents in cf.method_table(c).items():
                    if tn.endswith("_functions"):
                        res.update(p for p, _ in ents)
                for f in c.funcs.values():
                    if (f.get("n") or "").startswith("PyInit_"):
                        for call in cf.walk(f):
                            if call.get("k") == "CallExpr" and cf.callee_name(call) in (
                                    "PyModule_AddObject", "PyModule_AddIntConstant",
                                    "PyModule_AddStringConstant"):
                                sv = cf.string_value(call["c"][2]) if len(call["c"]) > 2 else None
                                if sv:
                                    res.add(sv)
        if res is not None:
            res |= self.injected.get(modname, set())
            res |= {"__name__", "__doc__", "__file__", "__dict__"}
        self._exports[modname] = res
        return res

    # ---- import aliasing -------------------------------------------------------------
    def scope_bindings(self, scope, mod):
        """name -> list of binding nodes in a function scope or module."""
        if isinstance(scope, ast.Module):
            return mod.exports
        if hasattr(scope, "_bindings"):
            return scope._bindings
        out = {}
        for a in pf.arg_names(scope):
            out.setdefault(a, []).append(scope.args)
        for n in pf._scope_nodes(scope):
            if isinstance(n, ast.Name) and isinstance(n.ctx, (ast.Store, ast.Del)):
                out.setdefault(n.id, []).append(pf.enclosing_stmt(n))
            elif isinstance(n, (ast.FunctionDef, ast.ClassDef)):
                out.setdefault(n.name, []).append(n)
            elif isinstance(n, ast.Import):
                for a in n.names:
                    out.setdefault((a.asname or a.name).split(".")[0], []).append(n)
            elif isinstance(n, ast.ImportFrom):
                for a in n.names:
                    out.setdefault(a.asname or a.name, []).append(n)
            elif isinstance(n, ast.ExceptHandler) and n.name:
                out.setdefault(n.name, []).append(n)
        scope._bindings = out
        return out

    def alias_of(self, name_node, mod):
        """If the Name resolves to a binding that is (only) a cvxopt import, return
        ('module', 'blas') / ('module','') / ('object', 'base', 'matrix') ; else None."""
        kind, scope = pf.resolve_name(name_node, mod)
        if kind not in ("local", "enclosing", "global"):
            return None
        binds = self.scope_bindings(scope, mod).get(name_node.id, [])
        if not binds:
            return None
        res = set()
        for b in binds:
            r = self._import_target(b, name_node.id)
            if r is None:
                return None
            res.add(r)
        if len(res) == 1:
            return res.pop()
        return None

    def _import_target(self, stmt, name):
        if isinstance(stmt, ast.ImportFrom) and stmt.level == 0 and stmt.module:
            parts = stmt.module.split(".")
            if parts[0] != "cvxopt":
                return None
            for a in stmt.names:
                if (a.asname or a.name) == name:
                    if len(parts) == 1:
                        if a.name in PY_SUBMODULES or a.name in C_SUBMODULES or a.name in EXTERNAL:
                            return ("module", a.name)
                        # an attribute of the package: follow __init__'s own import
                        init = self.mods["__init__"]
                        for b in init.exports.get(a.name, []):
                            if isinstance(b, ast.ImportFrom) and b.module and b.module.startswith("cvxopt."):
                                return ("object", b.module.split(".")[1], a.name)
                        return ("object", "", a.name)
                    return ("object", parts[1], a.name)
        if isinstance(stmt, ast.Import):
            for a in stmt.names:
                nm = a.asname or a.name.split(".")[0]
                if nm == name:
                    if a.name == "cvxopt" or (a.name.startswith("cvxopt.") and not a.asname):
                        return ("module", "")
                    if a.name.startswith("cvxopt.") and a.asname:
                        return ("module", a.name.split(".", 1)[1])
        return None

    def resolve_attr_chain(self, node, mod):
        """For an Attribute node whose base is an aliased cvxopt module, return
        (modname, attr, exists: True/False/None)."""
        if not isinstance(node, ast.Attribute):
            return None
        base = node.value
        if isinstance(base, ast.Name):
            al = self.alias_of(base, mod)
            if al and al[0] == "module":
                m = al[1]
                if m in EXTERNAL:
                    return (m, node.attr, None)
                ex = self.exports(m)
                if ex is None:
                    return (m, node.attr, None)
                return (m, node.attr, node.attr in ex)
        elif isinstance(base, ast.Attribute) and isinstance(base.value, ast.Name):
            al = self.alias_of(base.value, mod)
            if al and al[0] == "module" and al[1] == "":
                m = base.attr
                if m in EXTERNAL:
                    return (m, node.attr, None)
                if m in PY_SUBMODULES or m in C_SUBMODULES:
                    ex = self.exports(m)
                    return (m, node.attr, node.attr in ex if ex is not None else None)
        return None

    # ---- def resolution ---------------------------------------------------------------
    def py_def(self, modname, name):
        m = self.mods.get(modname)
        if not m:
            return None
        defs = [b for b in m.exports.get(name, []) if isinstance(b, ast.FunctionDef)]
        return defs

    def func(self, modname, qualname):
        m = self.mods.get(modname)
        if m is None or qualname not in m.funcs:
            raise AnalysisError("anchor function missing: %s.%s" % (modname, qualname))
        return m.funcs[qualname]


def signature(fn):
    """(positional names, n_required, has_varargs, kwonly names, has_kwargs, defaults map)"""
    a = fn.args
    pos = [x.arg for x in a.posonlyargs + a.args]
    nreq = len(pos) - len(a.defaults)
    defaults = {}
    for nm, d in zip(pos[nreq:], a.defaults):
        defaults[nm] = d
    return pos, nreq, a.vararg is not None, [x.arg for x in a.kwonlyargs], a.kwarg is not None, defaults


def bind_call(call, fn, skip_self=False):
    """Bind a Call's arguments against a def. Returns (ok, message, mapping)."""
    pos, nreq, var, kwonly, kw, defaults = signature(fn)
    if skip_self and pos:
        pos = pos[1:]
        nreq = max(0, nreq - 1)
    mapping = {}
    if any(isinstance(a, ast.Starred) for a in call.args) or any(k.arg is None for k in call.keywords):
        return (None, "star-args: undecided", mapping)
    if len(call.args) > len(pos) and not var:
        return (False, "%d positional arguments for %d parameters (%s)" %
                (len(call.args), len(pos), ", ".join(pos)), mapping)
    for p, a in zip(pos, call.args):
        mapping[p] = a
    for k in call.keywords:
        if k.arg in mapping:
            return (False, "multiple values for parameter '%s'" % k.arg, mapping)
        if k.arg not in pos and k.arg not in kwonly and not kw:
            return (False, "unexpected keyword '%s' (parameters: %s)" % (k.arg, ", ".join(pos + kwonly)), mapping)
        mapping[k.arg] = k.value
    missing = [p for p in pos[:nreq] if p not in mapping]
    if missing:
        return (False, "missing required argument(s) %s" % ", ".join(missing), mapping)
    return (True, "", mapping)
