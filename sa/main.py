"""Entry point: python -m sa.main <ID> [--tier ...] [--repo ...] [--replay f]"""
import importlib
import sys

from .core import run_main


def main(argv):
    if not argv:
        print("usage: check <ID> [--tier quick|thorough] [--repo DIR] [--replay FILE]")
        return 2
    if argv[0] == "--warm":
        # setup: pre-build the digest-keyed clang AST cache (pure optimisation; every
        # check rebuilds missing entries itself from /repo's current sources)
        import os
        from . import cfront
        repo = os.environ.get("VERIF_REPO", "/repo")
        try:
            cfront.load_c(repo)
            print("warm: C front-end cache ready")
            return 0
        except Exception as e:
            print("warm: failed (%s); checks will build the cache on demand" % e)
            return 0
    pid = argv[0]
    try:
        mod = importlib.import_module("sa.props." + pid)
    except ImportError as e:
        print("ANALYSIS-ERROR property=%s no checker module: %s" % (pid, e))
        return 2
    return run_main(pid, mod.build, argv[1:])


if __name__ == "__main__":
    sys.exit(main(sys.argv[1:]))
