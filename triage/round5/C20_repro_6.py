# size setter / constructor size check overflow; memoryview of the result reads out of bounds (segfault)
import subprocess, sys
from cvxopt import matrix
A = matrix([1.,2.,3.,4.,5.,6.], (2,3))
A.size = (2**32+3, 2**32+2); print('accepted ->', A.size)         # expected TypeError
print('ctor ->', matrix([1,2,3,4], (2**62+1, 4)).size)             # expected TypeError
code = r'''
from cvxopt import matrix
import pickle
E = matrix(0.0, (0,0))
E.size = (65536, 65536)                 # 65536*65536 wraps to 0 == len(E): accepted
print(E.size, len(E))
try: pickle.loads(pickle.dumps(E))
except Exception as e: print("pickle round trip:", type(e).__name__, e)
m = memoryview(E); print(m.shape, m.nbytes)
print(m[4000, 3000])                    # reads 1.5 GB past a zero-length buffer
'''
r = subprocess.run([sys.executable, '-c', code], capture_output=True, text=True)
print(r.stdout, 'returncode', r.returncode)
