"""F-23 witness (triage only): base.gemv / base.symv accepted a sub-dimension m (n) larger than
the number of rows of the dense matrix A, i.e. a leading dimension smaller than BLAS needs:
the reference routine rejects it through XERBLA (message on stderr with OpenBLAS, STOP with the
netlib BLAS) and nothing is computed.  After the fix the call is refused with TypeError."""
from cvxopt import matrix, base
A = matrix([1., 2., 3., 4., 5., 6.], (2, 3))
x = matrix([1.]); y = matrix([0., 0., 0.])
for name, call in (("gemv m=3 n=1 on 2x3", lambda: base.gemv(A, x, y, m=3, n=1)),
                   ("symv n=3 on 2x8", lambda: base.symv(matrix(1.0, (2, 8)), matrix(1.0, (3, 1)), matrix(0.0, (3, 1)), n=3))):
    try:
        call(); print(name, "ACCEPTED (defect)")
    except TypeError as e:
        print(name, "rejected:", e)
