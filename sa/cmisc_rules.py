"""Small whole-file C rules added in round 5 (each built for a genuine defect, see DESIGN section 4):
statements without effect, free() of something that is not a local allocation, buffer-view pairing,
scalar-union member vs parse type, binary slots test both operands, fallible conversions tested."""
import re

from . import cexpr as cx
from . import cfront as cf
from . import cmodel as cm
from .cwrap_rules import switch_arm_texts


def _ftext(c, fn):
    node = c.funcs[fn]
    t = cx.strip_pp(c.text(node["b"], node["e"]))
    t = re.sub(r"/\*.*?\*/", lambda m: re.sub(r"[^\n]", " ", m.group(0)), t, flags=re.S)
    return re.sub(r"//[^\n]*", "", t)


def _line(c, fn, t, pos):
    return c.line_of(c.funcs[fn]["b"]) + t[:pos].count("\n")


# --------------------------------------------------------------------------------------
def no_effect_rule(rule, cs, files):
    """`if (!ret) NULL;` - an expression statement that is a bare constant or name does
    nothing; after a test of an allocation it is a missing `return`."""
    n = 0
    for f in files:
        c = cs[f]
        for fn in c.order:
            t = _ftext(c, fn)
            for m in re.finditer(r"\bif\s*\(", t):
                j = _bal(t, m.end() - 1)
                if j < 0:
                    continue
                mm = re.match(r"\s*(NULL|0|-1)\s*;", t[j + 1:])
                cond = " ".join(t[m.end():j].split())
                if not re.match(r"!\s*\w+$|\w+\s*==\s*NULL$", cond):
                    continue
                n += 1
                key = "%s:%s:test of `%s` has an effect" % (f, fn, cond)
                where = "src/C/%s:%s:%d" % (f, fn, _line(c, fn, t, m.start()))
                if mm and mm.group(1) not in ("return", "break", "continue", "err_conflicting_ids", "err_invalid_id", "err_lapack"):
                    rule.violation(key, where,
                                   "`if (%s) %s;` evaluates a constant and goes on: the failure it tests for is not handled (missing `return`)"
                                   % (cond, mm.group(1)), "if (%s) return %s;" % (cond, mm.group(1)), "%s;" % mm.group(1))
                else:
                    rule.ok(key, where)
    return n


def _bal(t, i):
    d = 0
    for j in range(i, len(t)):
        if t[j] == "(":
            d += 1
        elif t[j] == ")":
            d -= 1
            if d == 0:
                return j
    return -1


# --------------------------------------------------------------------------------------
def free_local_rule(rule, cs, files):
    """free(p): p is a local (or a field of a local object being torn down) that the function
    assigned from malloc/calloc/realloc - never a parameter holding a Python object."""
    n = 0
    for f in files:
        c = cs[f]
        for fn in c.order:
            node = c.funcs[fn]
            params = {p.get("n"): (p.get("t") or "") for p in node.get("c", []) if p.get("k") == "ParmVarDecl"}
            w_locals = {x.get("n"): (x.get("t") or "") for x in cf.walk(node) if x.get("k") == "VarDecl" and x.get("n")}
            t = _ftext(c, fn)
            alloc = set(re.findall(r"\b(\w+)\s*=\s*(?:\([^()]*\)\s*)?(?:malloc|calloc|realloc)\s*\(", t))
            for m in re.finditer(r"\bfree\s*\(\s*(\w+)\s*\)", t):
                v = m.group(1)
                ty = w_locals.get(v) or params.get(v) or ""
                if not re.search(r"\b(matrix|spmatrix|PyObject)\s*\*", ty):
                    continue              # plain C pointers: ownership conventions of helpers are not tracked
                n += 1
                key = "%s:%s:free(%s)" % (f, fn, v)
                where = "src/C/%s:%s:%d" % (f, fn, _line(c, fn, t, m.start()))
                rule.violation(key, where,
                               "free() is applied to `%s`, a `%s` (a Python object owned by the interpreter), not to a C array this function "
                               "allocated%s" % (v, ty.strip(), " - the local work arrays are " + ", ".join(sorted(alloc))[:80] if alloc else ""),
                               "free of a local malloc/calloc result", "free(%s)" % v)
            # positive instances: frees of local allocations in functions that also hold Python objects
            if re.search(r"\b(matrix|spmatrix)\s*\*", " ".join(w_locals.values())):
                for v in sorted(set(re.findall(r"\bfree\s*\(\s*(\w+)\s*\)", t)) & alloc):
                    n += 1
                    rule.ok("%s:%s:free(%s)" % (f, fn, v), "src/C/%s:%s" % (f, fn), "local allocation")
    return n


# --------------------------------------------------------------------------------------
def buffer_pairing_rule(rule, cs, files):
    """After a successful PyObject_GetBuffer(obj, view, ..) every exit of the function releases
    the view first: each `return` / error macro later in the text sits in a block that calls
    PyBuffer_Release(view) before it (the failure branch of GetBuffer itself excepted)."""
    n = 0
    for f in files:
        c = cs[f]
        for fn in c.order:
            t = _ftext(c, fn)
            g = re.search(r"\bPyObject_GetBuffer\s*\(\s*\w+\s*,\s*&?(\w+)", t)
            if not g:
                continue
            view = g.group(1)
            # end of the failure branch `if (PyObject_GetBuffer(..)) { .. }`
            start = g.end()
            b = t.find("{", start)
            semi = t.find(";", start)
            if 0 <= b < semi or (b >= 0 and re.match(r"[\s)]*\{", t[_bal(t, t.rfind("(", 0, g.start() + 20)) + 1:] if False else "")):
                pass
            mfail = re.compile(r"\bif\s*\(\s*!?\s*PyObject_GetBuffer").search(t, max(0, g.start() - 12))
            if mfail and mfail.start() <= g.start():
                j = _bal(t, t.find("(", mfail.start()))
                k = j + 1
                while k < len(t) and t[k].isspace():
                    k += 1
                if t[k] == "{":
                    d, e = 0, k
                    while e < len(t):
                        if t[e] == "{":
                            d += 1
                        elif t[e] == "}":
                            d -= 1
                            if d == 0:
                                break
                        e += 1
                    start = e + 1
                else:
                    start = t.find(";", k) + 1
            exits = [m for m in re.finditer(r"\breturn\b|\bPY_ERR(?:_TYPE|_INT)?\s*\(|\berr_\w+\b", t) if m.start() >= start]
            for m in exits:
                # enclosing block start
                d, i = 0, m.start()
                while i > start:
                    i -= 1
                    if t[i] == "}":
                        d += 1
                    elif t[i] == "{":
                        if d == 0:
                            break
                        d -= 1
                blk = t[i:m.start()] if i > start else t[start:m.start()]
                n += 1
                stmt = " ".join(t[m.start():t.find(";", m.start())].split())[:50]
                key = "%s:%s:exit `%s` releases %s @%d" % (f, fn, stmt, view, _line(c, fn, t, m.start()) - c.line_of(c.funcs[fn]["b"]))
                where = "src/C/%s:%s:%d" % (f, fn, _line(c, fn, t, m.start()))
                if re.search(r"\bPyBuffer_Release\s*\(\s*&?%s\s*\)" % re.escape(view), blk):
                    rule.ok(key, where)
                else:
                    rule.violation(key, where,
                                   "this exit is reached with the buffer view `%s` still held: the exporter stays locked (memoryview cannot be "
                                   "released, bytearray cannot be resized)" % view, "PyBuffer_Release(%s) before the exit" % view, stmt)
    return n


# --------------------------------------------------------------------------------------
def scalar_member_rule(rule, c, wrappers):
    """alpha/beta are parsed into a `number` union with number_from_pyobject(obj, &v, ID); the
    member handed to the routine must be the one ID selects: `.d` for DOUBLE, `.z` for COMPLEX,
    and for ID == MAT_ID(..) the member of the switch arm (a real-only scalar of a complex
    routine - herk's alpha and beta - must be *parsed* as DOUBLE, or a complex value is accepted
    and its imaginary part dropped).  The parse that governs a use is the nearest preceding one
    (inside the arm if there is one, else the one before the switch)."""
    PARSE = re.compile(r"number_from_pyobject\s*\(\s*\w+\s*,\s*&(\w+)\s*,\s*(MAT_ID\s*\(\s*\w+\s*\)|\w+)\s*\)")
    n = 0
    for fn in wrappers:
        if fn not in c.funcs:
            continue
        t = _ftext(c, fn)
        outer = {}
        for m in PARSE.finditer(t):
            outer.setdefault(m.group(1), m.group(2).replace(" ", ""))      # first parse in the text (before the switch)
        if not outer:
            continue
        arms = {}
        for s in [x for x in cf.walk(c.funcs[fn]) if x.get("k") == "SwitchStmt" and x.get("b") is not None]:
            a = switch_arm_texts(c, s)
            if "DOUBLE" in a or "COMPLEX" in a:
                arms = a
        for lab, want in (("DOUBLE", "d"), ("COMPLEX", "z")):
            body = arms.get(lab)
            if not body:
                continue
            inner = [(m.start(), m.group(1), m.group(2).replace(" ", "")) for m in PARSE.finditer(body)]
            for u in re.finditer(r"&\s*(\w+)\s*\.\s*([dzi])\b", body):
                v, mem = u.group(1), u.group(2)
                if v not in outer:
                    continue
                prev = [x for x in inner if x[1] == v and x[0] < u.start()]
                idexpr = prev[-1][2] if prev else outer[v]
                n += 1
                key = "%s:%s arm passes &%s.%s (parsed as %s)" % (fn, lab, v, mem, idexpr)
                where = "src/C/%s:%s" % (c.name, fn)
                good = mem == ("d" if idexpr == "DOUBLE" else "z" if idexpr == "COMPLEX" else want)
                if good:
                    rule.ok(key, where)
                else:
                    rule.violation(key, where,
                                   "`%s` is parsed with id `%s` but the %s arm hands `&%s.%s` to the routine: a complex scalar is accepted and only "
                                   "its real part used (or a real scalar read as complex)" % (v, idexpr, lab, v, mem),
                                   "parse as DOUBLE for a real-only scalar, or pass &%s.%s" % (v, want), idexpr)
    return n


# --------------------------------------------------------------------------------------
def operand_guard_rule(rule, c, functions):
    """A binary number slot `f(PyObject *self, PyObject *other, ..)` is also called reflected,
    with any object as `self`: before `self` is cast to `matrix *` / read through MAT_* macros /
    handed to Matrix_NewFromMatrix, a test `Matrix_Check(self)` (usually
    `!(Matrix_Check(self) || PY_NUMBER(self))` -> NotImplemented) must appear."""
    n = 0
    for fn in functions:
        if fn not in c.funcs:
            continue
        t = _ftext(c, fn)
        head = t[:t.find("{")]
        if not re.search(r"PyObject\s*\*\s*self\s*,\s*PyObject\s*\*\s*other", head):
            continue
        use = None
        for u in re.finditer(r"\(\s*matrix\s*\*\s*\)\s*self\b|\bMAT_\w+\s*\(\s*self\s*\)", t):
            if re.search(r"Matrix_Check\s*\(\s*self\s*\)\s*&&\s*$", t[max(0, u.start() - 40):u.start()]):
                continue                  # short-circuit: read only if it is a matrix
            use = u
            break
        if not use:
            continue
        n += 1
        key = "%s:self is type-tested before it is read as a matrix" % fn
        where = "src/C/%s:%s:%d" % (c.name, fn, _line(c, fn, t, use.start()))
        g = re.search(r"\bif\s*\(\s*!\s*\(?\s*\(?\s*(Matrix_Check|SpMatrix_Check|PY_NUMBER)\s*\(\s*self\s*\)", t)
        # one operand of a slot call is an instance of the type: `other` forced to be a plain number makes `self` the matrix
        g2 = re.search(r"\bif\s*\(\s*!\s*PY_NUMBER\s*\(\s*other\s*\)\s*\)\s*(PY_ERR\w*|return)\b", t)
        if g and g.start() < use.start():
            rule.ok(key, where)
        elif g2 and g2.start() < use.start():
            rule.ok(key, where, "`other` must be a number, so `self` is the instance the slot was called for")
        else:
            rule.violation(key, where,
                           "`self` is read as a matrix without any test of its type: for the reflected call (x / M with x not a matrix) the "
                           "memory of an arbitrary object is interpreted as nrows/ncols/buffer",
                           "if (!(Matrix_Check(self) || PY_NUMBER(self))) return NotImplemented", " ".join(t[use.start():use.start() + 50].split()))
    return n


# --------------------------------------------------------------------------------------
def int_narrowing_size_rule(rule, c, functions):
    """A dimension taken from a Python int and compared with / stored as a size must be held in a
    wide integer until it has been range-checked: `int m = PyLong_AS_LONG(..)` truncates 2**32+2
    to 2 before any test can see it, and `m*n` then wraps."""
    n = 0
    for fn in functions:
        if fn not in c.funcs:
            continue
        node = c.funcs[fn]
        for x in cf.walk(node):
            if x.get("k") == "VarDecl" and x.get("c"):
                calls = [y for y in cf.walk(x["c"][0]) if y.get("k") == "CallExpr" and cf.callee_name(y) in ("PyLong_AsLong", "PyLong_AsSsize_t")]
                if not calls:
                    continue
                ty = (x.get("t") or "").strip()
                n += 1
                key = "%s:%s %s = PyLong_AS_LONG(..)" % (fn, ty, x.get("n"))
                where = "src/C/%s:%s:%d" % (c.name, fn, c.line_of(x.get("lo")))
                if ty in ("int_t", "long", "Py_ssize_t", "long long", "ssize_t"):
                    rule.ok(key, where, "wide enough")
                else:
                    rule.violation(key, where, "a Python integer is narrowed to `%s` before any range test: 2**32 + k is taken for k" % ty, "int_t", ty)
    return n


# --------------------------------------------------------------------------------------
def reshape_guard_rule(rule, c, functions):
    """Outside the constructors and the size setter (which have their own rule), an assignment
    to nrows/ncols of an existing matrix `MAT_NROWS(X) = a; MAT_NCOLS(X) = b;` re-shapes X's
    buffer: the enclosing condition must contain `MAT_LGT(X) == a*b`, or the copy loops that
    follow read a*b elements from a buffer of another length."""
    n = 0
    for fn in functions:
        if fn not in c.funcs or fn in ("Matrix_New", "matrix_new", "matrix_set_size"):
            continue
        t = _ftext(c, fn)
        for m in re.finditer(r"MAT_NROWS\s*\(\s*(\w+)\s*\)\s*=\s*([^;]+);\s*MAT_NCOLS\s*\(\s*\1\s*\)\s*=\s*([^;]+);", t):
            X, a, b = m.group(1), " ".join(m.group(2).split()), " ".join(m.group(3).split())
            # enclosing `if ( .. ) {`
            i, d = m.start(), 0
            while i > 0:
                i -= 1
                if t[i] == "}":
                    d += 1
                elif t[i] == "{":
                    if d == 0:
                        break
                    d -= 1
            j = t.rfind(")", 0, i)
            k, d2 = j, 0
            while k > 0:
                if t[k] == ")":
                    d2 += 1
                elif t[k] == "(":
                    d2 -= 1
                    if d2 == 0:
                        break
                k -= 1
            cond = " ".join(t[k + 1:j].split()) if re.search(r"\bif\s*$", t[:k].rstrip() + " ") or re.search(r"\bif\s*$", t[:k]) else ""
            n += 1
            key = "%s:reshape of %s to (%s, %s) keeps the element count" % (fn, X, a, b)
            where = "src/C/%s:%s:%d" % (c.name, fn, _line(c, fn, t, m.start()))
            want1 = re.compile(r"MAT_LGT\s*\(\s*%s\s*\)\s*==\s*%s\s*\*\s*%s" % (re.escape(X), re.escape(a), re.escape(b)))
            want2 = re.compile(r"MAT_LGT\s*\(\s*%s\s*\)\s*==\s*%s\s*\*\s*%s" % (re.escape(X), re.escape(b), re.escape(a)))
            saved = re.search(r"\b%s\s*=\s*MAT_NROWS\s*\(\s*%s\s*\)" % (re.escape(a), re.escape(X)), t[:m.start()]) and \
                re.search(r"\b%s\s*=\s*MAT_NCOLS\s*\(\s*%s\s*\)" % (re.escape(b), re.escape(X)), t[:m.start()])
            if saved:
                rule.ok(key, where, "restores the dimensions saved from %s itself" % X)
            elif want1.search(cond) or want2.search(cond):
                rule.ok(key, where, cond[:80])
            else:
                rule.violation(key, where,
                               "the dimensions of `%s` are overwritten under `%s`, which does not require MAT_LGT(%s) == %s*%s: the following copy reads "
                               "%s*%s elements from a buffer of another length" % (X, cond[:60] or "no condition", X, a, b, a, b),
                               "MAT_LGT(%s) == %s*%s in the guard" % (X, a, b), cond[:100])
    return n


ARM_ALLOC_EXCEPTIONS = {
    ("sytri", "work"): "LAPACK documents WORK(N) for dsytri and WORK(2*N) for zsytri",
}


def arm_alloc_rule(rule, c, wrappers):
    """The DOUBLE and COMPLEX arms of a wrapper allocate their work arrays with the same element
    counts (only the element type differs): `calloc(COUNT, sizeof(T))` / `malloc(COUNT*sizeof(T))`
    per assigned variable, compared arm by arm."""
    n = 0
    for fn in wrappers:
        if fn not in c.funcs:
            continue
        arms = {}
        for s in [x for x in cf.walk(c.funcs[fn]) if x.get("k") == "SwitchStmt" and x.get("b") is not None]:
            a = switch_arm_texts(c, s)
            if "DOUBLE" in a and "COMPLEX" in a:
                arms = a
        if not arms:
            continue

        def allocs(body):
            out = {}
            for m in re.finditer(r"\b(\w+)\s*=\s*(?:\([^()]*\)\s*)?calloc\s*\(", body):
                j = _bal(body, m.end() - 1)
                args = cf.split_top(body[m.end():j])
                if len(args) == 2:
                    out.setdefault(m.group(1), []).append("".join(args[0].split()))
            for m in re.finditer(r"\b(\w+)\s*=\s*(?:\([^()]*\)\s*)?malloc\s*\(", body):
                j = _bal(body, m.end() - 1)
                arg = "".join(body[m.end():j].split())
                arg = re.sub(r"\*?sizeof\([^()]*\)\*?", "", arg)
                out.setdefault(m.group(1), []).append(arg)
            return out
        ad, az = allocs(arms["DOUBLE"]), allocs(arms["COMPLEX"])
        for v in sorted(set(ad) & set(az)):
            n += 1
            key = "%s:work array `%s` has the same element count in both arms" % (fn, v)
            where = "src/C/%s:%s" % (c.name, fn)
            if (fn, v) in ARM_ALLOC_EXCEPTIONS:
                rule.ok(key + ":named-exception", where, ARM_ALLOC_EXCEPTIONS[(fn, v)])
            elif sorted(ad[v]) == sorted(az[v]):
                rule.ok(key, where, ad[v][0][:60])
            else:
                rule.violation(key, where,
                               "`%s` is allocated with %s elements in the real arm and %s in the complex arm: the routine of one arm writes past its "
                               "work space" % (v, ad[v], az[v]), ad[v], az[v])
    return n


def scratch_copy_bound_rule(rule, c, wrappers):
    """A 32-bit scratch copy of an integer matrix (`int *p = malloc(N*sizeof(int))`, LP64) is
    transferred element by element: every copy loop between `p[i]` and `MAT_BUFI(X)[i]` runs over
    exactly the N elements that were allocated (a shorter copy-back leaves part of the caller's
    pivot vector stale)."""
    from .poly import Poly
    n = 0
    for fn in wrappers:
        if fn not in c.funcs:
            continue
        t = _ftext(c, fn)
        for m in re.finditer(r"\bint\s*\*\s*(\w+)\s*=\s*(?:\([^()]*\)\s*)?malloc\s*\(\s*([^;]*?)\s*\*\s*sizeof\s*\(\s*int\s*\)\s*\)", t):
            p, cnt = m.group(1), m.group(2)
            try:
                want = cx.to_poly(cx.parse(cnt))
            except cx.ParseError:
                continue
            for lp in re.finditer(r"\bfor\s*\(\s*(\w+)\s*=\s*0\s*;\s*\1\s*<\s*([^;]+);[^)]*\)\s*([^;]*;)", t):
                iv, bound, body = lp.group(1), lp.group(2), lp.group(3)
                if not (re.search(r"\b%s\s*\[\s*%s\s*\]" % (re.escape(p), re.escape(iv)), body) and "MAT_BUFI" in body):
                    continue
                n += 1
                key = "%s:copy loop `%s` covers the %s elements of %s" % (fn, " ".join(body.split())[:40], cnt.strip(), p)
                where = "src/C/%s:%s:%d" % (c.name, fn, _line(c, fn, t, lp.start()))
                try:
                    got = cx.to_poly(cx.parse(bound))
                except cx.ParseError:
                    rule.undecided(key, where, "bound not parsed")
                    continue
                if got == want:
                    rule.ok(key, where)
                else:
                    rule.violation(key, where,
                                   "the scratch array `%s` holds %s entries but this loop transfers `%s` of them: the rest of the caller's integer matrix "
                                   "keeps its old contents" % (p, cnt.strip(), bound.strip()), cnt.strip(), bound.strip())
    return n


# --------------------------------------------------------------------------------------
_LD_FIXTURE = "static void k(int *ldA, int *ldB, int_t *A, int_t *B, int_t *C) { C[0] += ((int_t *)A)[i+l*(*ldA)]*((int_t *)B)[l+j*(*ldA)]; }"


def _ld_subscripts(text, names):
    """[(array, ld name, position)] for subscripts `X[ .. ldY .. ]` (through casts) with ldY a name of the function"""
    out = []
    for m in re.finditer(r"(?:\(\s*\(\s*[\w ]+\*\s*\)\s*(\w+)\s*\)|\b(\w+))\s*\[", text):
        X = m.group(1) or m.group(2)
        j, d = m.end(), 1
        while j < len(text) and d:
            if text[j] == "[":
                d += 1
            elif text[j] == "]":
                d -= 1
            j += 1
        sub = text[m.end():j - 1]
        for l in re.finditer(r"\bld(\w+)\b", sub):
            if "ld" + l.group(1) in names:
                out.append((X, l.group(1), m.start()))
    return out


def ld_subscript_rule(rule, cs, files):
    """A leading dimension belongs to its array: a subscript `X[i + j*ldY]` with Y != X (and ldX a
    name of the same function) reads X with another array's column stride.  The kernels of the
    repaired tree index with m / k directly, so the rule carries its own positive example."""
    n = 1
    fx = _ld_subscripts(_LD_FIXTURE, {"ldA", "ldB"})
    if [(x, y) for x, y, _ in fx if x != y] == [("B", "A")]:
        rule.ok("self-test:fires on the embedded example `B[l+j*(*ldA)]`", "sa/cmisc_rules.py")
    else:
        rule.undecided("self-test:fires on the embedded example", "sa/cmisc_rules.py", "positive example no longer recognised")
    for f in files:
        c = cs[f]
        for fn in c.order:
            t = _ftext(c, fn)
            names = set(re.findall(r"\bld\w+\b", t))
            if not names:
                continue
            for X, Y, pos in _ld_subscripts(t, names):
                if "ld" + X not in names:
                    continue
                n += 1
                key = "%s:%s:%s[..] uses ld%s" % (f, fn, X, Y)
                where = "src/C/%s:%s:%d" % (f, fn, _line(c, fn, t, pos))
                if X == Y:
                    rule.ok(key, where)
                else:
                    rule.violation(key, where, "`%s` is subscripted with the leading dimension of `%s`: for ld%s != ld%s the wrong elements are addressed"
                                   % (X, Y, X, Y), "ld%s" % X, "ld%s" % Y)
    return n
