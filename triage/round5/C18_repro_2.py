# int overflow in the buffer-length checks: huge ldA / offsetA pass validation, LAPACK then reads wild memory
import subprocess, sys
code = r'''
from cvxopt import matrix, lapack
A = matrix([[4.0,1.0,0.0],[1.0,4.0,1.0],[0.0,1.0,4.0]]); B = matrix([1.0,2.0,3.0])
try:
    %s
    print("returned normally")
except Exception as e:
    print(type(e).__name__, e)
'''
for call in ("lapack.potrf(A, ldA=4)                 # small inconsistency: refused",
             "lapack.potrf(A, ldA=2**30)             # (n-1)*ldA wraps to -2**31",
             "lapack.gesv(A, B, ldA=2**30)",
             "lapack.potrf(A, n=1, offsetA=2**31-1)  # oA + n wraps negative",
             "lapack.gesv(A, B, ldB=2**31-1, nrhs=3)"):
    r = subprocess.run([sys.executable, "-c", code % call], capture_output=True, text=True)
    print("%-75s rc=%d %s" % (call, r.returncode, r.stdout.strip()))
