# Single-variable LP "already in matrix form" shortcut passes scalar coefficients /
# scalar right-hand sides straight to solvers.lp
from cvxopt import matrix, solvers
from cvxopt.modeling import variable, op, sum, dot
solvers.options['show_progress'] = False
def t(name, mk):
    try:
        p, x = mk(); p.solve(); print(name, '->', p.status, list(x.value))
    except Exception as e:
        print(name, '->', type(e).__name__, e)
A = matrix([[1., 0.], [0., 1.]])
def a():
    x = variable(2); return op(sum(x), [x >= 1]), x                 # expected optimal [1,1]
def b():
    x = variable(2); return op(sum(x), [A*x >= 1]), x               # expected optimal [1,1]
def c():
    x = variable(2); return op(sum(x), [x >= 0, A*x == 1]), x       # expected optimal [1,1]
def d():
    x = variable(2); return op(sum(x), [-A*x <= matrix([0., 0.]), x == 1]), x   # expected optimal [1,1]
def e():   # same problem as (a) with a second (redundant) inequality: takes the general path and works
    x = variable(2); return op(sum(x), [x >= 1, x <= 5]), x
t('x >= 1              ', a)
t('A*x >= 1            ', b)
t('x >= 0, A*x == 1    ', c)
t('-A*x <= 0, x == 1   ', d)
t('x >= 1, x <= 5 (ok) ', e)
