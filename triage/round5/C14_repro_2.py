# V2: a variable component with no nonzero coefficient gets a BOUNDS line but no COLUMNS line
from cvxopt.modeling import variable, op
x = variable(3, 'x')
lp = op(x[0] + x[1], [x[:2] >= 1])          # x[2] is unused: a natural model
print(lp)
lp.tofile('/var/tmp/fz/r2.mps')
lp2 = op()
try:
    lp2.fromfile('/var/tmp/fz/r2.mps'); print(lp2)
except Exception as e:
    print('fromfile raised', type(e).__name__, e)
