# array.array sequences other than 'i','l','d' are refused (documented as accepted sequences)
import array
from cvxopt import matrix
for t in 'ildqfhb':
    a = array.array(t, [1, 2, 3])
    try: print(t, 'ok', list(matrix(a)), '| via list:', list(matrix(list(a))))
    except Exception as e: print(t, type(e).__name__, e, '| via list:', list(matrix(list(a))))
