"""Tiny abstract evaluator for the bookkeeping code of modeling.op (C13).

Executes addconstraint / delconstraint for one constraint c of a given type ('<' or '=') and
one variable v that is / is not yet known, over the handful of statement shapes these methods
use (type tests, constant and tuple assignments of list / key selectors, list.remove, `+= [c]`,
creation of a dict entry), and returns the trace of bookkeeping events.  Statements it does not
understand raise Unknown; nothing of the repository is executed."""
import ast

from . import pyfront as pf


class Unknown(Exception):
    pass


INEQ, EQ = "self._inequalities", "self._equalities"


class Run:
    def __init__(self, kind, present, vars_name="self._variables"):
        self.kind, self.present, self.V = kind, present, vars_name
        self.names = {}
        self.events = []          # ("remove", list) ("append", list) ("vremove", key) ("vappend", key) ("create", dict) ("vdel",)
        self.entry = "OLD" if present else None

    # -- expressions -------------------------------------------------------------------
    def ev(self, e):
        if isinstance(e, ast.Constant):
            return e.value
        t = pf.norm_expr(e)
        if t in (INEQ, EQ):
            return t
        if isinstance(e, ast.Name):
            if e.id in self.names:
                return self.names[e.id]
            raise Unknown(e.id)
        if isinstance(e, ast.Call) and pf.norm_expr(e) in ("c.type()", "c._type"):
            return "<" if self.kind == "i" else "="
        if isinstance(e, ast.Attribute) and t == "c._type":
            return "<" if self.kind == "i" else "="
        if isinstance(e, ast.Compare) and len(e.ops) == 1 and isinstance(e.ops[0], (ast.Is, ast.IsNot)) and pf.norm_expr(e.left) == "type(c)":
            return isinstance(e.ops[0], ast.Is)            # c is a constraint (the refusal of other types is not modelled)
        if isinstance(e, ast.Compare) and len(e.ops) == 1:
            l, r = e.left, e.comparators[0]
            if isinstance(e.ops[0], (ast.In, ast.NotIn)) and pf.norm_expr(l) == "v" and pf.norm_expr(r) == self.V:
                known = self.entry is not None
                return known if isinstance(e.ops[0], ast.In) else not known
            a, b = self.ev(l), self.ev(r)
            if isinstance(e.ops[0], ast.Eq):
                return a == b
            if isinstance(e.ops[0], ast.NotEq):
                return a != b
        if isinstance(e, ast.Subscript) and self._key_of(e) is not None:
            return False                               # content of an entry field: irrelevant for the event order (treated as empty)
        if isinstance(e, ast.UnaryOp) and isinstance(e.op, ast.Not):
            return not self.ev(e.operand)
        if isinstance(e, ast.BoolOp):
            vals = [self.ev(v) for v in e.values]
            return all(vals) if isinstance(e.op, ast.And) else any(vals)
        if isinstance(e, ast.Dict):
            return {self.ev(k): (["c"] if pf.norm_expr(v) == "[c]" else [] if pf.norm_expr(v) == "[]" else self.ev(v)) for k, v in zip(e.keys, e.values)}
        raise Unknown(t[:40])

    # -- statements ----------------------------------------------------------------------
    def block(self, stmts):
        for s in stmts:
            self.stmt(s)

    def _key_of(self, sub):
        """'i' / 'e' for a reference self._variables[v][K]"""
        if isinstance(sub, ast.Subscript) and isinstance(sub.value, ast.Subscript) and pf.norm_expr(sub.value) == "%s[v]" % self.V:
            return self.ev(sub.slice)
        return None

    def stmt(self, s):
        if isinstance(s, ast.If):
            self.block(s.body if self.ev(s.test) else s.orelse)
        elif isinstance(s, ast.For) and pf.norm_expr(s.iter) == "c.variables()" and pf.norm_expr(s.target) == "v":
            self.block(s.body)                         # one representative variable
        elif isinstance(s, ast.Try):
            self.block(s.body)
        elif isinstance(s, ast.Assign) and len(s.targets) == 1:
            t = s.targets[0]
            if isinstance(t, ast.Name):
                self.names[t.id] = self.ev(s.value)
            elif isinstance(t, ast.Tuple) and isinstance(s.value, ast.Tuple) and len(t.elts) == len(s.value.elts):
                for a, b in zip(t.elts, s.value.elts):
                    self.names[a.id] = self.ev(b)
            elif pf.norm_expr(t) == "%s[v]" % self.V:
                self.entry = self.ev(s.value)
                self.events.append(("create", dict((k, list(v) if isinstance(v, list) else v) for k, v in self.entry.items())))
            else:
                raise Unknown(pf.norm_expr(s)[:50])
        elif isinstance(s, ast.AugAssign) and isinstance(s.op, ast.Add) and pf.norm_expr(s.value) == "[c]":
            t = pf.norm_expr(s.target)
            k = self._key_of(s.target)
            if t in (INEQ, EQ):
                self.events.append(("append", t))
            elif isinstance(s.target, ast.Name) and self.names.get(s.target.id) in (INEQ, EQ):
                self.events.append(("append", self.names[s.target.id]))
            elif k is not None:
                if self.entry is None:
                    raise Unknown("append to a missing entry")
                if isinstance(self.entry, dict):
                    self.entry[k] = self.entry.get(k, []) + ["c"]
                self.events.append(("vappend", k))
            else:
                raise Unknown(t[:50])
        elif isinstance(s, ast.Expr) and isinstance(s.value, ast.Call) and isinstance(s.value.func, ast.Attribute) and s.value.func.attr == "remove" \
                and len(s.value.args) == 1 and pf.norm_expr(s.value.args[0]) == "c":
            tgt = s.value.func.value
            k = self._key_of(tgt)
            if k is not None:
                self.events.append(("vremove", k))
            else:
                self.events.append(("remove", self.ev(tgt)))
        elif isinstance(s, ast.Delete):
            self.events.append(("vdel",))
        elif isinstance(s, (ast.Raise, ast.Return, ast.Pass)):
            pass
        elif isinstance(s, ast.Expr) and isinstance(s.value, ast.Constant):
            pass
        else:
            raise Unknown(pf.norm_expr(s)[:50])


def run(fn, kind, present):
    r = Run(kind, present)
    r.block(fn.body)
    return r
