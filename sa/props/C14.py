"""C14 - writing an LP to MPS and reading it back preserves the problem (structural part:
column layout agreement writer/reader, section and code vocabulary, row-label loops of
the writer, the reader's RANGES / BOUNDS decision tables, refusal of non-LPs)."""
import ast

from .. import pyfront as pf
from ..core import Check, AnalysisError
from ..world import World

MPS_FIELDS = {(1, 3): "field 1 (type)", (4, 12): "field 2 (name)", (14, 22): "field 3 (name)", (24, 36): "field 4 (number)",
              (39, 47): "field 5 (name)", (49, 61): "field 6 (number)"}


# --------------------------------------------------------------------------------------
# width abstract interpretation of the writer's string building
# --------------------------------------------------------------------------------------

def width_of(e):
    """(width, kind, ends_with_newline) of a string expression; width None if unknown.
    kind: 'lit:<text>' | 'name' | 'num' | 'pad' | 'mix'"""
    if isinstance(e, ast.Constant) and isinstance(e.value, str):
        t = e.value
        nl = t.endswith("\n")
        body = t[:-1] if nl else t
        return (len(body), "lit:" + body, nl, [("lit", 0, len(body), body)])
    if isinstance(e, ast.BinOp) and isinstance(e.op, ast.Mult):
        for a, b in ((e.left, e.right), (e.right, e.left)):
            if isinstance(a, ast.Constant) and isinstance(a.value, int) and isinstance(b, ast.Constant) and b.value == " ":
                return (a.value, "pad", False, [])
    if isinstance(e, ast.Call) and isinstance(e.func, ast.Attribute) and e.func.attr == "rjust" and e.args \
            and isinstance(e.args[0], ast.Constant):
        # X[:8].rjust(8): width 8 if the operand is cut to <= 8
        w = e.args[0].value
        base = e.func.value
        cut = isinstance(base, ast.Subscript) and isinstance(base.slice, ast.Slice) and base.slice.lower is None \
            and isinstance(base.slice.upper, ast.Constant) and base.slice.upper.value <= w
        return (w, "name" if cut else "name?", False, [("name", 0, w, ast.unparse(base))])
    if isinstance(e, ast.BinOp) and isinstance(e.op, ast.Mod) and isinstance(e.left, ast.Constant) and isinstance(e.left.value, str):
        fmt = e.left.value
        nl = fmt.endswith("\n")
        body = fmt[:-1] if nl else fmt
        import re
        m = re.fullmatch(r"([^%]*)%( ?)(\d+)(?:\.(\d+))?([sEdf])([^%]*)", body)
        if m:
            pre, sp, wd, prec, conv, post = m.groups()
            if conv == "s":
                w = int(wd)
                return (len(pre) + w + len(post), "name", nl, [("lit", 0, len(pre), pre), ("name", len(pre), len(pre) + w, "")])
            if conv == "E":
                # [sign or space] d . ddddd E [+-] dd[d]: the exponent of a double has two or three digits, so the
                # width of a bare %E field is not fixed - the field is marked 'num!' and rejected by R1
                ws = {max(int(wd), (1 if sp else 0) + 2 + int(prec or 6) + 2 + e_) for e_ in (2, 3)}
                w = min(ws)
                return (len(pre) + w + len(post), "num" if len(ws) == 1 else "num!", nl, [("num" if len(ws) == 1 else "num!", len(pre), len(pre) + w, "")])
        return (None, "mix", nl, [])
    if isinstance(e, ast.Call) and isinstance(e.func, ast.Name) and e.func.id in NUM_HELPERS:
        w = NUM_HELPERS[e.func.id]
        return (w, "num", False, [("num", 0, w, "")])
    if isinstance(e, ast.Name) and e.id in LOCAL_STR:
        return LOCAL_STR[e.id]
    if isinstance(e, ast.BinOp) and isinstance(e.op, ast.Add):
        l, r = width_of(e.left), width_of(e.right)
        if l[0] is None or r[0] is None:
            return (None, "mix", r[2], [])
        fields = list(l[3]) + [(k, a + l[0], b + l[0], t) for k, a, b, t in r[3]]
        return (l[0] + r[0], "mix", r[2], fields)
    return (None, "mix", False, [])


NUM_HELPERS = {}      # helper name -> fixed width of the string it returns (filled by helper_widths)
LOCAL_STR = {}        # local name -> width_of() of the string expression last assigned to it (filled by records_of in statement order)


def _fmt_e_width(fmt, e_digits):
    import re
    m = re.fullmatch(r"%( ?)(\d+)(?:\.(\d+))?E", fmt)
    if not m:
        return None
    sp, wd, prec = m.groups()
    return max(int(wd), (1 if sp else 0) + 2 + int(prec or 6) + 2 + e_digits)


BROKEN_HELPERS = {}   # helper name -> {magnitude class: width} when the widths differ


def _abs_cmp(test, a, cls):
    """truth of `abs(a) < C` (and <=, >, >=) for the magnitude classes 'normal' (two-digit exponent: 0 or 1e-99 <= |a| < 1e100),
    'huge' (|a| >= 1e100) and 'tiny' (0 < |a| < 1e-99); None when the class straddles C"""
    if not (isinstance(test, ast.Compare) and len(test.ops) == 1 and isinstance(test.left, ast.Call) and isinstance(test.left.func, ast.Name)
            and test.left.func.id == "abs" and len(test.left.args) == 1 and isinstance(test.left.args[0], ast.Name) and test.left.args[0].id == a
            and isinstance(test.comparators[0], ast.Constant) and isinstance(test.comparators[0].value, (int, float))):
        return None
    C = float(test.comparators[0].value)
    less = isinstance(test.ops[0], (ast.Lt, ast.LtE))
    if not less and not isinstance(test.ops[0], (ast.Gt, ast.GtE)):
        return None
    if cls == "huge":
        below = False if C <= 1e100 else None          # |a| >= 1e100 is not below any C <= 1e100
    elif cls == "tiny":
        below = True if C >= 1e-99 else None
    else:
        below = True if C >= 1e100 else None           # the normal class contains 0 and 9.9e99
        if C == 1e100 and isinstance(test.ops[0], (ast.LtE, ast.Gt)):
            below = True
    if below is None:
        return None
    return below if less else not below


def helper_widths(mod):
    """Module-level helpers that format one number (`s = FMT1 % a; if len(s) > N: s = FMT2 % a; return s`, or a choice of the
    format by `abs(a) < C`): evaluate the length of the result for the three magnitude classes of a double (two-digit exponent,
    |a| >= 1e100, 0 < |a| < 1e-99); a helper whose result has one width in every class is a fixed-width number formatter, one whose
    widths differ is recorded in BROKEN_HELPERS."""
    out = {}
    BROKEN_HELPERS.clear()
    for q, fn in mod.funcs.items():
        if "." in q or len(pf.arg_names(fn)) != 1:
            continue
        a = pf.arg_names(fn)[0]
        results = {}
        ok = True
        for cls, e_ in (("normal", 2), ("huge", 3), ("tiny", 3)):
            env = {}
            ret = [None]

            def fmt_width(v):
                if isinstance(v, ast.BinOp) and isinstance(v.op, ast.Mod) and isinstance(v.left, ast.Constant) and isinstance(v.left.value, str) \
                        and isinstance(v.right, ast.Name) and v.right.id == a:
                    wv = _fmt_e_width(v.left.value, e_)
                    if wv is None:
                        raise ValueError
                    return wv
                if isinstance(v, ast.Name) and v.id in env:
                    return env[v.id]
                raise ValueError

            def run(stmts):
                for s in stmts:
                    if ret[0] is not None:
                        return
                    if isinstance(s, ast.Expr) and isinstance(s.value, ast.Constant):
                        continue
                    if isinstance(s, ast.Assign) and len(s.targets) == 1 and isinstance(s.targets[0], ast.Name):
                        env[s.targets[0].id] = fmt_width(s.value)
                    elif isinstance(s, ast.If) and isinstance(s.test, ast.Compare) and len(s.test.ops) == 1 and isinstance(s.test.left, ast.Call) \
                            and isinstance(s.test.left.func, ast.Name) and s.test.left.func.id == "len" and isinstance(s.test.left.args[0], ast.Name) \
                            and s.test.left.args[0].id in env and isinstance(s.test.comparators[0], ast.Constant):
                        l_, r_ = env[s.test.left.args[0].id], s.test.comparators[0].value
                        op = s.test.ops[0]
                        val = {ast.Gt: l_ > r_, ast.GtE: l_ >= r_, ast.Lt: l_ < r_, ast.LtE: l_ <= r_, ast.Eq: l_ == r_, ast.NotEq: l_ != r_}.get(type(op))
                        if val is None:
                            raise ValueError
                        run(s.body if val else s.orelse)
                    elif isinstance(s, ast.If):
                        val = _abs_cmp(s.test, a, cls)
                        if val is None:
                            raise ValueError
                        run(s.body if val else s.orelse)
                    elif isinstance(s, ast.Return) and s.value is not None:
                        ret[0] = fmt_width(s.value)
                    else:
                        raise ValueError
            try:
                run(fn.body)
            except ValueError:
                ok = False
                break
            if ret[0] is None:
                ok = False
                break
            results[cls] = ret[0]
        if ok and len(set(results.values())) == 1:
            out[q] = results["normal"]
        elif ok:
            BROKEN_HELPERS[q] = results
    return out


def records_of(fn):
    """Straight-line runs of f.write(..) calls forming one output record each:
    [(section, [(kind, start, end, text, node)])]"""
    recs = []
    section = None

    LOCAL_STR.clear()

    def walk(stmts, cur, pos):
        nonlocal section
        for s in stmts:
            if isinstance(s, ast.Assign) and len(s.targets) == 1 and isinstance(s.targets[0], ast.Name):
                # a record fragment kept in a local (`colfield = 4*' ' + varname[:8].rjust(8)`)
                wv = width_of(s.value)
                if wv[0] is not None and wv[1] != "num!":
                    LOCAL_STR[s.targets[0].id] = wv
                else:
                    LOCAL_STR.pop(s.targets[0].id, None)
                continue
            if isinstance(s, ast.Expr) and isinstance(s.value, ast.Call) and pf.call_name(s.value) == "f.write" and s.value.args:
                w, kind, nl, fields = width_of(s.value.args[0])
                if w is None:
                    cur, pos = [], None
                    if nl:
                        cur, pos = [], 0
                    continue
                if pos is None:
                    pos = 0
                for k, a, b, t in fields:
                    cur.append((k, a + pos, b + pos, t, s))
                pos += w
                if nl:
                    # a pure literal line is a section header
                    if len(cur) == 1 and cur[0][0] == "lit" and cur[0][1] == 0 and cur[0][3].strip() and cur[0][3][0] != " ":
                        section = cur[0][3].strip().split()[0]
                    recs.append((section, cur))
                    cur, pos = [], 0
            elif isinstance(s, (ast.For, ast.While)):
                walk(s.body, [], 0)
                cur, pos = [], 0
            elif isinstance(s, ast.If):
                # both arms continue the same record (e.g. ' L  ' / ' E  ')
                c1, p1 = walk(s.body, list(cur), pos)
                c2, p2 = walk(s.orelse, list(cur), pos)
                if p1 == p2:
                    cur, pos = (c1 if len(c1) >= len(c2) else c2), p1
                else:
                    cur, pos = [], pos
        return cur, pos
    walk(fn.body, [], 0)
    return recs


# --------------------------------------------------------------------------------------
# tiny evaluator for the reader's decision tables (constant propagation)
# --------------------------------------------------------------------------------------
class Unknown(Exception):
    pass


def mini_eval(e, env):
    if isinstance(e, ast.Constant):
        return e.value
    if not isinstance(e, ast.Name):
        try:
            k = ast.unparse(e)
        except Exception:
            k = None
        if k is not None and k in env:
            return env[k]
    if isinstance(e, ast.Name):
        if e.id in env:
            return env[e.id]
        if e.id == "None":
            return None
        raise Unknown(e.id)
    if isinstance(e, ast.UnaryOp) and isinstance(e.op, ast.USub):
        return -mini_eval(e.operand, env)
    if isinstance(e, ast.UnaryOp) and isinstance(e.op, ast.Not):
        return not mini_eval(e.operand, env)
    if isinstance(e, ast.BoolOp):
        vals = [mini_eval(v, env) for v in e.values]
        return all(vals) if isinstance(e.op, ast.And) else any(vals)
    if isinstance(e, ast.Call) and isinstance(e.func, ast.Name) and e.func.id in ("abs", "float"):
        return {"abs": abs, "float": float}[e.func.id](mini_eval(e.args[0], env))
    if isinstance(e, ast.Subscript):
        key = ast.unparse(e)
        if key in env:
            return env[key]
        base = mini_eval(e.value, env)
        idx = mini_eval(e.slice, env) if not isinstance(e.slice, ast.Slice) else None
        return base[idx]
    if isinstance(e, ast.List):
        return [mini_eval(x, env) for x in e.elts]
    if isinstance(e, ast.Compare):
        left = mini_eval(e.left, env)
        for op, r in zip(e.ops, e.comparators):
            right = mini_eval(r, env)
            if isinstance(op, (ast.Eq, ast.Is)):
                ok = left == right if isinstance(op, ast.Eq) else left is right
            elif isinstance(op, (ast.NotEq, ast.IsNot)):
                ok = left != right if isinstance(op, ast.NotEq) else left is not right
            elif isinstance(op, ast.Gt):
                ok = left > right
            elif isinstance(op, ast.Lt):
                ok = left < right
            elif isinstance(op, ast.GtE):
                ok = left >= right
            elif isinstance(op, ast.LtE):
                ok = left <= right
            else:
                raise Unknown("op")
            if not ok:
                return False
            left = right
        return True
    raise Unknown(ast.dump(e)[:40])


SYM = "\u00a7"      # marks a symbolic object (the row function) in the evaluator's environment


def run_block(stmts, env, out):
    """interpret a block consisting of if/elif chains, constraint constructions
    `c = F <rel> E`, and assignments to bounds[..][k]; other statements are ignored"""
    for s in stmts:
        if isinstance(s, ast.If):
            try:
                t = mini_eval(s.test, env)
            except Unknown:
                continue
            run_block(s.body if t else s.orelse, env, out)
        elif isinstance(s, ast.Assign) and isinstance(s.value, ast.Compare) and len(s.value.ops) == 1 \
                and isinstance(s.targets[0], ast.Name):
            c = s.value
            try:
                rhs = mini_eval(c.comparators[0], env)
            except Unknown:
                rhs = "?"
            rel = {ast.LtE: "<=", ast.GtE: ">=", ast.Eq: "=="}.get(type(c.ops[0]))
            if rel:
                left = ast.unparse(c.left)
                # a local alias of the constrained object (`rowf = functions[l]`) stands for that object
                if isinstance(c.left, ast.Name) and isinstance(env.get(c.left.id), str) and env[c.left.id].startswith(SYM):
                    left = env[c.left.id][len(SYM):]
                out.append((left, rel, rhs))
        elif isinstance(s, ast.Assign) and isinstance(s.targets[0], ast.Subscript):
            key = ast.unparse(s.targets[0])
            try:
                val = mini_eval(s.value, env)
                env[key] = val
                # keep the list view consistent: bounds[collabel][k] or an alias `bnd[k]` of that list
                import re
                m = re.fullmatch(r"bounds\[collabel\]\[(\d)\]", key)
                if m:
                    env["bounds[collabel]"][int(m.group(1))] = val
                    env.pop(key, None)
                else:
                    t0 = s.targets[0]
                    if isinstance(t0.value, ast.Name) and isinstance(env.get(t0.value.id), list) and isinstance(t0.slice, ast.Constant) \
                            and isinstance(t0.slice.value, int):
                        env[t0.value.id][t0.slice.value] = val
                        env.pop(key, None)
            except Unknown:
                pass
        elif isinstance(s, ast.Assign) and len(s.targets) == 1 and isinstance(s.targets[0], ast.Tuple) \
                and all(isinstance(x, ast.Name) for x in s.targets[0].elts):
            # `rowf, rng = functions[l], ranges[l]` / `lb, ub = bnds`
            names = [x.id for x in s.targets[0].elts]
            try:
                if isinstance(s.value, ast.Tuple) and len(s.value.elts) == len(names):
                    vals = [mini_eval(v, env) for v in s.value.elts]
                else:
                    vals = list(mini_eval(s.value, env))
                if len(vals) == len(names):
                    for nm_, v_ in zip(names, vals):
                        env[nm_] = v_
            except (Unknown, TypeError):
                pass
        elif isinstance(s, ast.Assign) and len(s.targets) == 1 and isinstance(s.targets[0], ast.Name):
            # local aliases of the inputs (`btype = s[1:3].strip()`, `bnd = bounds[collabel]`): lists are shared, not copied
            try:
                env[s.targets[0].id] = mini_eval(s.value, env)
            except Unknown:
                pass


def interval(cons, fname):
    lo, hi = float("-inf"), float("inf")
    for left, rel, rhs in cons:
        if left != fname or rhs == "?":
            continue
        if rel in ("<=", "=="):
            hi = min(hi, rhs)
        if rel in (">=", "=="):
            lo = max(lo, rhs)
    return (lo, hi)


def build(tier, repo):
    chk = Check(
        "C14", tier, repo,
        explanation=(
            "Static analysis of modeling.op.tofile / fromfile. Decided: (R1) a width abstract "
            "interpretation of the writer's string building places every name and number field of every "
            "record kind exactly on one of the fixed-format MPS fields, and the reader slices exactly those "
            "fields; (R2) the section headers and row/bound codes the writer emits are ones the reader "
            "handles, unknown codes raise; (R3) the writer's row labels in COLUMNS/RHS range over the rows of "
            "the constraint they label (same index domain as in ROWS); (R4) constant propagation through the "
            "reader's RANGES and BOUNDS code yields, for every row type x sign of R and every bound type, "
            "exactly the interval the MPS format defines; (R5) tofile refuses non-LPs before opening the "
            "file. NOT decided: 6-digit rounding, collisions of truncated names, equality of solve results."),
        trusted_base=["CPython ast", "the fixed-format MPS field table (columns 2-3, 5-12, 15-22, 25-36, 40-47, 50-61) and RANGES/BOUNDS semantics"],
        assumptions=["names cut to 8 characters stay distinct (documented precondition of C14)"])
    w = World(repo, need_c=False)
    m = w.mods["modeling"]
    tofile = w.func("modeling", "op.tofile")
    fromfile = w.func("modeling", "op.fromfile")

    r1 = chk.rule("C14-R1", "writer's fields sit exactly on MPS fields; reader slices exactly the MPS fields", "the file written is read back field by field")
    NUM_HELPERS.clear()
    NUM_HELPERS.update(helper_widths(m))
    for hn, hw in sorted(NUM_HELPERS.items()):
        r1.ok("helper %s returns a string of fixed width %d (two- and three-digit exponents)" % (hn, hw), m.where(m.funcs[hn], m.funcs[hn]))
    for hn, ws in sorted(BROKEN_HELPERS.items()):
        r1.violation("helper %s returns a string of fixed width" % hn, m.where(m.funcs[hn], m.funcs[hn]),
                     "the number formatter returns strings of different widths for different magnitudes (%s): a number with a three-digit "
                     "exponent overflows the 12-column MPS field and is read back with its last exponent digit cut off"
                     % ", ".join("%s: %d" % kv for kv in sorted(ws.items())), "one width for every double", ws)
    recs = records_of(tofile)
    nfields = 0
    for section, fields in recs:
        for kind, a, b, text, node in fields:
            if kind == "lit":
                continue
            nfields += 1
            key = "tofile:%s record:%s field at columns %d-%d" % (section, kind.rstrip("!"), a + 1, b)
            if kind == "num!":
                r1.violation(key, m.where(node, tofile),
                             "a number is written with a bare %E conversion: for an exponent of three digits (|x| >= 1e100 or < 1e-99) the text is one "
                             "column wider than the 12-column MPS number field and the reader cuts the last exponent digit off (1e100 is read as 1e10)",
                             "a fixed-width formatter", (a, b + 1))
            elif (a, b) in MPS_FIELDS:
                r1.ok(key, m.where(node, tofile), MPS_FIELDS[(a, b)])
            else:
                r1.violation(key, m.where(node, tofile),
                             "a %s is written at columns %d-%d, which is not a field of the fixed MPS format: the reader "
                             "will cut it apart" % ("name" if kind.startswith("name") else "number", a + 1, b),
                             "one of %s" % sorted(MPS_FIELDS), (a, b))
        # type codes (' L  ', ' FR ') inside field 1
        for kind, a, b, text, node in fields:
            if kind == "lit" and a == 0 and text.startswith(" ") and text.strip():
                code = text.strip().split()[0]
                pos = text.index(code)
                key = "tofile:%s record:code '%s'" % (section, code)
                if pos >= 1 and pos + len(code) <= 3:
                    r1.ok(key, m.where(node, tofile), "columns %d-%d" % (pos + 1, pos + len(code)))
                else:
                    r1.violation(key, m.where(node, tofile), "type code '%s' is not inside columns 2-3" % code, "columns 2-3", (pos + 1, pos + len(code)))
    chk.note_analysed("writer_records", len(recs))
    chk.note_analysed("writer_fields", nfields)
    slices = {}
    for n in ast.walk(fromfile):
        if isinstance(n, ast.Subscript) and isinstance(n.value, ast.Name) and n.value.id == "s" and isinstance(n.slice, ast.Slice) \
                and isinstance(n.slice.lower, ast.Constant) and isinstance(n.slice.upper, ast.Constant):
            slices.setdefault((n.slice.lower.value, n.slice.upper.value), []).append(n)
    for sl, nodes in sorted(slices.items()):
        key = "fromfile:slice s[%d:%d]" % sl
        if sl in MPS_FIELDS:
            r1.ok(key, m.where(nodes[0], fromfile), MPS_FIELDS[sl])
        else:
            r1.violation(key, m.where(nodes[0], fromfile), "the reader cuts s[%d:%d], which is not a field of the fixed MPS format" % sl,
                         sorted(MPS_FIELDS), sl)
    for f_ in MPS_FIELDS:
        if f_ not in slices:
            r1.violation("fromfile:reads %s" % MPS_FIELDS[f_], m.where(fromfile, fromfile), "the reader never reads %s" % MPS_FIELDS[f_], f_, "absent")

    r2 = chk.rule("C14-R2", "sections and codes written are handled by the reader; unknown codes raise", "tofile output lies in the supported subset")
    headers = [f[0][3].strip() for s_, f in recs if len(f) == 1 and f[0][0] == "lit" and f[0][1] == 0 and f[0][3] and f[0][3][0] != " "]
    rd_heads = {c.value for n in ast.walk(fromfile) if isinstance(n, ast.Compare) for c in n.comparators if isinstance(c, ast.Constant) and isinstance(c.value, str) and c.value.isupper()}
    for h in headers:
        hh = h.split()[0]
        if any(hh.startswith(x) or x.startswith(hh) for x in rd_heads):
            r2.ok("section %s" % hh, m.where(tofile, tofile))
        else:
            r2.violation("section %s" % hh, m.where(tofile, tofile), "the writer emits a section header the reader does not recognise", sorted(rd_heads), hh)
    codes_w = set()
    for s_, f in recs:
        for kind, a, b, text, node in f:
            if kind == "lit" and a == 0 and text.startswith(" ") and text.strip():
                codes_w.add((s_, text.strip().split()[0]))
    handled = {c.value for n in ast.walk(fromfile) if isinstance(n, ast.Compare) for c in n.comparators if isinstance(c, ast.Constant) and isinstance(c.value, str)}
    for n in ast.walk(fromfile):
        if isinstance(n, ast.Compare) and isinstance(n.ops[0], ast.In) and isinstance(n.comparators[0], (ast.List, ast.Tuple)):
            handled |= {x.value for x in n.comparators[0].elts if isinstance(x, ast.Constant)}
    for sec, code in sorted(codes_w):
        if code in handled:
            r2.ok("%s code %s" % (sec, code), m.where(tofile, tofile))
        else:
            r2.violation("%s code %s" % (sec, code), m.where(tofile, tofile), "the writer emits a code the reader does not handle", sorted(x for x in handled if len(x) <= 2), code)
    unk = [n for n in ast.walk(fromfile) if isinstance(n, ast.Raise) and isinstance(n.exc, ast.Call) and n.exc.args
           and "unknown" in ast.unparse(n.exc.args[0])]
    if len(unk) >= 2:
        r2.ok("unknown row/bound types raise", m.where(unk[0], fromfile), len(unk))
    else:
        r2.violation("unknown row/bound types raise", m.where(fromfile, fromfile), "unknown codes are silently accepted", ">= 2 raises", len(unk))

    r3 = chk.rule("C14-R3", "row labels written in COLUMNS / RHS range over the rows of the constraint they label", "every coefficient is attached to an existing row")
    for n in ast.walk(tofile):
        if isinstance(n, ast.Assign) and isinstance(n.targets[0], ast.Name) and n.targets[0].id == "conname":
            idxs = [x for x in ast.walk(n.value) if isinstance(x, ast.Call) and pf.call_name(x) == "str" and x.args and isinstance(x.args[0], ast.Name)]
            if not idxs:
                continue
            iv = idxs[-1].args[0].id
            loop = None
            p = n
            while p is not None and p is not tofile:
                p = getattr(p, "_parent", None)
                if isinstance(p, ast.For) and isinstance(p.target, ast.Name) and p.target.id == iv:
                    loop = p
                    break
            key = "tofile:row label index `%s` @ %s" % (iv, pf.norm_expr(loop.iter)[:40] if loop is not None else "?")
            where = m.where(n, tofile)
            if loop is None:
                r3.undecided(key, where, "index variable not bound by an enclosing loop")
                continue
            it = pf.norm_expr(loop.iter)
            conds = pf.path_condition(n, cross_loops=True)
            ctxt = " ".join(repr(c) for c in conds)
            if it == "range(len(c))":
                r3.ok(key, where, "rows of the constraint")
            elif it == "nz" and "cf.size" in ctxt:
                r3.ok(key, where, "non-zero rows of a len(c) x len(v) coefficient")
            elif it == "range(len(v))" and "_isscalar(cf)" in ctxt:
                r3.ok(key, where, "scalar coefficient: row i pairs with component i")
            else:
                r3.violation(key, where,
                             "a coefficient is written under row labels indexed by `%s`, which does not range over the rows of "
                             "the constraint (labels that do not exist in ROWS, or rows silently dropped)" % it,
                             "range(len(c))", it)

    # no decision about all rows of a vector quantity is taken from its first element
    for fn_ in (tofile,):
        for lp in [x for x in ast.walk(fn_) if isinstance(x, ast.For)]:
            for idx_, st in enumerate(lp.body):
                if not (isinstance(st, ast.If) and not st.orelse and any(isinstance(y, ast.Continue) for y in st.body)):
                    continue
                firsts = {x.value.id for x in ast.walk(st.test) if isinstance(x, ast.Subscript) and isinstance(x.value, ast.Name)
                          and isinstance(x.slice, ast.Constant) and x.slice.value == 0}
                for X in sorted(firsts):
                    later = [y for rest in lp.body[idx_ + 1:] for y in ast.walk(rest) if isinstance(y, ast.For) and isinstance(y.target, ast.Name)
                             and any(isinstance(z, ast.Subscript) and isinstance(z.value, ast.Name) and z.value.id == X
                                     and isinstance(z.slice, ast.Name) and z.slice.id == y.target.id for z in ast.walk(y))]
                    if later:
                        r3.violation("tofile:skip decided from %s[0]" % X, m.where(st, fn_),
                                     "the whole record group is skipped when `%s[0]` is zero although the following loop writes %s[%s] for every row: "
                                     "rows whose first element is zero lose their other entries" % (X, X, later[0].target.id),
                                     "per-row decision", pf.norm_expr(st.test)[:60])
    r3.ok("tofile:no group skipped on its first element", m.where(tofile, tofile))

    r4 = chk.rule("C14-R4", "reader's RANGES and BOUNDS decision tables equal the MPS definition (constant propagation)",
                  "fromfile builds exactly the constraints the format defines")
    # RANGES: the loop over rowtypes
    loops = [n for n in ast.walk(fromfile) if isinstance(n, ast.For) and "rowtypes" in pf.norm_expr(n.iter)]
    if not loops:
        raise AnalysisError("fromfile: loop over rowtypes not found")
    loop = loops[-1]
    tvar = loop.target.elts[1].id if isinstance(loop.target, ast.Tuple) else "type"
    INF = float("inf")
    expected = {
        ("L", None): (-INF, 0.0), ("L", 2.0): (-2.0, 0.0), ("L", -2.0): (-2.0, 0.0),
        ("G", None): (0.0, INF), ("G", 2.0): (0.0, 2.0), ("G", -2.0): (0.0, 2.0),
        ("E", None): (0.0, 0.0), ("E", 0.0): (0.0, 0.0), ("E", 2.0): (0.0, 2.0), ("E", -2.0): (-2.0, 0.0),
    }
    for (rt, R), want in expected.items():
        env = {tvar: rt, "ranges[l]": R, "l": "ROW", "functions[l]": SYM + "functions[l]"}
        out = []
        run_block(loop.body, env, out)
        got = interval(out, "functions[l]")
        key = "fromfile:row type %s with RANGES value %s" % (rt, R)
        if got == want:
            r4.ok(key, m.where(loop, fromfile), "a'x - rhs in [%s, %s]" % got)
        else:
            r4.violation(key, m.where(loop, fromfile),
                         "for a %s row with range R=%s the reader builds a'x - rhs in [%s, %s]; the MPS format defines [%s, %s]"
                         % (rt, R, got[0], got[1], want[0], want[1]), want, got)
    # BOUNDS: per type, starting from [0.0, None] with value 3.5
    bchain = None
    for n in ast.walk(fromfile):
        if isinstance(n, ast.If) and isinstance(n.test, ast.Compare) and len(n.test.ops) == 1 and isinstance(n.test.ops[0], ast.Eq) \
                and any(isinstance(x, ast.Constant) and x.value == "LO" for x in (n.test.left, n.test.comparators[0])):
            bchain = n
    if bchain is None:
        raise AnalysisError("fromfile: BOUNDS type chain not found")
    # statements of the same block that precede the chain may introduce aliases of the inputs
    bpar = bchain._parent
    bblk = next((getattr(bpar, f_) for f_ in ("body", "orelse") if isinstance(getattr(bpar, f_, None), list)
                 and any(x is bchain for x in getattr(bpar, f_))), [bchain])
    bpre = [x for x in bblk[:[i for i, x in enumerate(bblk) if x is bchain][0]]
            if isinstance(x, ast.Assign) and len(x.targets) == 1 and isinstance(x.targets[0], ast.Name)]
    bfinal = [n for n in ast.walk(fromfile) if isinstance(n, ast.For) and "bounds" in pf.norm_expr(n.iter)]
    bfinal = [n for n in bfinal if isinstance(n.target, ast.Tuple)]
    if not bfinal:
        raise AnalysisError("fromfile: final loop over bounds not found")
    bexp = {("LO", "3.5"): (3.5, INF), ("UP", "3.5"): (0.0, 3.5), ("FX", "3.5"): (3.5, 3.5), ("FR", "3.5"): (-INF, INF),
            ("MI", "3.5"): (-INF, INF), ("PL", "3.5"): (0.0, INF),
            # a bound value of exactly zero is a value, not "absent"
            ("FX", "0.0"): (0.0, 0.0), ("UP", "0.0"): (0.0, 0.0), ("LO", "0.0"): (0.0, INF)}
    bname = bfinal[0].target.elts[1].id
    for (bt, bval), want in bexp.items():
        env = {"s[1:3].strip()": bt, "s[24:36]": bval, "bounds[collabel]": [0.0, None], "bounds[collabel][0]": 0.0,
               "bounds[collabel][1]": None, "collabel": "COL"}
        out = []
        run_block(bpre + [bchain], env, out)
        b = env["bounds[collabel]"]
        env2 = {bname: b, "%s[0]" % bname: b[0], "%s[1]" % bname: b[1], "v": "v"}
        out2 = []
        run_block(bfinal[0].body, env2, out2)
        got = interval(out2, "v")
        key = "fromfile:bound type %s value %s" % (bt, bval)
        if got == want:
            r4.ok(key, m.where(bchain, fromfile), "[%s, %s]" % got)
        else:
            r4.violation(key, m.where(bchain, fromfile), "bound type %s with value %s yields [%s, %s]; MPS defines [%s, %s]" % (bt, bval, got[0], got[1], want[0], want[1]), want, got)

    # two BOUNDS lines for one column: each line refines the interval the previous one left (order must not matter for LO/UP/MI)
    def _ref(state, bt, v):
        lo, hi = state
        v = float(v)
        if bt == "LO":
            lo = v
        elif bt == "UP":
            hi = v
        elif bt == "MI":
            lo = -INF
        elif bt == "PL":
            hi = INF
        return (lo, hi)
    pairs = [(("UP", "4.0"), ("MI", "0.0")), (("MI", "0.0"), ("UP", "4.0")), (("LO", "1.0"), ("UP", "4.0")), (("UP", "4.0"), ("LO", "1.0")),
             (("MI", "0.0"), ("LO", "1.0")), (("LO", "1.0"), ("PL", "0.0"))]
    for first, second in pairs:
        key = "fromfile:bound lines %s %s then %s %s" % (first + second)
        try:
            env = {"bounds[collabel]": [0.0, None], "bounds[collabel][0]": 0.0, "bounds[collabel][1]": None, "collabel": "COL"}
            for bt, bval in (first, second):
                env["s[1:3].strip()"] = bt
                env["s[24:36]"] = bval
                out = []
                run_block(bpre + [bchain], env, out)
                b = env["bounds[collabel]"]
                env = {"bounds[collabel]": list(b), "bounds[collabel][0]": b[0], "bounds[collabel][1]": b[1], "collabel": "COL"}
            env2 = {bname: b, "%s[0]" % bname: b[0], "%s[1]" % bname: b[1], "v": "v"}
            out2 = []
            run_block(bfinal[0].body, env2, out2)
            got = interval(out2, "v")
        except Unknown as ex:
            r4.undecided(key, m.where(bchain, fromfile), "not evaluated: %s" % ex)
            continue
        want = _ref(_ref((0.0, INF), *first), *second)
        if got == want:
            r4.ok(key, m.where(bchain, fromfile), "[%s, %s]" % got)
        else:
            r4.violation(key, m.where(bchain, fromfile),
                         "%s %s followed by %s %s yields [%s, %s]; each BOUNDS line refines the interval left by the previous one: [%s, %s]"
                         % (first + second + got + want), want, got)

    r5 = chk.rule("C14-R5", "tofile refuses non-LPs before opening the file", "tofile refuses problems that are not LPs")
    first_open = min((n.lineno for n in ast.walk(tofile) if isinstance(n, ast.Call) and pf.call_name(n) == "open"), default=None)
    guard = [s for s in tofile.body if isinstance(s, ast.If) and "self._islp()" in pf.norm_expr(s.test) and pf.always_exits(s.body)]
    if guard and first_open and guard[0].lineno < first_open and isinstance(guard[0].body[-1], ast.Raise):
        r5.ok("tofile:_islp guard precedes open()", m.where(guard[0], tofile))
    else:
        r5.violation("tofile:_islp guard precedes open()", m.where(tofile, tofile), "a non-LP is not refused before the file is created", "if not self._islp(): raise TypeError", "absent/late")
    islp = w.func("modeling", "op._islp")
    txt = m.seg(islp)
    if "self.objective._isaffine()" in txt and "self._inequalities" in txt and "self._equalities" in txt:
        r5.ok("_islp tests objective and both constraint lists", m.where(islp, islp))
    else:
        r5.violation("_islp tests objective and both constraint lists", m.where(islp, islp), "_islp does not look at all parts of the problem", "objective, inequalities, equalities", "partial")
    # ---- round 5 -------------------------------------------------------------------------
    r6 = chk.rule("C14-R6", "every variable component gets at least one COLUMNS record (it is listed under BOUNDS)",
                  "tofile then fromfile yields the same number of variables")
    comp_loops = []
    sec = [None]

    def scan(stmts):
        for s in stmts:
            if isinstance(s, ast.Expr) and isinstance(s.value, ast.Call) and pf.call_name(s.value) == "f.write" and s.value.args \
                    and isinstance(s.value.args[0], ast.Constant) and isinstance(s.value.args[0].value, str) and s.value.args[0].value.strip().isupper():
                sec[0] = s.value.args[0].value.strip()
            elif isinstance(s, ast.For):
                it = ast.unparse(s.iter)
                if sec[0] == "COLUMNS" and re.fullmatch(r"range\(len\(v\)\)", it):
                    comp_loops.append(s)
                scan(s.body)
            elif isinstance(s, ast.If):
                scan(s.body)
                scan(s.orelse)
    import re
    scan(tofile.body)

    def must_write(stmts):
        """does every path through stmts execute an f.write(..)?"""
        for s in stmts:
            if isinstance(s, ast.Expr) and isinstance(s.value, ast.Call) and pf.call_name(s.value) == "f.write":
                return True
            if isinstance(s, ast.If) and s.orelse and must_write(s.body) and must_write(s.orelse):
                return True
        return False
    for lp in comp_loops:
        key = "tofile:COLUMNS loop over the components of a variable always writes a record"
        body_txt = ast.unparse(lp)
        tell = re.search(r"(\w+) = f\.tell\(\)", body_txt)
        fallback = tell and any(isinstance(s, ast.If) and re.fullmatch(r"f\.tell\(\) == %s" % tell.group(1), ast.unparse(s.test)) and must_write(s.body)
                                for s in lp.body)
        if must_write(lp.body):
            r6.ok(key, m.where(lp, tofile), "unconditional record")
        elif fallback:
            r6.ok(key, m.where(lp, tofile), "`if f.tell() == %s:` writes an explicit zero entry when nothing was written" % tell.group(1))
        else:
            r6.violation(key, m.where(lp, tofile),
                         "every record of the COLUMNS loop is guarded by a test that the coefficient is nonzero: a component whose coefficients are all "
                         "zero is written under BOUNDS only, and fromfile rejects the file (unknown column label)",
                         "an explicit zero entry when nothing was written", "all writes conditional")
    r6.require(1)

    r7 = chk.rule("C14-R7", "every row type the reader accepts in ROWS registers the row label on every path",
                  "fromfile builds exactly the constraints the format defines (entries of free rows are read and ignored)")
    nreg = 0

    def assigns_functions(stmts):
        for s in stmts:
            if isinstance(s, ast.Assign) and any(ast.unparse(t_).startswith("functions[") for t_ in s.targets):
                return True
            if isinstance(s, ast.If) and s.orelse and assigns_functions(s.body) and assigns_functions(s.orelse):
                return True
            if isinstance(s, ast.Raise):
                return True
        return False
    for n_ in ast.walk(fromfile):
        if isinstance(n_, ast.While) and "COLUMNS" in ast.unparse(n_.test):
          for arm in [s_ for s_ in n_.body if isinstance(s_, ast.If)]:
            while isinstance(arm, ast.If):
                tt = ast.unparse(arm.test)
                if "s[1:3]" in tt:
                    nreg += 1
                    key = "fromfile:ROWS arm `%s` registers the label" % tt[:50]
                    if assigns_functions(arm.body):
                        r7.ok(key, m.where(arm, fromfile))
                    else:
                        r7.violation(key, m.where(arm, fromfile),
                                     "a row of this type is accepted but its label is not entered in `functions` on every path: a later COLUMNS / RHS "
                                     "entry of that row raises KeyError for a well-formed file", "functions[rowlabel] = .. on every path", tt[:60])
                arm = arm.orelse[0] if len(arm.orelse) == 1 else None
    chk.note_analysed("rows_arms", nreg)
    r7.require(2)

    r8 = chk.rule("C14-R8", "tofile refuses colliding labels before the file is opened; the test uses the label expression that is written",
                  "distinct names give distinct rows and columns (or a refusal), never a silently merged row")
    opens = [s for s in pf.stmts_of(tofile) if isinstance(s, ast.Assign) and isinstance(s.value, ast.Call) and pf.call_name(s.value) == "open"]
    label_rx = r"\w+\[:7 - len\(str\((\w+)\)\)\] \+ '_' \+ str\(\1\)"
    # the label expression may be written inline or through a local helper `def label(base, idx): return <that expression>`
    helpers = [d.name for d in ast.walk(tofile) if isinstance(d, ast.FunctionDef) and d is not tofile
               and any(isinstance(r_, ast.Return) and r_.value is not None and re.search(label_rx, ast.unparse(r_.value)) for r_ in ast.walk(d))]
    if helpers:
        label_rx = label_rx + "|" + "|".join(r"\b%s\(" % re.escape(h) for h in helpers)
    written = [n_ for n_ in pf.stmts_of(tofile) if isinstance(n_, ast.Assign) and re.search(label_rx, ast.unparse(n_.value)) and opens and n_.lineno > opens[0].lineno]
    tested = [n_ for n_ in pf.stmts_of(tofile) if opens and n_.lineno < opens[0].lineno and re.search(label_rx, ast.unparse(n_))]
    raises = [n_ for n_ in pf._scope_nodes(tofile) if isinstance(n_, ast.Raise) and opens and n_.lineno < opens[0].lineno
              and any("len(set(" in repr(c_) or "set(" in repr(c_) for c_ in pf.path_condition(n_, cross_loops=True))]
    key = "tofile:labels are tested for collisions before open()"
    if written and tested and raises:
        r8.ok(key, m.where(raises[0], tofile), "%d label expressions written, collision test + raise before open()" % len(written))
    else:
        r8.violation(key, m.where(tofile, tofile),
                     "labels are the first characters of the name plus '_i': distinct names with a common prefix get the same label and the file "
                     "written merges their rows / cannot be read back; no collision test precedes open()",
                     "raise ValueError when len(set(labels)) < len(labels)", "absent")
    r8.require(1)
    from .. import modeling_rules as mr5
    r10 = chk.rule("C14-R10", "shape dispatch of a coefficient tests the row shape before the scalar shape", "the file written has the coefficients of the problem")
    chk.note_analysed("shape_dispatch_chains", mr5.shape_dispatch_order_rule(r10, w))
    r10.require(1)
    r9 = chk.rule("C14-R9", "the reader never removes elements from a list it is iterating over", "fromfile builds exactly the constraints the format defines")
    chk.note_analysed("loops_with_list_mutation", mr5.iterate_and_mutate_rule(r9, w))
    from .. import w7_rules as w7
    r11 = chk.rule("C14-R11", "a boolean flag of the reader that is tested is also raised (the first N row is the objective, later ones are free rows)",
                   "fromfile builds exactly the problem the file describes")
    chk.note_analysed("boolean_flags", w7.dead_flag_rule(r11, w.mods["modeling"].tree, "modeling.py"))
    return chk
