"""F-25 witness (triage only): spmatrix - <object that is neither a number nor a matrix>
dereferenced the Py_NotImplemented singleton returned by spmatrix_add_helper as if it were
the result matrix (MAT_ID(ret), MAT_BUF(ret)): SIGSEGV.  This blocks `A - f` for a sparse
constant A and a modeling function f (Python never gets to try f.__rsub__).  After the fix
NotImplemented is handed back to the interpreter."""
from cvxopt import spmatrix
from cvxopt.modeling import variable
x = variable(2)
f = 2 * x + 1
A = spmatrix([1., 2.], [0, 1], [0, 0], (2, 1))
g = A - f
print("A - f ->", type(g).__name__, "of length", len(g))
try:
    A - "abc"
except TypeError as e:
    print("A - 'abc' -> TypeError:", e)
