"""Shared rules over dense.c / sparse.c / base.c (C15, C20, C19)."""
import re

from . import cexpr as cx
from . import cfront as cf
from .poly import Poly

FIELDS = ("buffer", "id", "nrows", "ncols")
ALLOWED_WRITERS = {
    "Matrix_New": {"buffer", "id", "nrows", "ncols"},
    "matrix_new": {"nrows", "ncols"},
    "matrix_set_size": {"nrows", "ncols"},
}
ALLOWED_FREE = {"matrix_dealloc", "Matrix_New"}


def field_writers(cs):
    """[(file, function, field, line)] assignments to fields of a dense matrix;
    [(file, function, line)] frees of a matrix buffer"""
    writes, frees = [], []
    for f, c in cs.items():
        for fn in c.order:
            node = c.funcs[fn]
            for n in cf.walk(node):
                k = n.get("k")
                if k in ("BinaryOperator", "CompoundAssignOperator") and n.get("op", "").endswith("=") \
                        and n.get("op") not in ("==", "!=", "<=", ">=") and n.get("c"):
                    l = cf.strip(n["c"][0])
                    if l.get("k") == "MemberExpr" and l.get("n") in FIELDS and l.get("c"):
                        bt = (cf.strip(l["c"][0]).get("t") or "")
                        if "matrix" in bt and "spmatrix" not in bt:
                            writes.append((f, fn, l["n"], c.line_of(n.get("b"))))
                elif k == "CallExpr" and cf.callee_name(n) == "free" and len(n.get("c", [])) > 1:
                    a = cf.strip(n["c"][1])
                    if a.get("k") == "MemberExpr" and a.get("n") == "buffer" and a.get("c"):
                        bt = (cf.strip(a["c"][0]).get("t") or "")
                        if "matrix" in bt and "spmatrix" not in bt:
                            frees.append((f, fn, c.line_of(n.get("b"))))
    return writes, frees


def writer_rule(rule, cs):
    writes, frees = field_writers(cs)
    seen = set()
    for f, fn, fld, line in writes:
        key = "%s:%s writes matrix.%s" % (f, fn, fld)
        if key in seen:
            continue
        seen.add(key)
        where = "src/C/%s:%s:%d" % (f, fn, line)
        if fld in ALLOWED_WRITERS.get(fn, ()):
            rule.ok(key, where, "constructor / size setter")
        else:
            rule.violation(key, where,
                           "field `%s` of an existing dense matrix is assigned outside the constructors and the size setter: "
                           "the object's type or storage can change behind references and exported buffers" % fld,
                           "writers: %s" % sorted(ALLOWED_WRITERS), fn)
    for f, fn, line in frees:
        key = "%s:%s frees matrix.buffer" % (f, fn)
        if key in seen:
            continue
        seen.add(key)
        where = "src/C/%s:%s:%d" % (f, fn, line)
        if fn in ALLOWED_FREE:
            rule.ok(key, where, "deallocation / failed construction")
        else:
            rule.violation(key, where, "a matrix buffer is freed outside matrix_dealloc: exported buffers and aliases dangle",
                           "free only in %s" % sorted(ALLOWED_FREE), fn)
    return len(writes), len(frees)


# --------------------------------------------------------------------------------------
# index / dimension pairing
# --------------------------------------------------------------------------------------

def macro_uses(c, fn, name):
    node = c.funcs[fn]
    b, e = node["b"], node["e"]
    out = []
    for m in re.finditer(rb"\b" + name.encode() + rb"\s*\(", c.srcb[b:e]):
        sp = c.paren_after(b + m.start())
        if sp:
            out.append((b + m.start(), cf.split_top(c.text(sp[0] + 1, sp[1]))))
    return out


def dim_poly(txt):
    """canonical polynomial of a dimension expression (LGT == NROWS*NCOLS)"""
    t = re.sub(r"\b(MAT|SP)_LGT\(([^()]*)\)", r"(\1_NROWS(\2)*\1_NCOLS(\2))", txt)
    t = re.sub(r"\bMAT_NROWS\((\w+)\)", r"\1->nrows", t)
    t = re.sub(r"\bMAT_NCOLS\((\w+)\)", r"\1->ncols", t)
    try:
        return cx.to_poly(cx.parse(t))
    except cx.ParseError:
        return None


def index_pairing_rule(rule, c, functions=None):
    """CWRAP(i, D) wraps a negative index by dimension D: the index must have been
    range-checked against the *same* dimension (OUT_RNG(i, D) for scalars,
    create_indexlist(D, ..) for index lists)."""
    n = 0
    for fn in (functions or c.order):
        if fn not in c.funcs:
            continue
        cw = macro_uses(c, fn, "CWRAP")
        if not cw:
            continue
        og = macro_uses(c, fn, "OUT_RNG")
        node = c.funcs[fn]
        ftxt = c.text(node["b"], node["e"])
        for off, args in cw:
            if len(args) != 2:
                continue
            n += 1
            idx, dim = args[0].strip(), args[1].strip()
            D = dim_poly(dim)
            where = "src/C/%s:%s:%d" % (c.name, fn, c.line_of(off))
            key = "%s:CWRAP(%s, %s)" % (fn, " ".join(idx.split()), " ".join(dim.split()))
            m = re.match(r"MAT_BUFI\((\w+)\)\s*\[", idx)
            if m:
                lst = m.group(1)
                dims = re.findall(r"\b%s\s*=\s*create_indexlist\s*\(\s*([^,]+)," % re.escape(lst), ftxt)
                if not dims:
                    rule.undecided(key, where, "index list `%s` is not produced by create_indexlist in this function" % lst)
                    continue
                if any(dim_poly(d) == D and D is not None for d in dims):
                    rule.ok(key, where, "%s = create_indexlist(%s, ..)" % (lst, dims[0].strip()))
                else:
                    rule.violation(key, where,
                                   "indices of list `%s` were range-checked against `%s` but are wrapped with `%s`: a negative "
                                   "index lands on the wrong element (or outside the buffer)" % (lst, dims[0].strip(), dim),
                                   "CWRAP(.., %s)" % dims[0].strip(), dim)
                continue
            checks = [a for o, a in og if len(a) == 2 and a[0].strip() == idx and o < off]
            if not checks:
                # inline range tests `i < -D || i >= D`
                if re.search(r"%s\s*<\s*-" % re.escape(idx), ftxt) and re.search(r"%s\s*>=" % re.escape(idx), ftxt):
                    rule.undecided(key, where, "range test written inline")
                else:
                    rule.undecided(key, where, "no OUT_RNG on `%s` before the wrap (index may come from an already validated source)" % idx)
                continue
            if any(dim_poly(a[1]) == D and D is not None for a in checks):
                rule.ok(key, where, "OUT_RNG(%s, %s)" % (idx, checks[0][1].strip()))
            else:
                rule.violation(key, where,
                               "`%s` was range-checked against `%s` but is wrapped with `%s`" % (idx, checks[0][1].strip(), dim),
                               "same dimension in OUT_RNG and CWRAP", dim)
    return n


def narrowing_rule(rule, c, functions):
    """An index taken from a Python int must be held in an integer wide enough for the
    range test: `int i = PyLong_AS_LONG(x)` truncates before OUT_RNG can see the value."""
    for fn in functions:
        if fn not in c.funcs:
            continue
        node = c.funcs[fn]
        for n in cf.walk(node):
            if n.get("k") == "VarDecl" and n.get("c"):
                init = n["c"][0]
                calls = [x for x in cf.walk(init) if x.get("k") == "CallExpr" and cf.callee_name(x) in ("PyLong_AsLong", "PyLong_AsSsize_t")]
                # PyLong_AS_LONG is a macro around PyLong_AsLong
                if not calls:
                    continue
                ty = (n.get("t") or "").strip()
                key = "%s:%s %s = PyLong_AS_LONG(..)" % (fn, ty, n.get("n"))
                where = "src/C/%s:%s:%d" % (c.name, fn, c.line_of(n.get("lo")))
                # is the variable later range-checked / used as an index?
                used_idx = any(a[0].strip() == n.get("n") for _, a in macro_uses(c, fn, "OUT_RNG") + macro_uses(c, fn, "CWRAP"))
                if not used_idx:
                    continue
                if ty in ("int_t", "long", "Py_ssize_t", "long long", "ssize_t"):
                    rule.ok(key, where, "wide enough")
                else:
                    rule.violation(key, where,
                                   "a Python integer index is narrowed to `%s` before the range test: 2**32 + k passes as k" % ty,
                                   "int_t", ty)


def index_list_wrap_rule(rule, c, functions):
    """Index lists produced by create_indexlist(D, ..) still hold the caller's negative
    indices (only their range was checked): every element read `MAT_BUFI(L)[e]` of such a list
    that is used as an index must sit inside CWRAP(.., D) (or be compared / copied, not
    used to address)."""
    from . import cexpr as cx
    n = 0
    for fn in functions:
        if fn not in c.funcs:
            continue
        node = c.funcs[fn]
        t = cx.strip_pp(c.text(node["b"], node["e"]))
        t = re.sub(r"/\*.*?\*/", "", t, flags=re.S)
        lists = {}
        for m in re.finditer(r"\b(\w+)\s*=\s*create_indexlist\s*\(\s*([^,]+),", t):
            lists[m.group(1)] = m.group(2).strip()
        for L, D in lists.items():
            for m in re.finditer(r"MAT_BUFI\(\s*%s\s*\)\s*\[" % re.escape(L), t):
                n += 1
                before = t[max(0, m.start() - 40):m.start()]
                wrapped = re.search(r"CWRAP\s*\(\s*$", before) is not None
                line = c.line_of(node["b"]) + t[:m.start()].count("\n")
                # the statement the read sits in
                s0 = max(t.rfind(";", 0, m.start()), t.rfind("{", 0, m.start()), t.rfind("}", 0, m.start())) + 1
                s1 = t.find(";", m.start())
                stmt = " ".join(t[s0:s1].split())
                key = "%s:%s element used as an index @%s" % (fn, L, stmt[:60])
                where = "src/C/%s:%s:%d" % (c.name, fn, line)
                if wrapped:
                    rule.ok(key, where, "CWRAP(.., %s)" % D)
                elif re.search(r"OUT_RNG\s*\(\s*$", before) or re.match(r"\s*(if|while)\b", stmt) and "[" not in stmt.split("MAT_BUFI")[0][-3:]:
                    rule.ok(key, where, "range test / comparison")
                elif re.fullmatch(r"(\w+)\s*=\s*MAT_BUFI\(\s*%s\s*\)\s*\[[^\]]*\]" % re.escape(L), stmt) and \
                        _local_always_wrapped(t[s1:], re.fullmatch(r"(\w+)\s*=.*", stmt).group(1)):
                    rule.ok(key, where, "copied into a local that is only used inside CWRAP(..)")
                else:
                    rule.violation(key, where,
                                   "an element of the index list `%s` is used unwrapped (`%s`): a negative index allowed by create_indexlist(%s, ..) "
                                   "addresses memory before the array" % (L, stmt[:70], D), "CWRAP(MAT_BUFI(%s)[..], %s)" % (L, D), stmt[:80])
    return n


def _local_always_wrapped(rest, v):
    """every later use of local v (re-assignments aside) sits inside CWRAP( / OUT_RNG("""
    for m in re.finditer(r"\b%s\b" % re.escape(v), rest):
        after = rest[m.end():m.end() + 3].lstrip()
        if after.startswith("=") and not after.startswith("=="):
            continue                          # re-assignment
        before = rest[max(0, m.start() - 12):m.start()]
        if re.match(r"(<=|>=|<|>|==|!=)", after) or re.search(r"(<=|>=|<|>|==|!=)\s*-?\s*$", before):
            continue                          # a comparison (inline range test), not an address
        if not re.search(r"(CWRAP|OUT_RNG)\s*\(\s*$", before):
            return False
    return True
