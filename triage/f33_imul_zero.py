# F-33: f *= 0 reset only the constant term of a function; the linear and the nonlinear
# terms survived, so the value was that of the terms instead of 0.
from cvxopt import matrix
from cvxopt.modeling import variable, max as mmax
x = variable(3); x.value = matrix([1., 2., 3.])
f = 2*x + 4; f *= 0
print("f = 2*x+4; f *= 0  ->", list(f.value()), "expected [0,0,0]; variables:", len(f.variables()))
g = mmax(x, 1.5) + x; g *= 0
print("g = max(x,1.5)+x; g *= 0 ->", list(g.value()), "expected [0,0,0]; affine:", g._isaffine())
h = (2*x + 4) * 0
print("(2*x+4)*0 ->", list(h.value()))
