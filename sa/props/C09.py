"""C09 - solver calls are isolated, configurable and repeatable (structural part)."""
import ast
import re

from .. import pyfront as pf
from .. import solvers_common as sc
from .. import termination as tm
from ..core import Check, AnalysisError
from ..effects import FunctionEffects
from ..world import World

CONTAINERS = {"dims", "primalstart", "dualstart", "initvals", "options", "kwargs", "Gq", "hq", "Gs", "hs",
              "ps", "ds", "W", "sol", "K"}
ENTRY_NAMES = {"conelp", "coneqp", "cpl", "cp", "lp", "qp", "socp", "sdp", "gp"}
VALIDATED = ["maxiters", "abstol", "reltol", "feastol"]


def build(tier, repo):
    chk = Check(
        "C09", tier, repo,
        explanation=(
            "Static analysis of the ten solver entry points. Decides: (R1) each entry point binds "
            "`options` locally from kwargs (falling back to the module dictionary) before any use and "
            "forwards options=options to every entry point it calls; op.solve forwards **kwargs; (R2) "
            "maxiters/abstol/reltol/feastol (and refinement/kktreg where read) are read once from options "
            "and validated with ValueError before the main loop, with the same defaults in conelp, coneqp "
            "and cpl and in their docstrings; (R3) the main loops are bounded by maxiters; (R4) "
            "interprocedural effect/alias analysis: no entry point (nor the kkt_* factories w.r.t. G, "
            "dims, A) writes in place to an object reachable from its arguments, from the options "
            "dictionaries or from F()'s results; (R5) no global/nonlocal writes and no module-level "
            "mutable state besides the options dictionaries in the solver modules. Bit-identical results "
            "and thread independence are NOT decided as such; they follow from the absence of shared "
            "mutable state, which is what is decided (for the Python layer)."),
        trusted_base=["CPython ast", "sa/effects.py effect table for BLAS/LAPACK/base/misc kernels and callback contracts",
                      "sa/pyfront.py CFG/reaching definitions"],
        assumptions=["user callbacks write only the arguments their documented contract names",
                     "cvxopt matrix slicing/arithmetic/constructors return fresh objects (C15/C20)",
                     "C-level statics are examined under C18/C19"])
    w = World(repo)
    r1 = chk.rule("C09-R1", "options bound locally from kwargs before use; forwarded to callee entry points",
                  "options= honoured in preference to solvers.options")
    for mn, q in sc.ENTRY_POINTS:
        m = w.mods[mn]
        fn = w.func(mn, q)
        loc, gl, nl = pf.local_bindings(fn)
        key = "%s.%s:options is a local bound from kwargs" % (mn, q)
        binds = [s for s in fn.body if isinstance(s, ast.Assign) and len(s.targets) == 1
                 and isinstance(s.targets[0], ast.Name) and s.targets[0].id == "options"]
        uses = [n for n in ast.walk(fn) if isinstance(n, ast.Name) and n.id == "options" and isinstance(n.ctx, ast.Load)]
        if "options" not in loc or not binds:
            if uses:
                r1.violation(key, m.where(uses[0], fn),
                             "`options` is not bound in this entry point: the name refers to the module-level "
                             "dictionary, so the options= keyword is ignored",
                             "options = kwargs.get('options', globals()['options'])", "no local binding")
            else:
                r1.violation(key, m.where(fn, fn), "entry point neither binds nor uses options", "binding", "absent")
            continue
        b = binds[0]
        good = isinstance(b.value, ast.Call) and pf.call_name(b.value) == "kwargs.get" and b.value.args \
            and isinstance(b.value.args[0], ast.Constant) and b.value.args[0].value == "options" \
            and len(b.value.args) == 2 and "options" in pf.norm_expr(b.value.args[1])
        first_use = min((u.lineno for u in uses if not pf._within(u, b)), default=10**9)
        if not good:
            r1.violation(key, m.where(b, fn), "options is not taken from kwargs with the module dictionary as fallback",
                         "kwargs.get('options', globals()['options'])", pf.norm_expr(b.value))
        elif len(binds) != 1 or first_use < b.lineno:
            r1.violation(key, m.where(b, fn), "options is used before it is bound from kwargs (or re-bound)",
                         "single binding before first use", "binding line %d, first use line %d" % (b.lineno, first_use))
        else:
            r1.ok(key, m.where(b, fn))
        for c in ast.walk(fn):
            if isinstance(c, ast.Call) and isinstance(c.func, ast.Name) and c.func.id in ENTRY_NAMES \
                    and pf.resolve_name(c.func, m)[0] == "global":
                k2 = "%s.%s:forwards options to %s" % (mn, q, c.func.id)
                kw = [k for k in c.keywords if k.arg == "options"]
                if kw and isinstance(kw[0].value, ast.Name) and kw[0].value.id == "options":
                    r1.ok(k2, m.where(c, fn))
                else:
                    r1.violation(k2, m.where(c, fn), "call to %s does not pass options=options: per-call options are lost "
                                 "for the wrapped solver" % c.func.id, "options = options", m.seg(c)[-80:])
    mm = w.mods["modeling"]
    sv = w.func("modeling", "op.solve")
    fw = [c for c in ast.walk(sv) if isinstance(c, ast.Call) and pf.call_name(c) == "solvers.lp"]
    if fw and any(k.arg is None and isinstance(k.value, ast.Name) and k.value.id == (sv.args.kwarg.arg if sv.args.kwarg else "")
                  for k in fw[0].keywords):
        r1.ok("modeling.op.solve:forwards **kwargs to solvers.lp", mm.where(fw[0], sv))
    else:
        r1.violation("modeling.op.solve:forwards **kwargs to solvers.lp", mm.where(sv, sv), "op.solve drops its keyword options",
                     "solvers.lp(..., **kwargs)", "absent")
    r1.require(14)

    r2 = chk.rule("C09-R2", "option values read once and validated with ValueError before the main loop; same defaults in conelp/coneqp/cpl and docstrings",
                  "option values validated with ValueError; tolerances applied as given")
    defaults = {}
    for mn, q in sc.SOLVERS:
        m = w.mods[mn]
        fn = w.func(mn, q)
        opts = tm.option_names(fn)
        loop = sc.main_loop(fn)
        doc = ast.get_docstring(fn) or ""
        for k in VALIDATED + [x for x in ("refinement", "kktreg") if x in opts]:
            key = "%s:options['%s']" % (q, k)
            if k not in opts:
                r2.violation(key, m.where(fn, fn), "option '%s' is not read from options" % k, "options.get('%s', default)" % k, "absent")
                continue
            nm, dflt, st = opts[k]
            defaults.setdefault(k, {})[q] = pf.norm_expr(dflt)
            val = [s for s in fn.body if isinstance(s, ast.If) and s.lineno > st.lineno and s.lineno < loop.lineno
                   and nm in pf.names_in(s.test) and _raises_valueerror(s)]
            if not val:
                r2.violation(key + ":validated", m.where(st, fn), "options['%s'] is used without validation" % k,
                             "if <type/range test of %s>: raise ValueError" % nm, "no validating if before the main loop")
            else:
                r2.ok(key + ":validated", m.where(val[0], fn), pf.norm_expr(val[0].test)[:80])
            md = re.search(r"options\['%s'\][^\n]*\(default:\s*([^\s)]+)" % k, doc)
            if md and dflt is not None and k in VALIDATED:
                try:
                    same = float(md.group(1)) == float(ast.literal_eval(dflt))
                except Exception:
                    same = None
                if same is False:
                    r2.violation(key + ":doc-default", m.where(st, fn), "documented default differs from the code's default",
                                 md.group(1), pf.norm_expr(dflt))
                elif same:
                    r2.ok(key + ":doc-default", m.where(st, fn), md.group(1))
    for k, per in defaults.items():
        if k in VALIDATED:
            if len(set(per.values())) == 1:
                r2.ok("defaults agree:%s" % k, "src/python", per)
            else:
                r2.violation("defaults agree:%s" % k, "src/python/coneprog.py, cvxprog.py", "conelp/coneqp/cpl disagree on the default of '%s'" % k,
                             "one default", per)
    r2.require(20)

    r3 = chk.rule("C09-R3", "main loops bounded by maxiters", "stops after at most maxiters iterations")
    for mn, q in sc.SOLVERS:
        tm.check_loop_bound(r3, w, mn, q)
    r3.require(12)

    r4 = chk.rule("C09-R4", "no in-place write to an object reachable from the arguments, the options dictionaries or F()'s results (effect/alias analysis)",
                  "never modifies input matrices, dims, start points, options or other global state")
    targets = [(mn, q, None) for mn, q in sc.ENTRY_POINTS]
    for q in ("kkt_ldl", "kkt_ldl2", "kkt_chol", "kkt_chol2", "kkt_qr"):
        targets.append(("misc", q, {"G", "dims", "A"}))
    nsites = 0
    for mn, q, prot in targets:
        m = w.mods[mn]
        fn = w.func(mn, q)
        fe = FunctionEffects(fn, m, CONTAINERS, protected=prot, extra_roots={"options"})
        seen = set()
        for n, root, how, tgt in fe.sinks:
            if root == "self":
                continue
            if prot is not None and root not in prot and not root.startswith("<"):
                continue
            key = "%s.%s:write to %s via %s" % (mn, q, root, pf.norm_expr(n)[:70])
            if key in seen:
                continue
            seen.add(key)
            r4.violation(key, m.where(n, fn),
                         "`%s` may share storage with the caller's `%s` here and is modified in place (%s)"
                         % (pf.norm_expr(tgt)[:40], root, how),
                         expected="only fresh copies are written", observed=m.seg(pf.enclosing_stmt(n))[:100])
        # obligations: every in-place write site examined
        cnt = 0
        for s in [fn] + fe.nested:
            for n in pf._scope_nodes(s):
                if fe._sink_targets(n, s):
                    cnt += 1
        nsites += cnt
        if not seen:
            r4.ok("%s.%s:%d in-place write sites, none reaches a protected root" % (mn, q, cnt), "src/python/%s.py:%s" % (mn, q),
                  {"summaries": {k: sorted(v) for k, v in list(fe.summaries.items())[:8]}})
    chk.note_analysed("in_place_write_sites", nsites)
    r4.require(14)

    r5 = chk.rule("C09-R5", "no global/nonlocal writes; module-level mutable bindings are only the options dictionaries",
                  "no shared state between calls / threads")
    for mn in ("coneprog", "cvxprog", "misc", "solvers"):
        m = w.mods[mn]
        for n in ast.walk(m.tree):
            if isinstance(n, (ast.Global, ast.Nonlocal)):
                fn = pf.enclosing_function(n)
                stores = [x for x in ast.walk(fn) if isinstance(x, ast.Name) and x.id in n.names and isinstance(x.ctx, ast.Store)]
                key = "%s.%s:%s %s" % (mn, getattr(fn, "_qualname", "?"), type(n).__name__.lower(), ",".join(n.names))
                if stores and isinstance(n, ast.Global):
                    r5.violation(key, m.where(n, fn), "function re-binds a module-level name", "no global writes", m.seg(stores[0]._parent)[:60])
                else:
                    r5.ok(key, m.where(n, fn))
        for s in m.tree.body:
            if isinstance(s, ast.Assign) and isinstance(s.value, (ast.Dict, ast.List, ast.Set, ast.ListComp, ast.Call)):
                names = [t.id for t in s.targets if isinstance(t, ast.Name)]
                for nm in names:
                    key = "%s:module-level %s" % (mn, nm)
                    if isinstance(s.value, ast.Call) and pf.call_name(s.value) not in ("dict", "list", "set", "matrix"):
                        r5.ok(key, m.where(s))
                    elif nm in ("options", "__all__"):
                        r5.ok(key, m.where(s), "the documented options dictionary" if nm == "options" else "export list")
                    else:
                        r5.violation(key, m.where(s), "module-level mutable object other than the options dictionary",
                                     "none", pf.norm_expr(s)[:60])
    r5.require(3)

    r6 = chk.rule("C09-R6", "compiled modules keep no state between calls: no file-scope or static variable is written outside module initialisation",
                  "results depend only on the arguments (no hidden state; concurrent solves do not interfere)")
    from .. import cfront as cf
    from .. import cstate
    cs = cf.load_c(repo, files=cstate.FILES)
    nv = cstate.hidden_state_rule(r6, cs)
    chk.note_analysed("c_file_scope_and_static_variables", nv)
    r6.require(6)
    from .. import solver_rules as sr5
    r7 = chk.rule("C09-R7", "the validation of every option dominates every returned result (early exits included)",
                  "an invalid option value raises ValueError whatever path the solver takes")
    chk.note_analysed("option_validation_vs_returns", sr5.validation_dominates_returns_rule(
        r7, w, [("coneprog", "conelp"), ("coneprog", "coneqp"), ("cvxprog", "cpl")],
        ["maxiters", "reltol", "abstol", "feastol", "refinement", "show_progress", "kktreg"]))
    r7.require(30)
    from .. import w7_rules as w7
    r8 = chk.rule("C09-R8", "every solver computes the relative gap by the same if-chain (gap/-pcost if pcost < 0, gap/dcost if dcost > 0, else None)",
                  "the termination test on the relative gap is the documented one in every solver and at every exit")
    chk.note_analysed("relgap_chains", w7.sibling_chain_rule(r8, {mn + ".py": w.mods[mn].tree for mn in ("coneprog", "cvxprog")}, "relgap", 3))
    r8.require(6)
    return chk


def _raises_valueerror(ifstmt):
    last = ifstmt.body[-1] if ifstmt.body else None
    # accept `if X is None: pass elif ...: raise ValueError`
    for n in ast.walk(ifstmt):
        if isinstance(n, ast.Raise) and n.exc is not None:
            t = n.exc.func if isinstance(n.exc, ast.Call) else n.exc
            if isinstance(t, ast.Name) and t.id == "ValueError":
                return True
    return False
