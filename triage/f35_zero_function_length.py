# F-35: matrix (3x1) * zero function of length 1 had length 1 instead of 3 (the 'skip a zero constant'
# shortcut left the product without any term).  Found by the triage fuzzer, no static rule.
from cvxopt import matrix
from cvxopt.modeling import variable, dot
s = variable(1, 's'); s.value = matrix([2.])
A = matrix([1., 2., 3.], (3, 1))
for label, f in (("A*(0*s)", A*(0*s)), ("A*dot([0],s)", A*dot(matrix([0.]), s)), ("(0*s)*A", (0*s)*A), ("A*(2*s)", A*(2*s))):
    print(label, "len", len(f), list(f.value()), "(expected len 3)")
