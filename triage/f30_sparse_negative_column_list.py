from cvxopt import spmatrix, matrix
A = spmatrix([1.,2.,3.,4.],[0,1,2,0],[0,1,2,2],(3,3))
D = matrix(A)
for idx in ("[:, [-1]]", "[:, [2]]", "[[0,1], [-1]]", "[:, [-1, 0]]", "[1:, [-2]]", "[:, -1]"):
    try:
        r = eval("A"+idx); d = eval("D"+idx)
        print(idx, "sparse:", list(matrix(r)), " dense:", list(d), "OK" if list(matrix(r))==list(d) else "MISMATCH")
    except Exception as e:
        print(idx, type(e).__name__, e, "| dense:", list(eval("D"+idx)))
