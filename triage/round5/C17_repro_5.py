# gbmv accepts a negative row count m
from cvxopt import matrix, blas
A = matrix(1.0, (3, 4)); x = matrix(1.0, (4, 1)); y = matrix(5.0, (4, 1))
print("gbmv(m=-1)          ->", blas.gbmv(A, -1, 1, x, y), list(y))
print("gbmv(m=-1,trans='T')->", blas.gbmv(A, -1, 1, x, y, trans='T'), list(y))
try: blas.gbmv(A, 4, -1, x, y)
except Exception as e: print("kl=-1:", type(e).__name__, e)
