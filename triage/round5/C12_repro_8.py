# status 'unknown': documented "values set to None", actual: last iterates are stored
from cvxopt import matrix, solvers
from cvxopt.modeling import variable, op, sum
x = variable(2); c1 = (x >= 1)
p = op(sum(abs(x)), [c1, x[0] + x[1] <= 7])
p.solve(options={'maxiters': 1, 'show_progress': False})
print(p.status, list(x.value), list(c1.multiplier.value))
