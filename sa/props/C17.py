"""C17 - BLAS wrappers compute the reference operation on exactly the addressed data
(structural part: footprints, argument tables, sibling arms, defaults, zero dimensions)."""
import os
import re

from .. import cexpr as cx
from .. import cfront as cf
from .. import cguards as cg
from .. import cmodel as cm
from .. import cwrap_rules as cw
from .. import kb_blas as kb
from ..core import Check, AnalysisError
from ..poly import Poly

OUTPUT = {"swap": ("x", "y"), "scal": ("x",), "copy": ("y",), "axpy": ("y",), "gemv": ("y",), "gbmv": ("y",),
          "symv": ("y",), "sbmv": ("y",), "trmv": ("x",), "tbmv": ("x",), "ger": ("A",), "syr": ("A",), "syr2": ("A",),
          "gemm": ("C",), "symm": ("C",), "syrk": ("C",), "syr2k": ("C",), "trmm": ("B",)}


def doc_signature(c, fn):
    """parameters of the signature line(s) of doc_<fn>: [(name, default text or None)]"""
    v = c.vars.get("doc_" + fn)
    if v is None:
        return None
    txt = ""
    for n in cf.walk(v):
        if n.get("k") == "StringLiteral":
            s = cf.string_value(n)
            if s:
                txt = s
                break
    m = re.search(r"\n\n\s*%s\s*\(" % re.escape(fn), txt)
    if not m:
        m = re.search(r"(^|\n)\s*%s\s*\(" % re.escape(fn), txt)
        if not m:
            return None
    i = txt.index("(", m.start())
    depth, j = 0, i
    while j < len(txt):
        if txt[j] == "(":
            depth += 1
        elif txt[j] == ")":
            depth -= 1
            if depth == 0:
                break
        j += 1
    inner = " ".join(txt[i + 1:j].split())
    out = []
    for part in cf.split_top(inner):
        part = part.strip()
        if not part:
            continue
        if "=" in part:
            a, b = part.split("=", 1)
            out.append((a.strip(), b.strip()))
        else:
            out.append((part, None))
    return out


def doc_default_to_c(txt):
    t = re.sub(r"(\w+)\.size\[0\]", r"\1->nrows", txt)
    t = re.sub(r"(\w+)\.size\[1\]", r"\1->ncols", t)
    t = re.sub(r"\bmax\(", "MAX(", t)
    t = re.sub(r"\bmin\(", "MIN(", t)
    return t


def _strip_max1(p):
    m = {}
    for sname in p.symbols():
        mm = re.fullmatch(r"MAX\(1, (.*)\)", sname)
        if mm:
            try:
                m[sname] = cx.to_poly(cx.parse(mm.group(1)))
            except cx.ParseError:
                pass
    return p.subs(m) if m else p


def default_assignments(sim):
    """{var: expression} from top-level `if (v < 0) v = E;` / `if (v == 0) v = E;`"""
    out = {}
    for st in sim.body.get("c", []):
        if st.get("k") != "IfStmt" or len(st.get("c", [])) < 2:
            continue
        c = sim.cond_of(st)
        if c is None:
            continue
        cc = cx.strip_casts(c)
        if not (cc[0] == "bin" and cc[1] in ("<", "==") and cx.strip_casts(cc[2])[0] == "id" and cx.strip_casts(cc[3]) == ("num", 0)):
            continue
        var = cx.strip_casts(cc[2])[1]
        then = st["c"][1]
        if then.get("k") == "CompoundStmt" and len(then.get("c", [])) == 1:
            then = then["c"][0]
        if then.get("k") == "BinaryOperator" and then.get("op") == "=":
            e = sim.stmt_expr(then)
            if e and e[0] == "assign" and e[2] == ("id", var):
                out[var] = e[3]
    return out


def build(tier, repo):
    chk = Check(
        "C17", tier, repo,
        explanation=(
            "Static analysis of src/C/blas.c through the clang AST and a case-based abstract execution of "
            "each wrapper (cases = matrix type arm x flag characters x zero/positive dimensions x optional "
            "arguments). Decides: (R1) the real and complex arms call sibling routines with argument lists "
            "identical up to precision; (R2) keyword list, parse format, address arguments and variable "
            "types agree, the documented signature (doc string; blas.rst prefix) names the keywords in "
            "order with the same required/optional split, documented literal defaults equal the C "
            "initialisers and documented computed defaults equal the default-assignment statements; (R4) "
            "a call returns early only in cases where the reference operation leaves the output untouched; "
            "(R5) for every array handed to a BLAS routine the rejecting guard equals offset + reference "
            "footprint (netlib definition) in every case - neither weaker (memory safety, C19) nor "
            "stronger (no consistent call rejected) - offsets are rejected when negative and leading "
            "dimensions checked against max(1, rows); (R6) complex dot/dotu are the right four real dot "
            "products. NOT decided: the numbers BLAS returns."),
        trusted_base=["clang 14 AST", "sa/kb_blas.py (reference footprints, netlib BLAS)", "sa/cmodel.py abstract execution",
                      "sa/cexpr.py expression parser"],
        assumptions=["Linux build configuration of setup.py (BLAS symbols with trailing underscore)",
                     "integer arithmetic in guards does not overflow (examined separately under C19-R3)"])
    cs = cf.load_c(repo, files=["blas.c"])
    c = cs["blas.c"]
    tabs = cf.method_table(c)
    if "blas_functions" not in tabs:
        raise AnalysisError("blas_functions table not found")
    table = tabs["blas_functions"]
    wrappers = [fn for _, fn in table if fn in c.funcs]
    chk.note_analysed("wrappers", len(wrappers))

    r1 = chk.rule("C17-R1", "real/complex sibling arms are argument-wise identical up to precision",
                  "for real and complex data")
    cw.sibling_rule(r1, c, wrappers, pair_exceptions={
        "dot": "complex arm composes the conjugated dot product from four real dot products (checked by R6)",
        "dotu": "complex arm composes the unconjugated dot product from four real dot products (checked by R6)",
        "scal": "complex arm dispatches on the type of alpha (zscal / zdscal)"})
    cw.routine_name_rule(r1, c, wrappers)
    r1.require(28)

    r2 = chk.rule("C17-R2", "keyword list = parse format = address arguments = documented signature; defaults as documented",
                  "documented defaults / argument names")
    cw.signature_rule(r2, c, wrappers)
    cw.parse_target_rule(r2, c, wrappers)
    cw.naming_rule(r2, c, wrappers)
    rst_path = os.path.join(repo, "doc", "source", "blas.rst")
    rst = open(rst_path).read() if os.path.exists(rst_path) else ""
    for py, fn in table:
        if fn not in c.funcs:
            continue
        w = cm.Wrapper(c, fn)
        pp = w.py_params()
        where = "src/C/blas.c:%s" % fn
        if pp is None:
            continue
        if py != fn:
            r2.undecided("%s:python name" % fn, where, "exported as %s" % py)
        ds = doc_signature(c, fn)
        kws = [p[0] for p in pp]
        if ds is None:
            r2.undecided("%s:doc signature" % fn, where, "no signature line in doc_%s" % fn)
        else:
            dn = [a for a, _ in ds]
            if set(dn) != set(kws):
                # the doc string is not behaviour: a discrepancy with the accepted keywords is
                # reported as an observation (the manual's signature is checked below)
                r2.observe("doc_%s lists %s; accepted keywords differ by %s" % (fn, "", sorted(set(dn) ^ set(kws))))
            else:
                r2.ok("%s:doc names" % fn, where, "%d parameters" % len(dn))
            sim = cm.Simulator(c, fn)
            dflt = default_assignments(sim)
            for (dname, ddef) in ds:
                if ddef is None or dname not in kws or ddef == "None":
                    continue
                kw, var, unit, opt = pp[kws.index(dname)]
                if var is None:
                    continue
                key = "%s:default %s" % (fn, dname)
                init = w.locals.get(var, (None, None))[1]
                if unit == "C":   # parsed into an int twin `trans_`
                    pass
                if re.fullmatch(r"-?\d+", ddef) or re.fullmatch(r"'.'", ddef):
                    cinit = init
                    if cinit is not None and re.fullmatch(r"-?\d+|'.'", cinit):
                        if cinit == ddef:
                            r2.ok(key, where, "%s = %s" % (var, cinit))
                        else:
                            r2.violation(key, where, "documented default %s=%s but the C variable `%s` is initialised to %s" % (dname, ddef, var, cinit),
                                         ddef, cinit)
                    else:
                        r2.undecided(key, where, "initialiser of %s not a literal (%s)" % (var, cinit))
                elif var in dflt:
                    try:
                        want = cx.to_poly(cx.parse(doc_default_to_c(ddef)))
                        got = cx.to_poly(dflt[var])
                    except cx.ParseError:
                        want = got = None
                    if want is None or got is None:
                        r2.undecided(key, where, "default expression not comparable: %s" % ddef)
                    elif want == got:
                        r2.ok(key, where, "%s := %s" % (var, cx.unparse(dflt[var])))
                    elif _strip_max1(want) == _strip_max1(got):
                        r2.observe("%s: documented default %s=%s, code computes %s (differs only by max(1, .))"
                                   % (fn, dname, ddef, cx.unparse(dflt[var])))
                    elif "?" in ddef or "len(" in ddef or "/" in ddef:
                        r2.undecided(key, where, "documented default is prose-like: %s" % ddef[:50])
                    else:
                        r2.violation(key, where, "documented default `%s=%s` but the wrapper computes `%s = %s`" % (dname, ddef, var, cx.unparse(dflt[var])),
                                     doc_default_to_c(ddef), cx.unparse(dflt[var]))
        # rst prefix
        mm = re.search(r"^\.\. function:: cvxopt\.blas\.%s\((.*)\)\s*$" % re.escape(py), rst, re.M)
        if mm:
            sig = mm.group(1).replace("[", "").replace("]", "")
            names = [p.split("=")[0].strip() for p in cf.split_top(sig) if p.strip()]
            if names == kws[:len(names)]:
                r2.ok("%s:rst prefix" % fn, where, names)
            else:
                r2.violation("%s:rst prefix" % fn, "doc/source/blas.rst:%s" % py, "manual signature is not a prefix of the keyword list",
                             kws[:len(names)], names)
    r2.require(120)

    r5 = chk.rule("C17-R5", "rejecting guard == offset + reference footprint for every array handed to BLAS, in every case; offsets >= 0; ld >= max(1, rows)",
                  "operates inside the addressed footprint; inconsistent calls rejected, consistent ones accepted")
    stats = cw.footprint_rule(None, r5, repo, "blas.c", wrappers)
    for k, v in stats.items():
        chk.note_analysed(k, v)
    r5.require(300)

    r4 = chk.rule("C17-R4", "early return only where the reference operation leaves the output untouched (zero dimensions)",
                  "documented handling of zero dimensions")
    ext = set(c.externs)
    for fn in wrappers:
        sim = cm.Simulator(c, fn)
        # learn the parameter -> variable mapping from a case that reaches the main routine
        mapping = None
        base = None
        runs = []
        for case in sim.cases(mids=("DOUBLE",)):
            sites, end = sim.run(case, ext)
            runs.append((case, sites, end))
            for s in sites:
                b = kb.lookup(s.callee)
                if b in OUTPUT and b not in ("scal",) or (b == "scal" and fn == "scal"):
                    if mapping is None and len(kb.ROUTINES[b]) == len(s.args):
                        mp = {}
                        for (pname, role), a in zip(kb.ROUTINES[b], s.args):
                            if a is not None and role in ("dim", "ld", "inc", "flag"):
                                v = cg.scalar_var(a)
                                if v:
                                    mp[pname] = v
                        mapping, base = mp, b
        if mapping is None:
            continue
        n_checked = 0
        for case, sites, end in runs:
            if sites or end != "return":
                continue
            vals = {p: Poly.sym(v) for p, v in mapping.items()}
            flags = {p: case.flags[v] for p, v in mapping.items() if v in case.flags}
            zero = {p for p, v in mapping.items() if case.signs.get(v) == 0}
            for out in OUTPUT[base]:
                role = dict(kb.ROUTINES[base])[out]
                fp, why, _ = kb.footprint(role, dict(vals, **{"#": 0}), flags, zero)
                n_checked += 1
                key = "%s:early return [%r]" % (fn, " ".join("%s=0" % v for p, v in sorted(mapping.items()) if p in zero))
                if fp is None:
                    r4.ok(key, "src/C/blas.c:%s" % fn, "output %s empty" % out)
                elif fp == "?":
                    pass
                else:
                    r4.violation(key, "src/C/blas.c:%s" % fn,
                                 "the wrapper returns without calling BLAS in case [%r] although the output `%s` is not "
                                 "empty there and the reference operation still writes it (e.g. := beta * %s)" % (case, out, out),
                                 "reach the routine (or an equivalent scaling) whenever the output is non-empty", "early return")
    r4.require(20)

    r7 = chk.rule("C17-R7", "default of an omitted n in the level-1 wrappers = number of elements addressed from the offset with the stride",
                  "the documented defaults")
    nd = cw.default_length_rule(r7, c, wrappers)
    chk.note_analysed("default_length_expressions", nd)
    r7.require(12)

    r8 = chk.rule("C17-R8", "zero-dimension fallbacks (y := beta*y) of gemv / gbmv and of the generic base.gemv scale the same y by the same beta as the main call",
                  "the documented handling of zero dimensions")
    from .. import kb_blas as kbb
    nfb = cw.fallback_scale_rule(r8, c, "gemv", "gemv", kbb) + cw.fallback_scale_rule(r8, c, "gbmv", "gbmv", kbb)
    cb = cf.load_c(repo, files=["base.c"])["base.c"]
    nfb += cw.fallback_scale_rule(r8, cb, "base_gemv", "gemv", kbb)
    chk.note_analysed("scal_fallbacks", nfb)
    r8.require(6)

    r6 = chk.rule("C17-R6", "complex dot/dotu composed of the right four real dot products", "equals the mathematical definition")
    for fn, conj in (("dot", True), ("dotu", False)):
        if fn not in c.funcs:
            continue
        node = c.funcs[fn]
        terms = []
        for n in cf.walk(node):
            if n.get("k") == "CallExpr" and cf.callee_name(n) == "ddot_" and not n.get("bm"):
                span = c.paren_after(n["b"])
                a = cf.split_top(c.text(span[0] + 1, span[1]))
                px = 1 if re.search(r"\+\s*1\s*$", a[1]) else 0
                py_ = 1 if re.search(r"\+\s*1\s*$", a[3]) else 0
                # sign: the operator preceding the call in the source text
                pre = c.text(max(0, n["b"] - 40), n["b"])
                sign = "-" if re.search(r"-\s*$", pre) else "+"
                two = ("2*" in a[1].replace(" ", "")) and ("2*" in a[3].replace(" ", ""))
                terms.append((px, py_, sign, two, c.line_of(n["b"])))
        cplx = [t for t in terms if t[3]]
        uniq = sorted({(a, b, s) for a, b, s, _, _ in cplx})
        want = sorted([(0, 0, "+"), (1, 1, "+" if conj else "-"), (0, 1, "+"), (1, 0, "-" if conj else "+")])
        key = "%s:four-term table" % fn
        if uniq == want:
            r6.ok(key, "src/C/blas.c:%s" % fn, uniq)
        else:
            r6.violation(key, "src/C/blas.c:%s" % fn, "real/imaginary parts are not composed as the definition requires",
                         want, uniq)
    r6.require(2)
    from .. import cmisc_rules as mr5
    from .. import crefusal
    r9 = chk.rule("C17-R9", "the member of a parsed scalar handed to the routine is the one its parse type selects",
                  "calls whose types conflict are rejected: a complex alpha/beta is not accepted where the routine takes a real one")
    chk.note_analysed("scalar_member_uses", mr5.scalar_member_rule(r9, c, wrappers))
    r9.require(40)
    r10 = chk.rule("C17-R10", "no refusal of a wrapper is dead (repeats a test its block has already made)",
                   "inconsistent arguments are rejected: the check a message announces exists")
    chk.note_analysed("refusals_checked", crefusal.dead_refusal_rule(r10, c, wrappers))
    r10.require(150)
    from .. import w7_rules as w7
    r11 = chk.rule("C17-R11", "the default of ld<X> comes from X itself; every matrix read in a typed arm is tied to the switch subject by an id test; "
                   "'T' and 'C' choose the same dimensions",
                   "calls whose types conflict are rejected; the result equals the definition for every accepted flag")
    chk.note_analysed("ld_defaults", w7.ld_default_rule(r11, c, "blas.c", wrappers))
    chk.note_analysed("typed_arm_reads", w7.id_agreement_rule(r11, c, "blas.c", wrappers))
    chk.note_analysed("transpose_conditions", w7.transpose_pair_rule(r11, c, "blas.c", wrappers))
    r11.require(100)
    return chk
