# V3: labels are cut to 6 characters + '_i', so distinct names collide
from cvxopt.modeling import variable, op
# (a) variables: file becomes unreadable
a = variable(1, 'weight1'); b = variable(1, 'weight2')
lp = op(a + 2*b, [a >= 0, b >= 1])
lp.tofile('/var/tmp/fz/r3a.mps')
try:
    op().fromfile('/var/tmp/fz/r3a.mps'); print('(a) read ok')
except Exception as e: print('(a) fromfile raised', type(e).__name__, e)
# (b) constraints: silently merged into one wrong row
a = variable(1, 'a'); b = variable(1, 'b')
c1 = (a >= 0); c1.name = 'lower_a'; c2 = (b >= 1); c2.name = 'lower_b'
lp = op(a + 2*b, [c1, c2])
lp.tofile('/var/tmp/fz/r3b.mps')
lp2 = op(); lp2.fromfile('/var/tmp/fz/r3b.mps')
print('(b)', lp, '->', lp2)
from cvxopt import solvers; solvers.options['show_progress'] = False
lp.solve(); print('(b) original:', lp.status, lp.objective.value()[0])
try: lp2.solve(); print('(b) read back:', lp2.status)
except Exception as e: print('(b) read back: solve raised', type(e).__name__, e)
c = lp2.inequalities()[0]; print('(b) merged row:', {v.name: m[0] for v, m in c._f._linear._coeff.items()}, '<=', -c._f._constant[0])
# (c) no truncation needed: default label str(k) of an unnamed variable equals a user name
a = variable(1, '1'); b = variable(1)
lp = op(a + 2*b, [a >= 0, b >= 1])
lp.tofile('/var/tmp/fz/r3c.mps')
try:
    op().fromfile('/var/tmp/fz/r3c.mps'); print('(c) read ok')
except Exception as e: print('(c) fromfile raised', type(e).__name__, e)
# (d) the library's own test file cannot be written and read back
lp = op()
import io, contextlib
with contextlib.redirect_stdout(io.StringIO()): lp.fromfile('/tmp/wt5h/C14/tests/boeing2.mps')
lp.tofile('/var/tmp/fz/r3d.mps')
try:
    op().fromfile('/var/tmp/fz/r3d.mps'); print('(d) read ok')
except Exception as e: print('(d) boeing2 write/read raised', type(e).__name__, e)
