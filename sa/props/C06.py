"""C06 - the answer does not depend on problem presentation or solver path.
Only the structural clauses are decided: KKT-solver name validation before solving,
dispatch = validation, every dispatched factory callable as written, wrappers forward
kktsolver; start-point packing in the wrappers follows the block layout."""
import ast

from .. import pyfront as pf
from .. import rules_common as rc
from .. import solvers_common as sc
from ..core import Check, AnalysisError
from ..world import World, bind_call

DISPATCHERS = [("coneprog", "conelp"), ("coneprog", "coneqp"), ("cvxprog", "cpl"), ("cvxprog", "cp")]
FORWARDERS = [("coneprog", "lp", "conelp"), ("coneprog", "socp", "conelp"), ("coneprog", "sdp", "conelp"),
              ("coneprog", "qp", "coneqp"), ("cvxprog", "gp", "cp")]


def _const_tuple(e):
    if isinstance(e, (ast.Tuple, ast.List)) and all(isinstance(x, ast.Constant) and isinstance(x.value, str) for x in e.elts):
        return [x.value for x in e.elts]
    return None


def _const_leaves(v):
    """string constants a default expression can evaluate to (`'a' if c else 'b'` -> both)"""
    if isinstance(v, ast.Constant):
        return [v.value]
    if isinstance(v, ast.IfExp):
        return _const_leaves(v.body) + _const_leaves(v.orelse)
    return []


def build(tier, repo):
    chk = Check(
        "C06", tier, repo,
        explanation=(
            "Equality of results across dense/sparse storage, KKT solvers, start points, re-encodings and "
            "back-ends is a numerical statement and is NOT decided. Decided (last sentence of C06 and the "
            "'every KKT solver name the entry point accepts' clause): (R1) each dispatching entry point "
            "rejects an unsupported kktsolver string with ValueError in a statement that precedes every "
            "other use of the name, and its defaults are members of the accepted set; (R2) the set of "
            "names compared in the dispatch chain equals the validated set; (R3) each arm calls a factory "
            "that exists in cvxopt.misc with arguments its def accepts, and the factor routine it returns "
            "is later called with arguments it accepts; the rank pre-check raises ValueError before the "
            "factory is built; (R4) lp/socp/sdp/qp/gp forward kktsolver unchanged; (R5) the start-point "
            "packing of socp/sdp follows the block layout (offset discipline)."),
        trusted_base=["CPython ast", "sa/pyfront.py", "sa/world.py call binding"],
        assumptions=["the five kkt_* factories solve the same linear system (C07)"])
    w = World(repo, need_c=False)
    r1 = chk.rule("C06-R1", "unsupported kktsolver names are rejected with ValueError before any other use; defaults are accepted names",
                  "a KKT solver name an entry point does not support is rejected with ValueError before solving")
    r2 = chk.rule("C06-R2", "names handled by the dispatch chain == validated names", "every accepted name is dispatched to a solver")
    r3 = chk.rule("C06-R3", "every dispatch arm builds an existing misc.kkt_* factory with arguments it accepts; factor is called as its def allows; rank pre-check raises ValueError first",
                  "every KKT solver name the entry point accepts works")
    for mn, q in DISPATCHERS:
        m = w.mods[mn]
        fn = w.func(mn, q)
        where_fn = "src/python/%s.py:%s" % (mn, q)
        # the validation statement
        val = None
        accepted = None
        for s in fn.body:
            if isinstance(s, ast.If) and pf.always_exits(s.body) and isinstance(s.body[-1], ast.Raise):
                names = pf.names_in(s.test)
                if "kktsolver" in names and any(isinstance(c, ast.Compare) and isinstance(c.ops[0], ast.NotIn) for c in ast.walk(s.test)):
                    val = s
        if val is None:
            r1.violation("%s:validation" % q, where_fn, "no statement rejects an unsupported kktsolver name: a wrong string fails later with "
                         "TypeError: 'str' object is not callable", "if <is str>(kktsolver) and kktsolver not in <names>: raise ValueError", "absent")
            continue
        cmpn = [c for c in ast.walk(val.test) if isinstance(c, ast.Compare) and isinstance(c.ops[0], ast.NotIn)][0]
        setexpr = cmpn.comparators[0]
        if isinstance(setexpr, ast.Name):
            defs = [s for s in fn.body if isinstance(s, ast.Assign) and isinstance(s.targets[0], ast.Name) and s.targets[0].id == setexpr.id]
            if not defs:      # a module-level constant shared by several solvers
                defs = [s for s in m.tree.body if isinstance(s, ast.Assign) and isinstance(s.targets[0], ast.Name) and s.targets[0].id == setexpr.id]
            accepted = _const_tuple(defs[0].value) if len(defs) == 1 else None
        else:
            accepted = _const_tuple(setexpr)
        rz = val.body[-1]
        tgt = rz.exc.func if isinstance(rz.exc, ast.Call) else rz.exc
        if not (isinstance(tgt, ast.Name) and tgt.id == "ValueError"):
            r1.violation("%s:validation raises ValueError" % q, m.where(val, fn), "unsupported name is rejected with %s" % pf.norm_expr(tgt), "ValueError", pf.norm_expr(tgt))
        elif accepted is None:
            r1.undecided("%s:accepted set" % q, m.where(val, fn), "accepted names are not a literal tuple")
            continue
        else:
            r1.ok("%s:validation raises ValueError" % q, m.where(val, fn), accepted)
        # precedes every other use (except `is None` defaulting)
        early = []
        for n in ast.walk(fn):
            if isinstance(n, ast.Name) and n.id == "kktsolver" and isinstance(n.ctx, ast.Load) and n.lineno < val.lineno:
                st = pf.enclosing_stmt(n)
                top = st
                while getattr(top, "_parent", None) is not fn and getattr(top, "_parent", None) is not None:
                    top = top._parent
                if isinstance(top, ast.If) and pf.norm_expr(top.test) == "(kktsolver is None)":
                    continue
                par = getattr(n, "_parent", None)
                if isinstance(par, ast.Call) and pf.call_name(par) in ("type", "isinstance") or isinstance(par, ast.Compare):
                    continue      # type / identity tests do not use the value as a solver
                early.append(n.lineno)
        if early:
            r1.violation("%s:validation first" % q, m.where(val, fn), "kktsolver is used (line %s) before it is validated" % early[:3], "validation first", early[:3])
        else:
            r1.ok("%s:validation first" % q, m.where(val, fn))
        # defaults
        dfl = []
        for s in fn.body:
            if isinstance(s, ast.If) and pf.norm_expr(s.test) == "(kktsolver is None)":
                for a in ast.walk(s):
                    if isinstance(a, ast.Assign) and isinstance(a.targets[0], ast.Name) and a.targets[0].id == "kktsolver":
                        dfl.extend(_const_leaves(a.value))
        bad = [d for d in dfl if d not in accepted]
        if bad:
            r1.violation("%s:defaults accepted" % q, where_fn, "default kktsolver %s is not an accepted name" % bad, accepted, dfl)
        elif not dfl:
            r1.undecided("%s:defaults accepted" % q, where_fn, "no constant default found under `if kktsolver is None`")
        else:
            r1.ok("%s:defaults accepted" % q, where_fn, dfl)
        # dispatch chain
        chain = None
        for s in fn.body:
            if isinstance(s, ast.If) and "kktsolver" in pf.names_in(s.test) and s.lineno > val.lineno and \
                    any(isinstance(x, ast.Call) and (pf.call_name(x) or "").startswith("misc.kkt_") for x in ast.walk(s)):
                chain = s
                break
        if chain is None:
            raise AnalysisError("%s.%s: dispatch chain not found" % (mn, q))
        handled = []
        arms = []      # (name or None for else, factory call)
        node = None
        for s in chain.body:
            if isinstance(s, ast.If) and isinstance(s.test, ast.Compare) and pf.norm_expr(s.test.left) == "kktsolver":
                node = s
        while node is not None:
            nm = node.test.comparators[0].value if isinstance(node.test.comparators[0], ast.Constant) else None
            handled.append(nm)
            fc = [x for x in ast.walk(ast.Module(body=node.body, type_ignores=[])) if isinstance(x, ast.Call) and (pf.call_name(x) or "").startswith("misc.kkt_")]
            arms.append((nm, fc[0] if fc else None))
            if len(node.orelse) == 1 and isinstance(node.orelse[0], ast.If):
                node = node.orelse[0]
            else:
                fc = [x for x in ast.walk(ast.Module(body=node.orelse, type_ignores=[])) if isinstance(x, ast.Call) and (pf.call_name(x) or "").startswith("misc.kkt_")]
                if node.orelse:
                    arms.append((None, fc[0] if fc else None))
                node = None
        named = [h for h in handled if h]
        rest = [a for a in accepted if a not in named]
        has_else = any(nm is None for nm, _ in arms)
        if set(named) <= set(accepted) and (len(rest) == 0 or (len(rest) == 1 and has_else)):
            r2.ok("%s:dispatch covers %s" % (q, accepted), m.where(chain, fn), "explicit: %s, else: %s" % (named, rest))
        else:
            r2.violation("%s:dispatch covers accepted names" % q, m.where(chain, fn),
                         "the dispatch chain does not handle exactly the validated names", accepted, "explicit %s, else-arm %s" % (named, has_else))
        # each arm
        for nm, call in arms:
            label = nm or (rest[0] if rest else "else")
            key = "%s:arm '%s'" % (q, label)
            if call is None:
                r3.violation(key, m.where(chain, fn), "arm builds no KKT factory", "misc.kkt_*", "none")
                continue
            fname = pf.call_name(call).split(".")[1]
            expect = "kkt_" + label
            defs = w.py_def("misc", fname)
            if not defs:
                r3.violation(key, m.where(call, fn), "misc.%s does not exist" % fname, "a def in misc.py", "missing")
                continue
            if fname != expect:
                r3.violation(key + ":factory", m.where(call, fn), "name '%s' is dispatched to misc.%s" % (label, fname), "misc." + expect, fname)
                continue
            ok, msg, _ = bind_call(call, defs[0])
            if ok:
                r3.ok(key, m.where(call, fn), pf.norm_expr(call))
            else:
                r3.violation(key, m.where(call, fn), "misc.%s does not accept this call: %s" % (fname, msg), "binding call", pf.norm_expr(call))
        # rank pre-check before factories: a raise ValueError inside the chain before the first factory call
        first_factory = min((c.lineno for _, c in arms if c is not None), default=None)
        pre = [s for s in chain.body if isinstance(s, ast.If) and pf.always_exits(s.body) and s.lineno < (first_factory or 0)]
        if pre:
            rz = pre[0].body[-1]
            t = rz.exc.func if isinstance(rz, ast.Raise) and isinstance(rz.exc, ast.Call) else None
            if isinstance(t, ast.Name) and t.id == "ValueError":
                r3.ok("%s:rank pre-check raises ValueError before the factory is built" % q, m.where(pre[0], fn))
            else:
                r3.violation("%s:rank pre-check" % q, m.where(pre[0], fn), "pre-check does not raise ValueError", "ValueError", pf.norm_expr(rz))
    r1.require(10)
    r2.require(3)
    r3.require(12)

    r4 = chk.rule("C06-R4", "wrappers forward kktsolver unchanged to the validating entry point", "every presentation reaches the same validated dispatch")
    for mn, q, callee in FORWARDERS:
        m = w.mods[mn]
        fn = w.func(mn, q)
        target = w.func(mn, callee)
        calls = [c for c in ast.walk(fn) if isinstance(c, ast.Call) and pf.call_name(c) == callee]
        if not calls:
            raise AnalysisError("%s.%s: call to %s not found" % (mn, q, callee))
        for c in calls:
            ok, msg, mp = bind_call(c, target)
            v = mp.get("kktsolver")
            key = "%s -> %s" % (q, callee)
            if ok and isinstance(v, ast.Name) and v.id == "kktsolver":
                r4.ok(key, m.where(c, fn))
            else:
                r4.violation(key, m.where(c, fn), "%s does not pass its kktsolver argument through to %s" % (q, callee),
                             "kktsolver = kktsolver", pf.norm_expr(v) if v is not None else msg or "missing")
    r4.require(5)

    r5 = chk.rule("C06-R5", "start-point / data packing in socp, sdp follows the block layout (offset discipline)", "valid user start points are interpreted block by block")
    rc.offsets_rule(r5, w, [("coneprog", "socp"), ("coneprog", "sdp")])
    # conelp: only the start-up phase (interpretation / completion of the start points)
    cl = w.func("coneprog", "conelp")
    loop = sc.main_loop(cl)
    rc.offsets_rule(r5, w, [("coneprog", "conelp")], node_filter=lambda n: getattr(n, "lineno", 10**9) < loop.lineno)
    r5.require(12)

    r6 = chk.rule("C06-R6", "the KKT factories behind the solver names assemble the same reduced matrix: symmetrisation after the last "
                            "lower-triangular contribution, work matrices fully redefined per factorisation",
                  "every KKT solver name the entry point accepts gives the same answer")
    from .C07 import factory_state_rule, exclusive_contribution_rule, paired_calls_rule
    factory_state_rule(r6, w)
    exclusive_contribution_rule(r6, w)
    paired_calls_rule(r6, w)
    r6.require(6)
    return chk
