# V1: three-digit exponents overflow the 12-column number field and are truncated on read-back
from cvxopt.modeling import variable, op
x = variable(1, 'x'); y = variable(1, 'y')
lp = op(x + y, [1e100*x + y <= 1e-100, x >= -1, y >= -1])
lp.tofile('/var/tmp/fz/r1.mps')
print([l.rstrip() for l in open('/var/tmp/fz/r1.mps') if '+100' in l or '-100' in l])
lp2 = op(); lp2.fromfile('/var/tmp/fz/r1.mps')
c = lp2.inequalities()[0]
print('coefficient of x read back:', [m[0] for v, m in c._f._linear._coeff.items() if v.name == 'x_0'][0], '(expected 1e+100)')
print('rhs read back:', -c._f._constant[0], '(expected 1e-100)')
