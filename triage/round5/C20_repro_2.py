# in-place "*=" with an empty matrix operand silently performs a matrix product and rebinds
from cvxopt import matrix
B = matrix(1.0, (2,2)); A = B
A *= matrix(1.0, (2,0))
print(A is B, A.size, B.size)          # expected: TypeError (or A is B); actual: False (2,0) (2,2)
B = matrix(1.0, (2,0)); A = B
A *= matrix(1.0, (0,2))
print(A is B, A.size, B.size)          # actual: False (2,2) (2,0)
