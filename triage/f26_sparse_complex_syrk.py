"""F-26 witness (triage only): base.syrk with a complex sparse operand called the NULL entry of
the dispatch table sp_syrk[] = { NULL, sp_dsyrk, NULL }: SIGSEGV.  After the fix the call is
refused with NotImplementedError."""
from cvxopt import spmatrix, matrix, base
A = spmatrix([1+1j, 2.], [0, 1], [0, 1], (2, 2))
C = spmatrix([1+0j, 1.], [0, 1], [0, 1], (2, 2))
try:
    base.syrk(A, C)
    print("returned")
except NotImplementedError as e:
    print("refused:", e)
