# byte counts are computed in 32-bit int: matrices of >= 2 GiB cannot be exported / written / read
from cvxopt import matrix
A = matrix(0.0, (2**28, 1))            # 2 GiB of doubles (calloc'ed, untouched pages)
m = memoryview(A)
print('shape', m.shape, 'nbytes', m.nbytes)          # expected 2147483648, actual -2147483648
for name, f in [('tobytes', lambda: len(m.tobytes())), ('bytes(A)', lambda: len(bytes(A)))]:
    try: print(name, f())
    except BaseException as e: print(name, type(e).__name__, e)
class W:
    def write(self, b): return len(b)
class R:
    def read(self, n): return bytes(n)                # returns exactly the n bytes asked for
try: A.tofile(W()); print('tofile ok')
except BaseException as e: print('tofile', type(e).__name__, e)
try: A.fromfile(R()); print('fromfile ok')
except BaseException as e: print('fromfile', type(e).__name__, e)
