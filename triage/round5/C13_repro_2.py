# C13 / repro 2: reassigning the objective to a constant (feasibility problem) makes
# solve() raise KeyError when the problem has a single variable in matrix form, or
# when all variables together have length 1.
from cvxopt import matrix, solvers
from cvxopt.modeling import variable, op
solvers.options['show_progress'] = False

x = variable(1, 'x')
p = op(x, [x >= 0, x <= 1])
p.solve(); print('min x      :', p.status, p.objective.value()[0])   # optimal 0
p.objective = 3.0
print('variables  :', p.variables(), ' objective vars:', p.objective.variables())
try:
    p.solve(); print('min 3.0    :', p.status, p.objective.value()[0])   # expected optimal 3.0
except Exception as e:
    print('min 3.0    : %s: %r' % (type(e).__name__, e))

# two scalar variables: the same edit works
x = variable(1, 'x'); y = variable(1, 'y')
p = op(x + y, [x >= 0, x <= 1, y >= 0, y <= 1]); p.objective = 3.0
p.solve(); print('two vars   :', p.status, p.objective.value()[0])

# vector variable already in matrix form
x = variable(2, 'x')
G = matrix([[1., 0., -1., 0.], [0., 1., 0., -1.]]); h = matrix(1., (4, 1))
p = op(0.0, [G*x <= h])
try:
    p.solve(); print('matrix form:', p.status, p.objective.value()[0])
except Exception as e:
    print('matrix form: %s: %r' % (type(e).__name__, e))
