"""C02 - infeasibility statuses carry valid Farkas certificates (structural part)."""
import ast

from .. import pyfront as pf
from .. import rules_common as rc
from .. import solvers_common as sc
from .. import termination as tm
from ..core import Check, AnalysisError
from ..world import World

CERT = {
    "primal infeasible": dict(
        res_key="residual as primal infeasibility certificate", kept=("y", "z"), dropped=("x", "s"),
        none_keys=("gap", "relative gap", "primal objective", "primal infeasibility", "dual infeasibility",
                   "primal slack", "residual as dual infeasibility certificate"),
        const=("dual objective", 1.0), slack=("dual slack", "z")),
    "dual infeasible": dict(
        res_key="residual as dual infeasibility certificate", kept=("x", "s"), dropped=("y", "z"),
        none_keys=("gap", "relative gap", "dual objective", "primal infeasibility", "dual infeasibility",
                   "dual slack", "residual as primal infeasibility certificate"),
        const=("primal objective", -1.0), slack=("primal slack", "s")),
}


def build(tier, repo):
    chk = Check(
        "C02", tier, repo,
        explanation=(
            "Static analysis of the certificate branches of coneprog.conelp and their propagation through "
            "lp/socp/sdp and modeling.op.solve. Decides structural necessary conditions of C02: (R1) a "
            "certificate status is returned only under `res is not None and res <= feastol` for the very "
            "residual it reports; that residual is defined by dividing by the same positive quantity whose "
            "reciprocal scales the returned vectors (normalisation h'z+b'y = -1 resp. c'x = -1), under the "
            "sign test of that quantity; (R2) the other half of the solution and the documented fields are "
            "None, the fixed objective is +-1; (R3) returned cone vector symmetrised, slack recomputed and "
            "reported; block-offset discipline; (R4) wrappers test for None before slicing and op.solve "
            "propagates status/values. NOT decided: numerical validity of the certificate."),
        trusted_base=["CPython ast", "sa/pyfront.py", "sa/offsets.py"],
        assumptions=["kernels compute their documented operation"])
    w = World(repo)
    m = w.mods["coneprog"]
    fn = w.func("coneprog", "conelp")
    loop = sc.main_loop(fn)
    opts = tm.option_names(fn)
    feas = opts["feastol"][0]
    rets, cfg = tm.result_returns(fn)
    r1 = chk.rule("C02-R1", "certificate returns dominated by their residual test; residual normalised by the quantity that scales the certificate, under its sign test",
                  "returned only with residual <= feastol; h'z+b'y = -1 / c'x = -1")
    r2 = chk.rule("C02-R2", "None-ness of the other half and of the documented fields; fixed objective value",
                  "x,s None (resp. y,z None); certificate is self-contained")
    r3 = chk.rule("C02-R3", "certificate cone vector symmetrised, slack recomputed and reported, after the normalising scaling",
                  "z (resp. s) lies in the cone; reported slack equals the recomputed one")
    found = set()
    for r, items, sv in rets:
        for status, spec in CERT.items():
            if sv != {status}:
                continue
            found.add(status)
            where = m.where(r, fn)
            key = "conelp:%s" % status
            resn = tm.name_of(items.get(spec["res_key"]))
            if not isinstance(resn, str):
                r1.violation(key + ":reported", where, "certificate residual field is not a plain variable", "name", pf.norm_expr(items.get(spec["res_key"])))
                continue
            conds = pf.path_condition(r, stop=loop)
            prem = pf.P_and(*conds) if conds else pf.P_TRUE
            goal = pf.P_and(pf.P_not(pf.P_atom("(%s is None)" % resn)), tm.atom_le(resn, feas))
            res = pf.implies(prem, goal)
            if res is True:
                r1.ok(key + ":guard", where, repr(goal))
            else:
                r1.violation(key + ":guard", where, "status '%s' returned on a path that does not imply the "
                             "certificate test on the reported residual" % status, repr(goal), repr(prem))
            # the residual's definition: `res = <expr> / D` under `if <sign test of D>`
            defs = [a for a in pf._scope_nodes(fn) if isinstance(a, ast.Assign) and isinstance(a.targets[0], ast.Name)
                    and a.targets[0].id == resn and pf._within(a, loop)]
            nonnull = [a for a in defs if not (isinstance(a.value, ast.Constant) and a.value.value is None)]
            stop_if = _enclosing_branch(r, loop)
            pre = sc.preceding_in_blocks(r, stop_if)
            scal_factors = {}
            rconds = sorted(repr(c_) for c_ in pf.path_condition(r, stop=loop))
            for st in pre:
                for c in ast.walk(st):
                    if isinstance(c, ast.Call) and pf.call_name(c) in ("xscal", "yscal", "blas.scal") and len(c.args) >= 2 \
                            and isinstance(c.args[1], ast.Name):
                        scal_factors.setdefault(c.args[1].id, []).append(c.args[0])
                        cconds = sorted(repr(c_) for c_ in pf.path_condition(c, stop=loop))
                        if cconds != rconds:
                            extra = [x for x in cconds if x not in rconds]
                            r1.violation(key + ":scaling of %s unconditional" % c.args[1].id, m.where(c, fn),
                                         "the normalising scaling of `%s` only runs under the extra condition %s while the certificate is returned "
                                         "regardless: on the other paths the returned vectors are scaled inconsistently" % (c.args[1].id, extra),
                                         "scaled on every path to the return", extra)
                        else:
                            r1.ok(key + ":scaling of %s unconditional" % c.args[1].id, m.where(c, fn))
                    # max_step with a sigma argument replaces the 's' blocks of its first argument by eigenvectors
                    if isinstance(c, ast.Call) and pf.call_name(c) == "misc.max_step" and c.args and isinstance(c.args[0], ast.Name) \
                            and (len(c.args) >= 4 or any(k_.arg == "sigma" for k_ in c.keywords)):
                        kept_names = {items[kk].id for kk in spec["kept"] if isinstance(items.get(kk), ast.Name)}
                        if c.args[0].id in kept_names:
                            r3.violation(key + ":max_step destroys %s" % c.args[0].id, m.where(c, fn),
                                         "misc.max_step is called with a sigma argument on the returned vector `%s`: it overwrites the 's' blocks with "
                                         "eigenvectors, so the certificate handed back is not the vector that was tested" % c.args[0].id,
                                         "misc.max_step(%s, dims) without sigma" % c.args[0].id, pf.norm_expr(c)[:70])
            if len(nonnull) != 1 or not (isinstance(nonnull[0].value, ast.BinOp) and isinstance(nonnull[0].value.op, ast.Div)):
                r1.undecided(key + ":normalisation", where, "residual definition is not `expr / D`")
            else:
                D = nonnull[0].value.right
                Dn = pf.norm_expr(D)
                want = "(1.0 / %s)" % Dn
                bad = []
                for kk in spec["kept"]:
                    obj = items.get(kk)
                    def _resolved(f_):
                        # a factor held in a local that is assigned exactly once (`pscale = 1.0/(-hz - by)`) stands for that expression
                        if isinstance(f_, ast.Name):
                            defs_ = [a_ for a_ in pf._scope_nodes(fn) if isinstance(a_, ast.Assign) and len(a_.targets) == 1
                                     and isinstance(a_.targets[0], ast.Name) and a_.targets[0].id == f_.id]
                            if len(defs_) == 1:
                                return pf.norm_expr(defs_[0].value)
                        return pf.norm_expr(f_)
                    fs = [_resolved(f) for f in scal_factors.get(obj.id, [])] if isinstance(obj, ast.Name) else []
                    if fs != [want]:
                        bad.append("%s scaled by %s" % (kk, fs))
                if bad:
                    r1.violation(key + ":normalisation", where,
                                 "the returned certificate vectors are not scaled by the reciprocal of the "
                                 "quantity the reported residual is divided by (the certificate would not be "
                                 "normalised to -1, or the residual would refer to differently scaled vectors)",
                                 "each of %s scaled once by %s" % (spec["kept"], want), bad)
                else:
                    r1.ok(key + ":normalisation", where, "%s scaled by %s; residual / %s" % (spec["kept"], want, Dn))
                # sign test: the definition sits under a condition that makes D positive
                dc = pf.path_condition(nonnull[0], stop=loop)
                dtxt = " ".join(repr(c) for c in dc)
                inner = pf.names_in(D)
                if dc and inner and all(nm in dtxt for nm in inner):
                    r1.ok(key + ":sign-test", m.where(nonnull[0], fn), dtxt[:100])
                else:
                    r1.violation(key + ":sign-test", m.where(nonnull[0], fn),
                                 "the certificate residual is computed without a test on the sign of its divisor",
                                 "definition guarded by a test of %s" % Dn, dtxt[:100])
            # R2
            bad = []
            for kk in spec["dropped"] + spec["none_keys"]:
                v = items.get(kk)
                if not (isinstance(v, ast.Constant) and v.value is None):
                    bad.append("%s=%s" % (kk, pf.norm_expr(v) if v is not None else "<absent>"))
            ck, cv = spec["const"]
            v = items.get(ck)
            cval = None
            try:
                cval = ast.literal_eval(v) if v is not None else None
            except Exception:
                pass
            if cval != cv:
                bad.append("%s=%s" % (ck, pf.norm_expr(v) if v is not None else "<absent>"))
            if bad:
                r2.violation(key + ":fields", where, "fields of the certificate result deviate from the documented table",
                             "None for %s; %s = %s" % (spec["dropped"] + spec["none_keys"], ck, cv), bad)
            else:
                r2.ok(key + ":fields", where, "%d None fields, %s = %s" % (len(spec["dropped"] + spec["none_keys"]), ck, cv))
            # R3
            facts, seq = tm.finalisation(r, stop_if, None)
            sk, vk = spec["slack"]
            obj = items.get(vk)
            f = facts.get(obj.id, {}) if isinstance(obj, ast.Name) else {}
            sy, ms, scl = f.get("symm", []), f.get("max_step", []), f.get("scal", [])
            rep = tm.name_of(items.get(sk))
            if not sy:
                r3.violation(key + ":symm", where, "'s' blocks of the certificate vector %s are not symmetrised" % vk, "misc.symm in a loop over dims['s']", "absent")
            elif not ms or not (isinstance(rep, tuple) and rep[1] == ms[-1][1]):
                r3.violation(key + ":slack", where, "'%s' does not report the negated max_step of the returned %s" % (sk, vk),
                             "-<max_step result>", pf.norm_expr(items.get(sk)))
            elif scl and not (max(i for i, _ in scl) < min(min(i for i, _ in sy), ms[-1][0])):
                r3.violation(key + ":order", where, "normalising scaling must precede symmetrisation and max_step", "scal first", "out of order")
            else:
                r3.ok(key + ":finalised", where, "scal -> symm -> max_step -> '%s'" % sk)
    if found != set(CERT):
        raise AnalysisError("conelp: certificate returns found only for %s" % sorted(found))
    tm.check_residual_normalisers(r1, w, "coneprog", "conelp")
    r1.require(6)
    r2.require(2)
    r3.require(2)

    r3b = chk.rule("C02-R3b", "block-offset discipline in conelp (certificate branches included)", "symmetrisation addresses the right blocks")
    rc.offsets_rule(r3b, w, [("coneprog", "conelp")])
    r3b.require(28)

    r4 = chk.rule("C02-R4", "propagation: socp/sdp test sol['s'|'z'] for None before slicing and store None in the derived keys; lp returns conelp's result; op.solve copies status and values",
                  "status/None propagate into wrappers and op.solve")
    for q, pieces in (("socp", ("l", "q")), ("sdp", ("l", "s"))):
        f2 = w.func("coneprog", q)
        for vec in ("s", "z"):
            tests = [i for i in pf._scope_nodes(f2) if isinstance(i, ast.If) and pf.norm_expr(i.test) == "(sol['%s'] is None)" % vec]
            key = "%s:sol['%s'] None branch" % (q, vec)
            if len(tests) != 1:
                r4.violation(key, m.where(f2, f2), "no (single) `if sol['%s'] is None` test" % vec, "1 test", len(tests))
                continue
            stored = {}
            for s in tests[0].body:
                if isinstance(s, ast.Assign) and isinstance(s.targets[0], ast.Subscript) and isinstance(s.value, ast.Constant) and s.value.value is None:
                    stored[pf.norm_expr(s.targets[0])] = True
            want = ["sol['%s%s']" % (vec, p) for p in pieces]
            if all(x in stored for x in want):
                r4.ok(key, m.where(tests[0], f2), want)
            else:
                r4.violation(key, m.where(tests[0], f2), "derived keys are not set to None for a None %s" % vec, want, sorted(stored))
    lp = w.func("coneprog", "lp")
    last = lp.body[-1]
    if isinstance(last, ast.Return) and isinstance(last.value, ast.Call) and pf.call_name(last.value) == "conelp":
        r4.ok("lp:returns conelp(...) unchanged", m.where(last, lp))
    else:
        r4.violation("lp:returns conelp(...) unchanged", m.where(last, lp), "lp post-processes conelp's result", "return conelp(...)", pf.norm_expr(last)[:60])
    mm = w.mods["modeling"]
    sv = w.func("modeling", "op.solve")
    from .. import rules_common as rc5
    assigns = rc5.alias_resolved_assigns(sv, within_top_level_only=True)
    for tgt, val in (("self.status", "sol['status']"), ("x.value", "sol['x']"),
                     ("inequalities[0].multiplier.value", "sol['z']")):
        if assigns.get(assigns["__resolve__"](tgt)) == val:
            r4.ok("op.solve:%s = %s" % (tgt, val), mm.where(sv, sv))
        else:
            r4.violation("op.solve:%s = %s" % (tgt, val), mm.where(sv, sv), "op.solve does not copy %s from the solver result on its straight-line path" % val, val, assigns.get(tgt))
    r4.require(7)
    from .. import solver_rules as sr5
    r5 = chk.rule("C02-R5", "a supplied dual start is validated like a supplied primal start (mirror-image tests)",
                  "a certificate is never manufactured from a starting z outside the cone")
    chk.note_analysed("start_validations", sr5.start_mirror_rule(r5, w, [("coneprog", "conelp")]))
    r5.require(1)
    return chk


def _enclosing_branch(ret, loop):
    """the If whose branch directly holds the certificate epilogue (innermost If within loop)"""
    p = ret
    while p is not None and p is not loop:
        q = getattr(p, "_parent", None)
        if isinstance(q, ast.If):
            return q
        p = q
    return loop
