# the documented default value None is refused when passed explicitly
from cvxopt import matrix, lapack
A = lambda: matrix([[4.0,1.0],[1.0,3.0]]); B = lambda: matrix([1.0,2.0])
def tr(label, f):
    try: print("%-40s ->" % label, f())
    except Exception as e: print("%-40s %s: %s" % (label, type(e).__name__, e))
tr("gesv(A, B)", lambda: lapack.gesv(A(), B()))
tr("gesv(A, B, ipiv=None)", lambda: lapack.gesv(A(), B(), ipiv=None))
tr("sysv(A, B, None, 'U')", lambda: lapack.sysv(A(), B(), None, 'U'))
tr("hesv(A, B, ipiv=None)", lambda: lapack.hesv(A(), B(), ipiv=None))
tr("gbsv(AB, 0, B, ipiv=None)", lambda: lapack.gbsv(matrix([4.0,3.0],(1,2)), 0, B(), ipiv=None))
tr("gees(A)", lambda: lapack.gees(A()))
tr("gees(A, select=None)", lambda: lapack.gees(A(), select=None))
tr("gees(A, None, V)", lambda: lapack.gees(A(), None, matrix(0.0,(2,2))))
tr("gges(A, B, select=None)", lambda: lapack.gges(A(), A()+1, select=None))
tr("gges(A, B, a=None, b=None)", lambda: lapack.gges(A(), A()+1, a=None, b=None))
