# Feasibility problem / zero cost with a single scalar variable: KeyError in solve()
from cvxopt import matrix, solvers
from cvxopt.modeling import variable, op
solvers.options['show_progress'] = False
def t(name, mk):
    try:
        p, x = mk(); p.solve(); print(name, '->', p.status, list(x.value))
    except Exception as e:
        print(name, '->', type(e).__name__, e)
def a():
    x = variable(1); return op(0, [x <= 2, x >= 1]), x          # expected: optimal, 1 <= x <= 2
def b():
    x = variable(1); return op(x - x, [abs(x) <= 5]), x          # expected: optimal
def c():   # single-variable shortcut path: objective has no entry for x
    x = variable(1); return op(0, [x <= 2]), x                   # expected: optimal, some x <= 2
def d():   # same as (a) with a 2-vector: works
    x = variable(2); return op(0, [x <= 2, x >= 1]), x
t('op(0,[x<=2,x>=1]) len 1', a)
t('op(x-x,[abs(x)<=5])    ', b)
t('op(0,[x<=2])           ', c)
t('op(0,[x<=2,x>=1]) len 2', d)
