import cvxopt
from cvxopt import base
print("emax", base.emax(2**40, 1), "expected", 2**40)
print("emul", base.emul(2**20, 2**20), "expected", 2**40)
print("max", cvxopt.max(2**40, 1))
print("mul", cvxopt.mul(2**20, 2**20))
from cvxopt import matrix
print("matrix path", cvxopt.mul(matrix([2**20]), matrix([2**20, 3]))[0])
