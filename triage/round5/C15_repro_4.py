# x / M and x % M with M a 1x1 matrix never check what x is
import subprocess, sys
for s in ["r = None / matrix(2.0); print(type(r).__name__, r.size, r.typecode)",
          "r = {} / matrix(2.0); print(type(r).__name__, r.size, r.typecode)",
          "r = object() / matrix(2.0)",
          "r = (1, 2) / matrix(2.0)",
          "r = [1, 2] % matrix(2)"]:
    r = subprocess.run([sys.executable, "-c", "from cvxopt import matrix\n" + s], capture_output=True, text=True)
    print(s, "->", r.stdout.strip(), (r.stderr.strip().splitlines() or [""])[-1], "rc", r.returncode)
# expected in every case: TypeError: unsupported operand type(s)
