# C13 / repro 1: deleting a constraint turns a solvable LP into one that solve() refuses.
# _inmatrixform() takes its "already in matrix form" shortcut for any single-variable
# problem with <=1 inequality and <=1 equality, without checking that the stored
# coefficient really is the len(c) x len(x) matrix (it may be a 1x1 scalar or a 1xn
# broadcast row) or that the constant term has full length.
from cvxopt import matrix, solvers
from cvxopt.modeling import variable, op, sum
solvers.options['show_progress'] = False

x = variable(2, 'x')
box = (x <= 3)                 # scalar coefficient 1.0 stored as a 1x1 matrix
cut = (x[0] + x[1] <= 4)
p = op(-sum(x), [box, cut])
p.solve(); print('with cut   :', p.status, p.objective.value()[0])      # optimal -4
p.delconstraint(cut)
try:
    p.solve(); print('without cut:', p.status, p.objective.value()[0])  # expected optimal -6
except Exception as e:
    print('without cut: %s: %s' % (type(e).__name__, e))

# same mechanism, other shapes
def show(label, q):
    try:
        q.solve(); print(label, '->', q.status, q.objective.value()[0])
    except Exception as e:
        print(label, '-> %s: %s' % (type(e).__name__, e))
G = matrix([[1., 0., -1., 0.], [0., 1., 0., -1.]])
x = variable(2)
show('G*x <= 1 (scalar rhs)         expect -2', op(sum(x), [G*x <= 1]))
x = variable(2)
show('G*x <= h and x == 1           expect  2', op(sum(x), [G*x <= matrix(5., (4, 1)), x == 1]))
x = variable(1)
show('x >= [1,2,3] with x scalar    expect  3', op(x, [x >= matrix([1., 2., 3.])]))
x = variable(1)
show('x == 1 and 0*x <= 1           expect  1', op(x, [x == 1, 0*x <= 1]))
