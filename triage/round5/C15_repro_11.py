# a sequence whose __len__ is larger than what it yields crashes the constructor
import subprocess, sys
code = '''
from cvxopt import matrix
class S:
    def __len__(self): return 5
    def __getitem__(self, i):
        if i < 2: return i
        raise IndexError
print(list(matrix(S())))
'''
r = subprocess.run([sys.executable, "-c", code]); print("return code", r.returncode, "(-11 = SIGSEGV)")
