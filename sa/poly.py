"""Integer polynomials over opaque symbols (normal form: {monomial: coeff}, monomial =
tuple of (symbol, power) sorted).  Used for block-offset strides/extents (Python side)
and for buffer-length guards vs reference footprints (C side)."""
from fractions import Fraction


class Poly:
    __slots__ = ("t",)

    def __init__(self, terms=None):
        self.t = {k: v for k, v in (terms or {}).items() if v != 0}

    @staticmethod
    def const(c):
        return Poly({(): Fraction(c)})

    @staticmethod
    def sym(name):
        return Poly({((name, 1),): Fraction(1)})

    def __add__(self, o):
        o = _lift(o)
        r = dict(self.t)
        for k, v in o.t.items():
            r[k] = r.get(k, 0) + v
        return Poly(r)

    __radd__ = __add__

    def __neg__(self):
        return Poly({k: -v for k, v in self.t.items()})

    def __sub__(self, o):
        return self + (-_lift(o))

    def __rsub__(self, o):
        return _lift(o) - self

    def __mul__(self, o):
        o = _lift(o)
        r = {}
        for k1, v1 in self.t.items():
            for k2, v2 in o.t.items():
                d = dict(k1)
                for s, p in k2:
                    d[s] = d.get(s, 0) + p
                k = tuple(sorted(d.items()))
                r[k] = r.get(k, 0) + v1 * v2
        return Poly(r)

    __rmul__ = __mul__

    def __pow__(self, n):
        r = Poly.const(1)
        for _ in range(int(n)):
            r = r * self
        return r

    def __eq__(self, o):
        return isinstance(o, Poly) and self.t == o.t

    def __hash__(self):
        return hash(tuple(sorted(self.t.items())))

    def is_const(self):
        return all(k == () for k in self.t)

    def const_value(self):
        return self.t.get((), Fraction(0))

    def symbols(self):
        return {s for k in self.t for s, _ in k}

    def nonneg_coeffs(self):
        return all(v >= 0 for v in self.t.values())

    def subs(self, mapping):
        """mapping: symbol -> Poly"""
        r = Poly()
        for k, v in self.t.items():
            term = Poly.const(v)
            for s, p in k:
                term = term * (mapping[s] ** p if s in mapping else Poly.sym(s) ** p)
            r = r + term
        return r

    def __repr__(self):
        if not self.t:
            return "0"
        parts = []
        for k, v in sorted(self.t.items(), key=lambda kv: (-sum(p for _, p in kv[0]), kv[0])):
            mono = "*".join(s if p == 1 else "%s^%d" % (s, p) for s, p in k)
            c = v
            cs = str(c.numerator) if c.denominator == 1 else str(c)
            if not mono:
                parts.append(cs)
            elif c == 1:
                parts.append(mono)
            elif c == -1:
                parts.append("-" + mono)
            else:
                parts.append(cs + "*" + mono)
        return " + ".join(parts).replace("+ -", "- ")


def _lift(x):
    return x if isinstance(x, Poly) else Poly.const(x)


# ---- from Python ast --------------------------------------------------------------------
import ast


def from_pyast(e, env=None):
    """Python expression -> Poly, or None if not polynomial.  Sub-expressions that are
    not arithmetic become opaque symbols named by their normalised text.  env maps a
    Name to a Poly (single-assignment aliases)."""
    env = env or {}
    if isinstance(e, ast.Constant):
        if isinstance(e.value, bool) or not isinstance(e.value, (int, float)):
            return None
        if isinstance(e.value, float) and e.value != int(e.value):
            return None
        return Poly.const(int(e.value))
    if isinstance(e, ast.Name):
        if e.id in env:
            return env[e.id]
        return Poly.sym(e.id)
    if isinstance(e, ast.UnaryOp) and isinstance(e.op, ast.USub):
        p = from_pyast(e.operand, env)
        return None if p is None else -p
    if isinstance(e, ast.UnaryOp) and isinstance(e.op, ast.UAdd):
        return from_pyast(e.operand, env)
    if isinstance(e, ast.BinOp):
        if isinstance(e.op, (ast.Add, ast.Sub, ast.Mult)):
            l, r = from_pyast(e.left, env), from_pyast(e.right, env)
            if l is None or r is None:
                return None
            if isinstance(e.op, ast.Add):
                return l + r
            if isinstance(e.op, ast.Sub):
                return l - r
            return l * r
        if isinstance(e.op, ast.Pow) and isinstance(e.right, ast.Constant) \
                and isinstance(e.right.value, int) and 0 <= e.right.value <= 6:
            l = from_pyast(e.left, env)
            return None if l is None else l ** e.right.value
        if isinstance(e.op, (ast.FloorDiv, ast.Div)) and isinstance(e.right, ast.Constant) \
                and isinstance(e.right.value, int) and e.right.value != 0:
            l = from_pyast(e.left, env)
            return None if l is None else l * Poly.const(Fraction(1, e.right.value))
    # opaque atom
    try:
        txt = ast.unparse(e)
    except Exception:
        return None
    return Poly.sym(" ".join(txt.split()))
