# her2k accepts a complex beta ("beta must be real") and silently drops its imaginary part
from cvxopt import matrix, blas
A = matrix(0j, (2, 1)); C = matrix([1+0j, 2+1j, 0, 3+0j], (2, 2))
print("her2k beta=2+5j ->", blas.her2k(A, A, C, beta=2+5j), list(C))     # equals beta=2
C = matrix([1+0j, 2+1j, 0, 3+0j], (2, 2))
try: blas.herk(A, C, beta=2+5j)
except Exception as e: print("herk  beta=2+5j ->", type(e).__name__, e)
