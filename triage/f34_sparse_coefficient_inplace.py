# F-34: x + x[0], x + sum(x), 2*x + x[1], x + S*x raised TypeError("invalid inplace operation"): _lin._addterm did
# `m[::n+1] += c[0]` on a coefficient that is sparse (x[0], sum(x), S*x have sparse coefficients).
from cvxopt import matrix, sparse, spmatrix
from cvxopt.modeling import variable, sum as msum, dot
x = variable(3,'x'); x.value = matrix([1.,2.,3.])
f = msum(x)
print({k.name:(type(c).__name__, c.typecode, c.size) for k,c in f._linear._coeff.items()})
def t(label, th):
    try:
        r = th(); print(label, "len", len(r), list(r.value()))
    except Exception as e: print(label, "->", repr(e))
t("x + sum(x)", lambda: x + msum(x))
t("sum(x) + x", lambda: msum(x) + x)
t("x + dot(c,x)", lambda: x + dot(matrix([1.,1.,1.]), x))
t("x + x[0]", lambda: x + x[0])
t("x - x[0]", lambda: x - x[0])
t("x[0] + x", lambda: x[0] + x)
t("2*x + x[1]", lambda: 2*x + x[1])
S = sparse(matrix([1.,0,2.,0,1.,0,0,0,3.],(3,3)))
t("x + S*x", lambda: x + S*x)
t("S*x + x", lambda: S*x + x)
t("S*x + x[0]", lambda: S*x + x[0])
t("x[0] + S*x", lambda: x[0] + S*x)
R = sparse(matrix([1.,0.,2.],(1,3)))
t("x + R*x", lambda: x + R*x)
t("R*x + x", lambda: R*x + x)
