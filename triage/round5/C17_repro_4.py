# Level-3 routines with k=0 skip the leading-dimension test: an illegal ld reaches BLAS, which prints an
# error and returns; C := beta*C is not performed and no exception is raised.
from cvxopt import matrix, blas
E = matrix(0.0, (0, 0))
C = matrix(1.0, (3, 2)); r = blas.gemm(E, E, C, beta=2.0, m=3, n=2, k=0);  print("gemm :", r, list(C))
C = matrix(1.0, (3, 3)); r = blas.syrk(E, C, beta=2.0, n=3, k=0);          print("syrk :", r, list(C))
C = matrix(1.0, (3, 3)); r = blas.herk(E, C, beta=2.0, n=3, k=0);          print("herk :", r, list(C))
C = matrix(1.0, (3, 3)); r = blas.syr2k(E, E, C, beta=2.0, n=3, k=0);      print("syr2k:", r, list(C))
C = matrix(1.0, (3, 3)); r = blas.her2k(E, E, C, beta=2.0, n=3, k=0);      print("her2k:", r, list(C))
# an explicitly illegal ldA is accepted too
C = matrix(1.0, (3, 2)); r = blas.gemm(matrix(0.0, (3, 0)), matrix(0.0, (0, 2)), C, beta=2.0, ldA=-7); print("gemm ldA=-7:", r, list(C))
# control: the same with a consistent A
C = matrix(1.0, (3, 2)); blas.gemm(matrix(0.0, (3, 0)), matrix(0.0, (0, 2)), C, beta=2.0); print("control:", list(C))
# control: with k>0 the same ld is rejected
try: blas.gemm(matrix(1.0, (1, 4)), matrix(1.0, (1, 4)), matrix(1.0, (3, 2)), m=3, n=2, k=1)
except Exception as e: print("k=1:", type(e).__name__, e)
