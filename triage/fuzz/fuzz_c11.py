# triage-only differential fuzzer for modeling expressions (never used by a check)
import random, sys, traceback
from cvxopt import matrix, spmatrix, sparse
from cvxopt.modeling import variable, max as mmax, min as mmin, sum as msum, dot, _function
import cvxopt.modeling as M

AFF, CVX, CCV = 0, 1, -1
class Ref:
    def __init__(s, val, curv): s.val, s.curv = val, curv   # val: list of floats
def comb(c1, c2):
    if c1 == AFF: return c2
    if c2 == AFF: return c1
    if c1 == c2: return c1
    return None
def bc(a, b):
    if len(a) == len(b): return a, b
    if len(a) == 1: return a*len(b), b
    if len(b) == 1: return a, b*len(a)
    raise ValueError

def gen(rng, vars_, depth):
    """returns (modeling expr, Ref) or raises Skip"""
    if depth == 0 or rng.random() < 0.25:
        v, vals = rng.choice(vars_)
        return v, Ref(list(vals), AFF), "v%d" % len(v)
    op = rng.choice(["add", "sub", "neg", "smul", "rsmul", "div", "idx", "slice", "sum", "dot", "max", "min", "abs", "mmul", "cadd", "max1", "min1", "iadd", "isub", "imul", "rowmul", "csub", "maxc"])
    f, r, d = gen(rng, vars_, depth-1)
    if op in ("add", "sub", "iadd", "isub", "max", "min"):
        g, q, e = gen(rng, vars_, depth-1)
        if len(r.val) != len(q.val) and 1 not in (len(r.val), len(q.val)): raise Skip
        a, b = bc(r.val, q.val)
        if op in ("add", "iadd"):
            c = comb(r.curv, q.curv); val = [x+y for x, y in zip(a, b)]
            desc = "(%s + %s)" % (d, e)
            if op == "iadd":
                if len(r.val) < len(q.val): raise Skip
                h = +f if isinstance(f, _function) else f + 0.0
                def mk(h=h, g=g):
                    h += g; return h
                desc = "(%s += %s)" % (d, e)
            else: mk = lambda: f + g
        elif op in ("sub", "isub"):
            c = comb(r.curv, -q.curv if q.curv is not None else None); val = [x-y for x, y in zip(a, b)]
            desc = "(%s - %s)" % (d, e)
            if op == "isub":
                if len(r.val) < len(q.val): raise Skip
                h = +f if isinstance(f, _function) else f + 0.0
                def mk(h=h, g=g):
                    h -= g; return h
                desc = "(%s -= %s)" % (d, e)
            else: mk = lambda: f - g
        elif op == "max":
            c = CVX if r.curv in (AFF, CVX) and q.curv in (AFF, CVX) else None
            val = [max(x, y) for x, y in zip(a, b)]; mk = lambda: mmax(f, g); desc = "max(%s, %s)" % (d, e)
        else:
            c = CCV if r.curv in (AFF, CCV) and q.curv in (AFF, CCV) else None
            val = [min(x, y) for x, y in zip(a, b)]; mk = lambda: mmin(f, g); desc = "min(%s, %s)" % (d, e)
        return Lazy(mk), Ref(val, c), desc
    if op == "neg":
        return Lazy(lambda: -f), Ref([-x for x in r.val], -r.curv if r.curv is not None else None), "-(%s)" % d
    if op in ("smul", "rsmul", "div", "imul"):
        a = rng.choice([2.0, -3.0, 0.5, -1.0, 0.0, 1.0]) if op != "div" else rng.choice([2.0, -4.0, 0.5])
        k = a if op != "div" else 1.0/a
        c = r.curv if k > 0 else (-r.curv if k < 0 else AFF)
        if r.curv is None: c = None
        val = [k*x for x in r.val]
        if op == "smul": mk = lambda: f*a
        elif op == "rsmul": mk = lambda: a*f
        elif op == "div": mk = lambda: f/a
        else:
            h = +f if isinstance(f, _function) else f + 0.0
            def mk(h=h):
                h *= a; return h
        return Lazy(mk), Ref(val, c), "(%s %s %g)" % (d, {"smul": "*", "rsmul": "r*", "div": "/", "imul": "*="}[op], a)
    if op == "idx":
        i = rng.randrange(-len(r.val), len(r.val))
        return Lazy(lambda: f[i]), Ref([r.val[i]], r.curv), "(%s)[%d]" % (d, i)
    if op == "slice":
        if len(r.val) < 2: raise Skip
        sl = rng.choice([slice(0, 2), slice(1, None), slice(None, None, 2), slice(None, None, -1)])
        return Lazy(lambda: f[sl]), Ref(r.val[sl], r.curv), "(%s)[%s]" % (d, sl)
    if op == "sum":
        return Lazy(lambda: msum(f)), Ref([sum(r.val)], r.curv), "sum(%s)" % d
    if op == "dot":
        cvec = matrix([rng.choice([1.0, -2.0, 0.0, 3.0]) for _ in r.val])
        c = r.curv
        if r.curv not in (AFF,):
            # dot(c, f) for nonlinear f: allowed only... treat as needing affine
            raise Skip
        return Lazy(lambda: dot(cvec, f)), Ref([sum(a*b for a, b in zip(cvec, r.val))], c), "dot(c,%s)" % d
    if op in ("max1", "min1"):
        if len(r.val) < 2: raise Skip
        if op == "max1":
            c = CVX if r.curv in (AFF, CVX) else None
            return Lazy(lambda: mmax(f)), Ref([max(r.val)], c), "max(%s)" % d
        c = CCV if r.curv in (AFF, CCV) else None
        return Lazy(lambda: mmin(f)), Ref([min(r.val)], c), "min(%s)" % d
    if op == "abs":
        c = CVX if r.curv == AFF else None
        return Lazy(lambda: abs(f)), Ref([abs(x) for x in r.val], c), "abs(%s)" % d
    if op in ("mmul", "rowmul"):
        n = len(r.val)
        m = 1 if op == "rowmul" else rng.choice([1, 2, 3])
        A = matrix([rng.choice([1.0, -1.0, 2.0, 0.0]) for _ in range(m*n)], (m, n))
        if rng.random() < 0.3: A = sparse(A)
        if r.curv != AFF:
            raise Skip
        val = [sum(A[i, j]*r.val[j] for j in range(n)) for i in range(m)]
        return Lazy(lambda: A*f), Ref(val, AFF), "(A%dx%d%s*%s)" % (m, n, "s" if not isinstance(A, matrix) else "", d)
    if op in ("cadd", "csub"):
        n = rng.choice([1, len(r.val)])
        b = matrix([rng.choice([0.0, 1.0, -2.5]) for _ in range(n)])
        a_, b_ = bc(r.val, list(b))
        if op == "cadd":
            return Lazy(lambda: f + b), Ref([x+y for x, y in zip(a_, b_)], r.curv), "(%s + b%d)" % (d, n)
        return Lazy(lambda: b - f), Ref([y-x for x, y in zip(a_, b_)], -r.curv if r.curv is not None else None), "(b%d - %s)" % (n, d)
    if op == "maxc":
        cst = rng.choice([0.0, 1.5, -1.0])
        c = CVX if r.curv in (AFF, CVX) else None
        return Lazy(lambda: mmax(f, cst)), Ref([max(x, cst) for x in r.val], c), "max(%s, %g)" % (d, cst)
    raise Skip

class Skip(Exception): pass
class Lazy:
    def __init__(s, thunk): s.thunk = thunk

def force(e):
    return e.thunk() if isinstance(e, Lazy) else e

# Lazy composition: children must be forced before parents; re-implement gen with eager children
def build(rng, vars_, depth):
    # wrap: gen uses f,g that may be Lazy -> force at construction
    pass

def main(seed0, N):
    bad = 0
    for seed in range(seed0, seed0+N):
        rng = random.Random(seed)
        x = variable(3, 'x'); y = variable(3, 'y'); s = variable(1, 's')
        xv = [rng.choice([-2.0, -1.0, 0.5, 1.0, 3.0]) for _ in range(3)]
        yv = [rng.choice([-2.0, -1.0, 0.5, 1.0, 3.0]) for _ in range(3)]
        sv = [rng.choice([-2.0, 0.5, 3.0])]
        x.value = matrix(xv); y.value = matrix(yv); s.value = matrix(sv)
        vars_ = [(x, xv), (y, yv), (s, sv)]
        try:
            e, r, desc = gen_eager(rng, vars_, rng.choice([1, 2, 3]))
        except Skip:
            continue
        except Refused as rf:
            if rf.expected is None: continue
            print("seed", seed, "REFUSED but valid:", rf.desc, rf.err); bad += 1; continue
        except Accepted as ac:
            print("seed", seed, "ACCEPTED but neither convex nor concave:", ac.desc); bad += 1; continue
        except Exception as ex:
            print("seed", seed, "INTERNAL", repr(ex)); traceback.print_exc(); bad += 1; continue
    print("done", seed0, N, "bad", bad)

class Refused(Exception):
    def __init__(s, desc, expected, err): s.desc, s.expected, s.err = desc, expected, err
class Accepted(Exception):
    def __init__(s, desc): s.desc = desc
class Mismatch(Exception): pass

def check(obj, r, desc, seed=None):
    val = obj.value()
    got = list(val) if val is not None else None
    if got is None or len(got) != len(r.val) or any(abs(a-b) > 1e-9*(1+abs(b)) for a, b in zip(got, r.val)):
        print("VALUE MISMATCH:", desc, "got", got, "expected", r.val)
        return False
    if isinstance(obj, _function):
        cv, cc = obj._isconvex(), obj._isconcave()
        if r.curv == CVX and not cv or r.curv == CCV and not cc or r.curv == AFF and not (cv and cc):
            print("CURVATURE (too weak):", desc, "ref", r.curv, "got convex", cv, "concave", cc)
            return False
    return True

def gen_eager(rng, vars_, depth):
    e, r, desc = gen(rng, vars_, depth) if False else _ge(rng, vars_, depth)
    return e, r, desc

def _ge(rng, vars_, depth):
    # monkey: evaluate lazies immediately with refusal bookkeeping
    global gen
    orig = gen
    def g2(rng_, vars__, d_):
        e, r, desc = orig_gen(rng_, vars__, d_)
        if isinstance(e, Lazy):
            try:
                obj = e.thunk()
            except (Skip, Refused, Accepted):
                raise
            except Exception as ex:
                raise Refused(desc, r.curv, repr(ex)[:80])
            if r.curv is None:
                if isinstance(obj, (variable, _function)):
                    raise Accepted(desc)
            if not check(obj, r, desc):
                raise Skip
            return obj, r, desc
        return e, r, desc
    gen = g2
    try:
        return g2(rng, vars_, depth)
    finally:
        gen = orig
orig_gen = gen

if __name__ == "__main__":
    main(int(sys.argv[1]), int(sys.argv[2]))
