# Integer overflow in the buffer-length test: inconsistent arguments are accepted and the process segfaults.
import subprocess, sys
snips = {
 "scal  n=2 inc=2**31-1": "blas.scal(2.0, matrix([1.,2.,3.]), n=2, inc=2**31-1)",
 "scal  n=1 offset=2**31-1": "blas.scal(2.0, matrix([1.,2.,3.]), n=1, offset=2**31-1)",
 "copy  n=2 incx=-2**31": "blas.copy(matrix([1.,2.,3.]), matrix([1.,2.,3.]), n=2, incx=-2**31)",
 "gemv  n=3 ldA=2**30": "blas.gemv(matrix(1.0,(2,3)), matrix(1.0,(3,1)), matrix(0.0,(2,1)), n=3, ldA=2**30)",
 "gemm  ldC=2**30": "blas.gemm(matrix(1.0,(2,2)), matrix(1.0,(2,3)), matrix(0.0,(2,3)), ldC=2**30)",
 "control: scal n=2 inc=5 (must raise)": "blas.scal(2.0, matrix([1.,2.,3.]), n=2, inc=5)",
}
for name, code in snips.items():
    p = subprocess.run([sys.executable, "-c", "from cvxopt import matrix, blas\n" + code + "\nprint('returned normally')"],
                       capture_output=True, text=True)
    print("%-40s returncode=%d %s %s" % (name, p.returncode, p.stdout.strip(), p.stderr.strip().splitlines()[-1:] ))
