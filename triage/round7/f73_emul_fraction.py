"""F-73 witness (triage only): before commit 77dcd7b cvxopt.mul(Fraction(1,2), matrix([1.,2.])) crashed with a segmentation fault
(PyNumber_Check admits a Fraction; its type id was then read as if it were a matrix). After the fix: TypeError."""
import subprocess, sys
code = "from fractions import Fraction; import cvxopt; print(cvxopt.mul(Fraction(1,2), cvxopt.matrix([1.,2.])))"
r = subprocess.run([sys.executable, "-c", code], capture_output=True, text=True)
print("rc", r.returncode, r.stdout.strip()[:80], r.stderr.strip().splitlines()[-1:] )
