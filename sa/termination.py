"""Rules about how solver results are produced (shared by C01, C02, C03, C04):
guard dominance of 'optimal' / certificate returns, reported == tested, loop bound,
ordered result finalisation (rescale -> symmetrise -> slack)."""
import ast

from . import pyfront as pf
from . import solvers_common as sc
from .core import AnalysisError


def option_names(fn):
    """{'feastol': 'FEASTOL', ...}: names bound by `X = options.get('<key>', default)`;
    also returns the default expression."""
    out = {}
    for s in fn.body:
        if isinstance(s, ast.Assign) and len(s.targets) == 1 and isinstance(s.targets[0], ast.Name) \
                and isinstance(s.value, ast.Call) and isinstance(s.value.func, ast.Attribute) \
                and s.value.func.attr == "get" and isinstance(s.value.func.value, ast.Name) \
                and s.value.func.value.id == "options" and s.value.args \
                and isinstance(s.value.args[0], ast.Constant):
            out[s.value.args[0].value] = (s.targets[0].id, s.value.args[1] if len(s.value.args) > 1 else None, s)
    return out


def assigned_names_between(stmts):
    return pf.stores_in(stmts)


def result_returns(fn):
    """[(return stmt, dict items, status value set)] for returns of dict literals with
    a 'status' key in fn's own scope."""
    cfg = pf.CFG(fn)
    out = []
    for r in sc.returns_of(fn):
        sv = sc.status_values(r, fn, cfg)
        if sv is None:
            continue
        out.append((r, pf.dict_literal_items(r.value), sv))
    return out, cfg


def optimal_sites(fn, cfg):
    """Sites that make a result 'optimal': a return with literal status 'optimal', or
    an assignment `status = 'optimal'` that reaches a return using that name.
    -> [(site stmt, return stmt, dict items)]"""
    out = []
    for r in sc.returns_of(fn):
        d = r.value
        if not isinstance(d, ast.Dict):
            continue
        items = pf.dict_literal_items(d)
        v = items.get("status")
        if isinstance(v, ast.Constant) and v.value == "optimal":
            out.append((r, r, items))
        elif isinstance(v, ast.Name):
            rd = pf.reaching_defs(cfg, fn, [v.id])
            node = cfg.node_of(r)
            for dn in rd[node].get(v.id, set()):
                st = cfg.node_stmt.get(dn)
                if isinstance(st, ast.Assign) and isinstance(st.value, ast.Constant) and st.value.value == "optimal":
                    out.append((st, r, items))
    return out


def premise_of(site, ret, stop):
    conds = pf.path_condition(site, stop=stop)
    if site is not ret:
        conds += pf.path_condition(ret, stop=stop)
    return pf.P_and(*conds) if conds else pf.P_TRUE


def name_of(e):
    """dict value -> the variable it reports: `pres` -> pres ; `-ts` -> ('neg', ts)"""
    if isinstance(e, ast.Name):
        return e.id
    if isinstance(e, ast.UnaryOp) and isinstance(e.op, ast.USub) and isinstance(e.operand, ast.Name):
        return ("neg", e.operand.id)
    return None


def atom_le(a, b):
    return pf.P_atom("(%s <= %s)" % (a, b))


def gap_clause(items, opts):
    g, r = name_of(items.get("gap")), name_of(items.get("relative gap"))
    if not isinstance(g, str) or not isinstance(r, str):
        return None
    return pf.P_or(atom_le(g, opts["abstol"][0]),
                   pf.P_and(pf.P_not(pf.P_atom("(%s is None)" % r)), atom_le(r, opts["reltol"][0])))


def check_optimal(rule, w, mn, fnn, shortcut=None):
    """Guard dominance + reported==tested for every 'optimal' site of a solver.
    shortcut: callable(site, ret, items, premise, opts) -> (ok, expected-text) deciding
    returns that are not in the main loop (named exceptions, exact shape required)."""
    m = w.mods[mn]
    fn = w.func(mn, fnn)
    opts = option_names(fn)
    for k in ("feastol", "abstol", "reltol", "maxiters"):
        if k not in opts:
            raise AnalysisError("%s.%s: options.get('%s', ..) binding not found" % (mn, fnn, k))
    loop = sc.main_loop(fn)
    if loop is None:
        raise AnalysisError("%s.%s: main loop not found" % (mn, fnn))
    cfg = pf.CFG(fn)
    sites = optimal_sites(fn, cfg)
    if not sites:
        raise AnalysisError("%s.%s: no 'optimal' result site found" % (mn, fnn))
    # tolerances are single-assignment
    for k in ("feastol", "abstol", "reltol"):
        nm = opts[k][0]
        nstores = sum(1 for n in pf._scope_nodes(fn) if isinstance(n, ast.Name) and n.id == nm
                      and isinstance(n.ctx, ast.Store))
        key = "%s:tolerance %s bound once from options['%s']" % (fnn, nm, k)
        if nstores == 1:
            rule.ok(key, m.where(opts[k][2], fn))
        else:
            rule.violation(key, m.where(opts[k][2], fn), "tolerance variable %s is re-bound (%d stores): the value "
                           "tested need not be the caller's options['%s']" % (nm, nstores, k), "1 store", nstores)
    for site, ret, items in sites:
        in_loop = pf._within(site, loop)
        key = "%s:optimal@%s" % (fnn, "main-loop" if in_loop else "shortcut:" + pf.norm_expr(_outer_test(site, fn))[:60])
        where = m.where(site, fn)
        prem = premise_of(site, ret, loop if in_loop else fn)
        if in_loop:
            p, d = name_of(items.get("primal infeasibility")), name_of(items.get("dual infeasibility"))
            gc = gap_clause(items, opts)
            if not isinstance(p, str) or not isinstance(d, str) or gc is None:
                rule.violation(key + ":reported", where, "accuracy fields of the 'optimal' result are not plain "
                               "variables that a stop test could have examined", "names", pf.norm_expr(ret.value)[:120])
                continue
            goal = pf.P_and(atom_le(p, opts["feastol"][0]), atom_le(d, opts["feastol"][0]), gc)
            res = pf.implies(prem, goal)
            if res is True:
                rule.ok(key + ":guard", where, "path condition %r implies %r" % (prem, goal))
            elif res is False:
                rule.violation(key + ":guard", where,
                               "status 'optimal' can be returned on a path whose condition does not imply the "
                               "documented stop test on the *reported* quantities",
                               expected=repr(goal), observed=repr(prem))
            else:
                rule.undecided(key + ":guard", where, "too many atoms")
            # nothing tested or reported is re-bound between the test and the return
            stop_if = None
            q = site
            while q is not None and q is not loop:
                if isinstance(q, ast.If) and (p in pf.names_in(q.test)):
                    stop_if = q
                q = getattr(q, "_parent", None)
            if stop_if is not None:
                between = sc.preceding_in_blocks(ret, stop_if)
                watched = {p, d} | {name_of(items.get(k)) for k in ("gap", "relative gap")}
                watched = {x for x in watched if isinstance(x, str)}
                hit = pf.stores_in(between) & watched
                if hit:
                    rule.violation(key + ":stable", where, "tested quantities %s are re-bound between the stop "
                                   "test and the return" % sorted(hit), "no store", sorted(hit))
                else:
                    rule.ok(key + ":stable", where, "no store to %s after the test" % sorted(watched))
        else:
            if shortcut is None:
                rule.violation(key, where, "'optimal' returned outside the main loop without a recognised "
                               "justification", "named shortcut", repr(prem))
                continue
            ok, exp = shortcut(site, ret, items, prem, opts)
            if ok is True:
                rule.ok(key + ":shortcut-shape", where, "path condition %r implies %s" % (prem, exp))
            elif ok is False:
                rule.violation(key + ":shortcut-shape", where,
                               "the start-up shortcut returns 'optimal' without the conditions that justify "
                               "skipping the residual test", expected=exp, observed=repr(prem))
            else:
                rule.undecided(key + ":shortcut-shape", where, "too many atoms")
    return fn, loop, opts, sites


def _outer_test(site, fn):
    last = None
    q = site
    while q is not None and q is not fn:
        if isinstance(q, ast.If):
            last = q
        q = getattr(q, "_parent", None)
    return last.test if last is not None else ast.Constant(value=True)


def check_loop_bound(rule, w, mn, fnn):
    """main loop is `for iters in range(MAXITERS + 1)`, MAXITERS validated >= 1 with
    ValueError, 'iterations' reports the loop variable, and the iteration-limit test
    `iters == MAXITERS` leads to a return."""
    m = w.mods[mn]
    fn = w.func(mn, fnn)
    opts = option_names(fn)
    loop = sc.main_loop(fn)
    mx = opts["maxiters"][0]
    key = "%s:loop-bound" % fnn
    it = loop.iter
    ok = isinstance(it, ast.Call) and len(it.args) == 1 and pf.norm_expr(it.args[0]) in (
        "(%s + 1)" % mx, "(1 + %s)" % mx)
    if ok:
        rule.ok(key + ":range", m.where(loop, fn), "range(%s+1)" % mx)
    else:
        rule.violation(key + ":range", m.where(loop, fn), "main loop does not iterate over range(%s+1)" % mx,
                       "for iters in range(%s+1)" % mx, pf.norm_expr(it))
    itn = loop.target.id
    # validation
    val = [s for s in fn.body if isinstance(s, ast.If) and pf.always_exits(s.body)
           and ("(%s < 1)" % mx) in pf.prop_of(s.test).atoms()]
    if val and isinstance(val[0].body[-1], ast.Raise):
        rule.ok(key + ":validated", m.where(val[0], fn), "%s < 1 -> raise" % mx)
    else:
        rule.violation(key + ":validated", m.where(loop, fn), "options['maxiters'] is not validated (>= 1)",
                       "if ... %s < 1: raise ValueError" % mx, "absent")
    # every return in the loop that has 'iterations' reports the loop variable
    for r in sc.returns_of(fn):
        if not isinstance(r.value, ast.Dict):
            continue
        items = pf.dict_literal_items(r.value)
        if "iterations" in items and pf._within(r, loop):
            k2 = key + ":iterations@%s" % pf.norm_expr(items.get("status"))
            if isinstance(items["iterations"], ast.Name) and items["iterations"].id == itn:
                rule.ok(k2, m.where(r, fn))
            else:
                rule.violation(k2, m.where(r, fn), "'iterations' does not report the loop counter",
                               itn, pf.norm_expr(items["iterations"]))
    # the limit test returns: some return's path condition implies iters == MAXITERS,
    # or a status assignment 'unknown' under it reaches a return
    a, b = sorted([itn, mx])
    lim = pf.P_atom("(%s == %s)" % (a, b))
    hit = False
    for n in pf._scope_nodes(fn):
        if isinstance(n, (ast.Return, ast.Assign)) and pf._within(n, loop):
            if isinstance(n, ast.Assign) and not (isinstance(n.value, ast.Constant) and n.value.value == "unknown"):
                continue
            conds = pf.path_condition(n, stop=loop)
            if conds and pf.implies(pf.P_and(*conds), lim) is True:
                hit = True
    if hit:
        rule.ok(key + ":limit-returns", m.where(loop, fn), "iters == %s leads to the 'unknown' result" % mx)
    else:
        rule.violation(key + ":limit-returns", m.where(loop, fn),
                       "no result is produced under `%s == %s`: the loop can run out without returning" % (itn, mx),
                       "return under iters == MAXITERS", "absent")


def finalisation(ret, stop, objs):
    """Ordered finalisation facts for a result return: for each object name in objs
    (e.g. {'s': 's', 'z': 'z'}) the positions (in the lexical prefix leading to ret
    inside `stop`) of: rescale calls (scal-like with target obj), symm calls on obj,
    max_step calls on obj (and the name the result is bound to)."""
    pre = sc.preceding_in_blocks(ret, stop)
    seq = []
    for s in pre:
        for n in ast.walk(s):
            if isinstance(n, ast.Call):
                seq.append(n)
    seq.sort(key=lambda c: (c.lineno, c.col_offset))
    facts = {}
    for i, c in enumerate(seq):
        nm = pf.call_name(c)
        if nm in ("xscal", "yscal", "blas.scal") and len(c.args) >= 2 and isinstance(c.args[1], ast.Name):
            facts.setdefault(c.args[1].id, {}).setdefault("scal", []).append((i, pf.norm_expr(c.args[0])))
        elif nm == "misc.symm" and c.args and isinstance(c.args[0], ast.Name):
            facts.setdefault(c.args[0].id, {}).setdefault("symm", []).append((i, pf.norm_expr(c)))
        elif nm == "misc.max_step" and c.args and isinstance(c.args[0], ast.Name):
            tgt = None
            st = pf.enclosing_stmt(c)
            if isinstance(st, ast.Assign) and isinstance(st.targets[0], ast.Name) and st.value is c:
                tgt = st.targets[0].id
            facts.setdefault(c.args[0].id, {}).setdefault("max_step", []).append((i, tgt))
    return facts, seq


def check_relgap(rule, w, mn, fnn):
    """The relative gap is gap / -pcost when pcost < 0, gap / dcost when dcost > 0, undefined
    otherwise (doc: 'relative gap').  Each branch that divides must divide by the quantity its
    guard made positive - the denominator is tied to the guard, not to a constant table."""
    m = w.mods[mn]
    fn = w.func(mn, fnn)
    n = 0
    for st in pf._scope_nodes(fn):
        if not isinstance(st, ast.If):
            continue
        chain = []
        cur = st
        while isinstance(cur, ast.If):
            chain.append(cur)
            cur = cur.orelse[0] if len(cur.orelse) == 1 and isinstance(cur.orelse[0], ast.If) else None
        if getattr(st, "_parent", None) is not None and isinstance(st._parent, ast.If) and st in st._parent.orelse:
            continue       # inner link of a chain already visited from its head
        for k, br in enumerate(chain):
            for a in br.body:
                if not (isinstance(a, ast.Assign) and len(a.targets) == 1 and isinstance(a.targets[0], ast.Name)
                        and a.targets[0].id == "relgap" and isinstance(a.value, ast.BinOp) and isinstance(a.value.op, ast.Div)):
                    continue
                n += 1
                key = "%s:relgap branch `%s`" % (fnn, pf.norm_expr(br.test)[:40])
                where = m.where(a, fn)
                t = br.test
                num, den = a.value.left, a.value.right
                ok = isinstance(t, ast.Compare) and len(t.ops) == 1 and isinstance(t.left, ast.Name) \
                    and isinstance(t.comparators[0], ast.Constant) and t.comparators[0].value in (0, 0.0)
                if not ok:
                    rule.undecided(key, where, "guard of a relgap branch is not `v < 0.0` / `v > 0.0`")
                    continue
                v = t.left.id
                if isinstance(t.ops[0], ast.Lt):
                    want = "(-%s)" % v
                elif isinstance(t.ops[0], ast.Gt):
                    want = v
                else:
                    rule.undecided(key, where, "guard operator not < or >")
                    continue
                got = pf.norm_expr(den)
                if got.replace(" ", "") not in (want, want.strip("()")):
                    rule.violation(key, where, "the branch guarded by `%s` divides the gap by `%s`: the relative gap is defined with the quantity "
                                   "the guard made positive" % (pf.norm_expr(t), got), "gap / %s" % want, pf.norm_expr(a.value))
                elif pf.norm_expr(num) != "gap":
                    rule.violation(key, where, "the relative gap is not computed from `gap`", "gap / %s" % want, pf.norm_expr(a.value))
                elif (k == 0 and v != "pcost") or (k == 1 and v != "dcost"):
                    rule.violation(key, where, "documented order: gap / -pcost if pcost < 0, else gap / dcost if dcost > 0", "pcost then dcost", v)
                else:
                    rule.ok(key, where, pf.norm_expr(a.value))
    return n


def check_residual_normalisers(rule, w, mn, fnn, targets=("pres", "dres", "pinfres", "dinfres")):
    """Relative residuals: inside the value of pres/dres/pinfres/dinfres every residual norm
    res{x,y,z} / hres{x,y,z} is divided by its own reference res{x,y,z}0 (the norm of the
    corresponding right-hand side fixed before the loop) - not by another block's, and not
    pooled under one common normaliser."""
    import re as _re
    m = w.mods[mn]
    fn = w.func(mn, fnn)
    main = None
    try:
        from . import solvers_common as sc
        main = sc.main_loop(fn)
    except Exception:
        main = None
    n = 0
    for a in pf._scope_nodes(fn):
        if not (isinstance(a, ast.Assign) and len(a.targets) == 1 and isinstance(a.targets[0], ast.Name) and a.targets[0].id in targets):
            continue
        if main is not None and not (main.lineno <= a.lineno <= getattr(main, "end_lineno", 10 ** 9)):
            continue
        for x in ast.walk(a.value):
            if isinstance(x, ast.Name) and _re.fullmatch(r"h?res[xyz]", x.id):
                n += 1
                blk = x.id[-1]
                par = getattr(x, "_parent", None)
                key = "%s:%s uses %s" % (fnn, a.targets[0].id, x.id)
                where = m.where(a, fn)
                if isinstance(par, ast.BinOp) and isinstance(par.op, ast.Div) and par.left is x and isinstance(par.right, ast.Name) \
                        and par.right.id == "res%s0" % blk:
                    rule.ok(key, where, "%s / res%s0" % (x.id, blk))
                else:
                    rule.violation(key, where,
                                   "`%s` enters %s without being divided by its own reference `res%s0`: the reported relative residual "
                                   "is not the documented one (`%s`)" % (x.id, a.targets[0].id, blk, pf.norm_expr(a.value)[:80]),
                                   "%s / res%s0" % (x.id, blk), pf.norm_expr(a.value)[:80])
    return n
