"""Python front-end: module loading, scopes and name resolution, statement CFG with
dominators, syntax-directed path conditions, structural expression normalisation and
propositional implication by truth-table enumeration.  Stdlib only (ast)."""
import ast
import builtins
import itertools
import os

from .core import AnalysisError

PY_FILES = ["coneprog", "cvxprog", "misc", "modeling", "solvers", "__init__",
            "msk", "printing", "info"]


def attach_parents(tree):
    for node in ast.walk(tree):
        for ch in ast.iter_child_nodes(node):
            ch._parent = node
    tree._parent = None


class Module:
    def __init__(self, name, path):
        self.name = name
        self.path = path
        with open(path) as f:
            self.src = f.read()
        try:
            self.tree = ast.parse(self.src, filename=path)
        except SyntaxError as e:
            raise AnalysisError("cannot parse %s: %s" % (path, e))
        attach_parents(self.tree)
        self.lines = self.src.split("\n")
        self.funcs = {}      # qualname -> FunctionDef
        self.classes = {}    # name -> ClassDef
        self._index(self.tree, "")
        self.exports = self._top_bindings()

    def _index(self, node, prefix):
        for ch in ast.iter_child_nodes(node):
            if isinstance(ch, (ast.FunctionDef, ast.AsyncFunctionDef)):
                q = prefix + ch.name
                ch._qualname = q
                ch._module = self
                # keep the first def for switched names (if use_C: ... else: def ...)
                self.funcs.setdefault(q, ch)
                self._index(ch, q + ".")
            elif isinstance(ch, ast.ClassDef):
                q = prefix + ch.name
                ch._qualname = q
                if not prefix:
                    self.classes[ch.name] = ch
                self._index(ch, q + ".")
            else:
                self._index(ch, prefix)

    def _top_bindings(self):
        """name -> list of binding nodes at module level (descending into if/try/for
        bodies but not into defs/classes)."""
        out = {}

        def bind(name, node):
            out.setdefault(name, []).append(node)

        def visit_block(stmts):
            for s in stmts:
                if isinstance(s, (ast.FunctionDef, ast.ClassDef, ast.AsyncFunctionDef)):
                    bind(s.name, s)
                elif isinstance(s, ast.Import):
                    for a in s.names:
                        bind((a.asname or a.name).split(".")[0], s)
                elif isinstance(s, ast.ImportFrom):
                    for a in s.names:
                        bind(a.asname or a.name, s)
                elif isinstance(s, (ast.Assign, ast.AugAssign, ast.AnnAssign)):
                    tgts = s.targets if isinstance(s, ast.Assign) else [s.target]
                    for t in tgts:
                        for n in ast.walk(t):
                            if isinstance(n, ast.Name) and isinstance(n.ctx, ast.Store):
                                bind(n.id, s)
                elif isinstance(s, ast.If):
                    visit_block(s.body)
                    visit_block(s.orelse)
                elif isinstance(s, ast.Try):
                    visit_block(s.body)
                    for h in s.handlers:
                        if h.name:
                            bind(h.name, h)
                        visit_block(h.body)
                    visit_block(s.orelse)
                    visit_block(s.finalbody)
                elif isinstance(s, (ast.For, ast.While)):
                    if isinstance(s, ast.For):
                        for n in ast.walk(s.target):
                            if isinstance(n, ast.Name):
                                bind(n.id, s)
                    visit_block(s.body)
                    visit_block(s.orelse)
                elif isinstance(s, ast.With):
                    for it in s.items:
                        if it.optional_vars is not None:
                            for n in ast.walk(it.optional_vars):
                                if isinstance(n, ast.Name):
                                    bind(n.id, s)
                    visit_block(s.body)
        visit_block(self.tree.body)
        return out

    def where(self, node, func=None):
        fn = func or enclosing_function(node)
        q = getattr(fn, "_qualname", "<module>") if fn is not None else "<module>"
        return "src/python/%s.py:%s:%d" % (self.name, q, getattr(node, "lineno", 0))

    def seg(self, node):
        try:
            return ast.get_source_segment(self.src, node) or ""
        except Exception:
            return ""


def load_modules(repo, names=PY_FILES):
    mods = {}
    for n in names:
        p = os.path.join(repo, "src", "python", n + ".py")
        if not os.path.exists(p):
            if n in ("msk", "printing", "info"):
                continue
            raise AnalysisError("anchor file missing: %s" % p)
        mods[n] = Module(n, p)
    return mods


def enclosing_function(node):
    n = getattr(node, "_parent", None)
    while n is not None and not isinstance(n, (ast.FunctionDef, ast.AsyncFunctionDef, ast.Lambda)):
        n = getattr(n, "_parent", None)
    return n


def enclosing_stmt(node):
    n = node
    while n is not None and not isinstance(n, ast.stmt):
        n = getattr(n, "_parent", None)
    return n


# --------------------------------------------------------------------------------------
# Scopes
# --------------------------------------------------------------------------------------

def _scope_nodes(fn):
    """Yield nodes belonging to fn's own scope (not nested defs/lambdas/classes/
    comprehensions bodies; but default values / decorators of nested defs are ours)."""
    stack = list(fn.body) if not isinstance(fn, ast.Lambda) else [fn.body]
    while stack:
        n = stack.pop()
        yield n
        if isinstance(n, (ast.FunctionDef, ast.AsyncFunctionDef)):
            stack.extend(n.decorator_list)
            stack.extend(n.args.defaults)
            stack.extend([d for d in n.args.kw_defaults if d is not None])
            continue
        if isinstance(n, ast.Lambda):
            stack.extend(n.args.defaults)
            continue
        if isinstance(n, ast.ClassDef):
            stack.extend(n.bases)
            stack.extend(n.decorator_list)
            continue
        if isinstance(n, (ast.ListComp, ast.SetComp, ast.GeneratorExp, ast.DictComp)):
            # first iterable is evaluated in the enclosing scope
            stack.append(n.generators[0].iter)
            continue
        stack.extend(ast.iter_child_nodes(n))


def arg_names(fn):
    a = fn.args
    names = [x.arg for x in a.posonlyargs + a.args + a.kwonlyargs]
    if a.vararg:
        names.append(a.vararg.arg)
    if a.kwarg:
        names.append(a.kwarg.arg)
    return names


def local_bindings(fn):
    """(locals, globals_declared, nonlocals_declared) of a function/lambda scope."""
    loc = set(arg_names(fn))
    gl, nl = set(), set()
    for n in _scope_nodes(fn):
        if isinstance(n, ast.Name) and isinstance(n.ctx, (ast.Store, ast.Del)):
            loc.add(n.id)
        elif isinstance(n, (ast.FunctionDef, ast.AsyncFunctionDef, ast.ClassDef)):
            loc.add(n.name)
        elif isinstance(n, ast.Import):
            for a in n.names:
                loc.add((a.asname or a.name).split(".")[0])
        elif isinstance(n, ast.ImportFrom):
            for a in n.names:
                loc.add(a.asname or a.name)
        elif isinstance(n, ast.ExceptHandler) and n.name:
            loc.add(n.name)
        elif isinstance(n, ast.Global):
            gl.update(n.names)
        elif isinstance(n, ast.Nonlocal):
            nl.update(n.names)
        elif isinstance(n, ast.NamedExpr):
            loc.add(n.target.id)
    loc -= gl
    loc -= nl
    return loc, gl, nl


def comp_bindings(comp):
    s = set()
    for g in comp.generators:
        for n in ast.walk(g.target):
            if isinstance(n, ast.Name):
                s.add(n.id)
    return s


BUILTINS = set(dir(builtins))


def resolve_name(node, mod):
    """Resolve a Name load. Returns (kind, scope_node): kind in
    'local','enclosing','comp','class','global','builtin','unresolved'."""
    name = node.id
    n = node
    child = node
    first_func_seen = False
    while True:
        p = getattr(n, "_parent", None)
        if p is None:
            break
        if isinstance(p, (ast.ListComp, ast.SetComp, ast.GeneratorExp, ast.DictComp)):
            # are we inside the comprehension scope? (everything except first iter)
            if not (n is p.generators[0] and _within(child, p.generators[0].iter)):
                if name in comp_bindings(p):
                    return ("comp", p)
        elif isinstance(p, (ast.FunctionDef, ast.AsyncFunctionDef, ast.Lambda)):
            in_scope = True
            if isinstance(p, (ast.FunctionDef, ast.AsyncFunctionDef)):
                # defaults/decorators are evaluated in the enclosing scope
                if n in p.decorator_list or n in p.args.defaults or n in p.args.kw_defaults:
                    in_scope = False
            elif isinstance(p, ast.Lambda):
                if n in p.args.defaults:
                    in_scope = False
            if in_scope:
                if not hasattr(p, "_locals"):
                    p._locals = local_bindings(p)
                loc, gl, nl = p._locals
                if name in gl:
                    break
                if name in loc:
                    return ("enclosing" if first_func_seen else "local", p)
                first_func_seen = True
        elif isinstance(p, ast.ClassDef):
            if not first_func_seen and n in p.body:
                # class body scope: names bound in the class body
                for s in p.body:
                    for t in ast.walk(s) if not isinstance(s, (ast.FunctionDef, ast.ClassDef)) else [s]:
                        if isinstance(t, ast.Name) and isinstance(t.ctx, ast.Store) and t.id == name:
                            return ("class", p)
                        if isinstance(t, (ast.FunctionDef, ast.ClassDef)) and t.name == name:
                            return ("class", p)
        child = n
        n = p
    if name in mod.exports:
        return ("global", mod.tree)
    if name in BUILTINS:
        return ("builtin", None)
    return ("unresolved", None)


def _within(node, root):
    n = node
    while n is not None:
        if n is root:
            return True
        n = getattr(n, "_parent", None)
    return False


# --------------------------------------------------------------------------------------
# Structural expression normalisation
# --------------------------------------------------------------------------------------

def norm_expr(e):
    """Canonical string of an expression: commutative operands sorted, `a > b` -> `b < a`,
    `a >= b` -> `b <= a`, redundant parentheses gone (ast), `not (a == b)` kept."""
    if e is None:
        return "None"
    if isinstance(e, ast.BoolOp):
        parts = sorted(norm_expr(v) for v in e.values)
        op = " and " if isinstance(e.op, ast.And) else " or "
        return "(" + op.join(parts) + ")"
    if isinstance(e, ast.Compare) and len(e.ops) == 1:
        l, r, op = norm_expr(e.left), norm_expr(e.comparators[0]), e.ops[0]
        if isinstance(op, ast.Gt):
            return "(%s < %s)" % (r, l)
        if isinstance(op, ast.GtE):
            return "(%s <= %s)" % (r, l)
        if isinstance(op, (ast.Eq, ast.NotEq)):
            a, b = sorted([l, r])
            return "(%s %s %s)" % (a, "==" if isinstance(op, ast.Eq) else "!=", b)
        sym = {ast.Lt: "<", ast.LtE: "<=", ast.Is: "is", ast.IsNot: "is not",
               ast.In: "in", ast.NotIn: "not in"}[type(op)]
        return "(%s %s %s)" % (l, sym, r)
    if isinstance(e, ast.BinOp):
        l, r = norm_expr(e.left), norm_expr(e.right)
        sym = {ast.Add: "+", ast.Sub: "-", ast.Mult: "*", ast.Div: "/", ast.Mod: "%",
               ast.Pow: "**", ast.FloorDiv: "//", ast.MatMult: "@", ast.LShift: "<<",
               ast.RShift: ">>", ast.BitOr: "|", ast.BitAnd: "&", ast.BitXor: "^"}[type(e.op)]
        return "(%s %s %s)" % (l, sym, r)
    if isinstance(e, ast.UnaryOp):
        sym = {ast.Not: "not ", ast.USub: "-", ast.UAdd: "+", ast.Invert: "~"}[type(e.op)]
        return "(%s%s)" % (sym, norm_expr(e.operand))
    try:
        return ast.unparse(e)
    except Exception:
        return ast.dump(e)


# --------------------------------------------------------------------------------------
# Propositional layer over comparison atoms
# --------------------------------------------------------------------------------------

class Prop:
    """Boolean formula over opaque atoms (strings)."""

    def __init__(self, kind, args):
        self.kind = kind   # 'atom','and','or','not','true','false'
        self.args = args

    def atoms(self, acc=None):
        acc = set() if acc is None else acc
        if self.kind == "atom":
            acc.add(self.args)
        elif self.kind in ("and", "or", "not"):
            for a in self.args:
                a.atoms(acc)
        return acc

    def ev(self, env):
        k = self.kind
        if k == "atom":
            return env[self.args]
        if k == "and":
            return all(a.ev(env) for a in self.args)
        if k == "or":
            return any(a.ev(env) for a in self.args)
        if k == "not":
            return not self.args[0].ev(env)
        return k == "true"

    def __repr__(self):
        if self.kind == "atom":
            return self.args
        if self.kind == "not":
            return "!(%r)" % (self.args[0],)
        if self.kind in ("and", "or"):
            return "(" + (" %s " % self.kind).join(repr(a) for a in self.args) + ")"
        return self.kind


def P_atom(s):
    return Prop("atom", s)


def P_and(*a):
    return Prop("and", list(a))


def P_or(*a):
    return Prop("or", list(a))


def P_not(a):
    return Prop("not", [a])


P_TRUE = Prop("true", None)


def prop_of(e, subst=None):
    """ast condition -> Prop.  Negated comparisons are folded onto the positive atom
    where the complement is expressible (`a != b` -> not (a == b), `x is not None` ->
    not (x is None), `a > b` -> not (a <= b) is NOT folded: a<b and b<a are kept as
    separate opaque atoms except that `a > b` is written `b < a`)."""
    if subst and isinstance(e, ast.Name) and e.id in subst:
        return prop_of(subst[e.id], subst)
    if isinstance(e, ast.BoolOp):
        parts = [prop_of(v, subst) for v in e.values]
        return Prop("and" if isinstance(e.op, ast.And) else "or", parts)
    if isinstance(e, ast.UnaryOp) and isinstance(e.op, ast.Not):
        return P_not(prop_of(e.operand, subst))
    if isinstance(e, ast.Compare) and len(e.ops) == 1:
        op = e.ops[0]
        l, r = e.left, e.comparators[0]
        if isinstance(op, ast.NotEq):
            a, b = sorted([norm_expr(l), norm_expr(r)])
            return P_not(P_atom("(%s == %s)" % (a, b)))
        if isinstance(op, ast.IsNot):
            return P_not(P_atom("(%s is %s)" % (norm_expr(l), norm_expr(r))))
        if isinstance(op, ast.NotIn):
            return P_not(P_atom("(%s in %s)" % (norm_expr(l), norm_expr(r))))
        # a > b  == not (a <= b): fold so that complements meet
        if isinstance(op, ast.Gt):
            return P_not(P_atom("(%s <= %s)" % (norm_expr(l), norm_expr(r))))
        if isinstance(op, ast.GtE):
            return P_not(P_atom("(%s < %s)" % (norm_expr(l), norm_expr(r))))
        return P_atom(norm_expr(e))
    if isinstance(e, ast.Compare):
        # chained: a < b < c  -> (a<b) and (b<c)
        parts = []
        left = e.left
        for op, right in zip(e.ops, e.comparators):
            c = ast.Compare(left=left, ops=[op], comparators=[right])
            parts.append(prop_of(c, subst))
            left = right
        return Prop("and", parts)
    return P_atom(norm_expr(e))


def implies(premise, conclusion, max_atoms=16):
    """True / False / None(undecidable: too many atoms).  A premise that is a
    conjunction is first restricted to the conjuncts that share atoms with the
    conclusion (dropping conjuncts only weakens the premise, so a proof found this way
    is sound; a failure is re-tried with the full premise when that is small enough)."""
    def _tt(prem, concl):
        atoms = sorted(prem.atoms() | concl.atoms())
        if len(atoms) > max_atoms:
            return None
        for vals in itertools.product((False, True), repeat=len(atoms)):
            env = dict(zip(atoms, vals))
            if prem.ev(env) and not concl.ev(env):
                return False
        return True
    conj = _flatten_and(premise)
    # connected component (by shared atoms) of the conclusion within the conjuncts: the
    # other conjuncts talk about disjoint atoms, so they can only matter by being
    # unsatisfiable on their own, i.e. if the code were unreachable - not assumed.
    ca = set(conclusion.atoms())
    rel, rest = [], list(conj)
    changed = True
    while changed:
        changed = False
        for c in list(rest):
            if c.atoms() & ca:
                rel.append(c)
                rest.remove(c)
                ca |= c.atoms()
                changed = True
    if rest:
        r = _tt(Prop("and", rel) if rel else P_TRUE, conclusion)
        if r is not None:
            return r
    return _tt(premise, conclusion)


def _flatten_and(p):
    if p.kind == "and":
        out = []
        for a in p.args:
            out += _flatten_and(a)
        return out
    return [p]


# --------------------------------------------------------------------------------------
# Syntax-directed path conditions
# --------------------------------------------------------------------------------------

def always_exits(stmts):
    """Does this block never fall through? (return/raise/continue/break at the end,
    or an if/else whose both arms never fall through)."""
    if not stmts:
        return False
    last = stmts[-1]
    if isinstance(last, (ast.Return, ast.Raise, ast.Continue, ast.Break)):
        return True
    if isinstance(last, ast.If):
        return always_exits(last.body) and always_exits(last.orelse)
    return False


def stores_in(stmts):
    out = set()
    for s in stmts:
        for n in ast.walk(s):
            if isinstance(n, ast.Name) and isinstance(n.ctx, (ast.Store, ast.Del)):
                out.add(n.id)
    return out


def names_in(e):
    return {n.id for n in ast.walk(e) if isinstance(n, ast.Name)}


def path_condition(node, stop=None, subst=None, cross_loops=False):
    """Conjunction (list of Prop) of conditions that must hold on every path reaching
    `node` *within the current iteration of the innermost loop*: tests of enclosing ifs
    with polarity and negations of earlier sibling `if c: <never falls through>`,
    provided no name of c is re-bound between that test and node.  Conservative: an
    atom is only added when this is certain; dropping atoms only weakens the premise."""
    conds = []
    n = enclosing_stmt(node)
    while n is not None and n is not stop:
        p = getattr(n, "_parent", None)
        if p is None or isinstance(p, (ast.FunctionDef, ast.AsyncFunctionDef, ast.Module)):
            blocks = [p.body] if p is not None else []
        else:
            blocks = [getattr(p, f) for f in ("body", "orelse", "finalbody") if hasattr(p, f)]
            if isinstance(p, ast.Try):
                blocks += [h.body for h in p.handlers]
        blk = None
        for b in blocks:
            if isinstance(b, list) and any(x is n for x in b):
                blk = b
        if blk is not None:
            idx = [i for i, x in enumerate(blk) if x is n][0]
            later_stores = set()
            for j in range(idx - 1, -1, -1):
                s = blk[j]
                if isinstance(s, ast.If) and always_exits(s.body) and not s.orelse:
                    if not (names_in(s.test) & later_stores):
                        conds.append(P_not(prop_of(s.test, subst)))
                later_stores |= stores_in([s])
        if isinstance(p, ast.If):
            if blk is p.body:
                conds.append(prop_of(p.test, subst))
            elif blk is p.orelse:
                conds.append(P_not(prop_of(p.test, subst)))
        if isinstance(p, (ast.FunctionDef, ast.AsyncFunctionDef)):
            break
        if isinstance(p, (ast.For, ast.While)):
            if not cross_loops:
                break
            # conditions established outside the loop stay valid inside it only for
            # names the loop does not re-bind
            rebound = stores_in([p])
            n = p
            outer = path_condition(p, stop=stop, subst=subst, cross_loops=True)
            for c in outer:
                if not (_prop_names(c) & rebound):
                    conds.append(c)
            break
        n = p
    return conds


def _prop_names(p):
    import re
    out = set()
    for a in p.atoms():
        out.update(re.findall(r"[A-Za-z_]\w*", a))
    return out


# --------------------------------------------------------------------------------------
# Statement CFG
# --------------------------------------------------------------------------------------

class CFG:
    """Nodes are ints; node_stmt[n] is the ast node (statement, or the test/iter
    expression owner for branch nodes).  Special nodes: ENTRY=0, EXIT=1 (returns and
    fall-off), RAISE=2."""
    ENTRY, EXIT, RAISE = 0, 1, 2

    def __init__(self, fn):
        self.fn = fn
        self.succ = {0: [], 1: [], 2: []}
        self.pred = {0: [], 1: [], 2: []}
        self.node_stmt = {0: None, 1: None, 2: None}
        self.kind = {0: "entry", 1: "exit", 2: "raise"}
        self.edge_label = {}     # (u,v) -> ('true'|'false'|'iter'|'done'|'exc'|None)
        self.stmt_node = {}      # id(ast stmt) -> node
        self._n = 3
        self._loops = []         # (continue_target, break_target_list)
        self._handlers = []      # stack of lists of handler entry nodes
        frontier = self._block(fn.body, [(0, None)])
        for u, lab in frontier:
            self._edge(u, 1, lab)

    def _new(self, stmt, kind):
        n = self._n
        self._n += 1
        self.succ[n] = []
        self.pred[n] = []
        self.node_stmt[n] = stmt
        self.kind[n] = kind
        if stmt is not None and kind in ("stmt", "test", "iter"):
            self.stmt_node.setdefault(id(stmt), n)
        return n

    def _edge(self, u, v, lab=None):
        if v not in self.succ[u]:
            self.succ[u].append(v)
            self.pred[v].append(u)
        self.edge_label[(u, v)] = lab

    def _connect(self, frontier, v):
        for u, lab in frontier:
            self._edge(u, v, lab)

    def _may_raise(self, stmt):
        for n in ast.walk(stmt):
            if isinstance(n, (ast.Call, ast.Raise, ast.Subscript, ast.Attribute,
                              ast.BinOp, ast.Assert)):
                return True
        return False

    def _exc_edges(self, n, stmt):
        if self._handlers and self._may_raise(stmt):
            for h in self._handlers[-1]:
                self._edge(n, h, "exc")

    def _block(self, stmts, frontier):
        for s in stmts:
            frontier = self._stmt(s, frontier)
        return frontier

    def _stmt(self, s, frontier):
        if isinstance(s, ast.If):
            t = self._new(s, "test")
            self._connect(frontier, t)
            self._exc_edges(t, s.test)
            f1 = self._block(s.body, [(t, "true")])
            f2 = self._block(s.orelse, [(t, "false")])
            return f1 + f2
        if isinstance(s, ast.While):
            t = self._new(s, "test")
            self._connect(frontier, t)
            self._exc_edges(t, s.test)
            brk = []
            self._loops.append((t, brk))
            fb = self._block(s.body, [(t, "true")])
            self._loops.pop()
            self._connect(fb, t)
            const_true = isinstance(s.test, ast.Constant) and bool(s.test.value)
            out = [] if const_true else self._block(s.orelse, [(t, "false")])
            return out + brk
        if isinstance(s, ast.For):
            t = self._new(s, "iter")
            self._connect(frontier, t)
            self._exc_edges(t, s.iter)
            brk = []
            self._loops.append((t, brk))
            fb = self._block(s.body, [(t, "iter")])
            self._loops.pop()
            self._connect(fb, t)
            out = self._block(s.orelse, [(t, "done")])
            return out + brk
        if isinstance(s, ast.Try):
            hentries = []
            hnodes = []
            for h in s.handlers:
                hn = self._new(h, "handler")
                hentries.append(hn)
                hnodes.append((h, hn))
            if s.handlers:
                self._handlers.append(hentries + (self._handlers[-1] if self._handlers else []))
            fb = self._block(s.body, frontier)
            if s.handlers:
                self._handlers.pop()
            fb = self._block(s.orelse, fb)
            out = list(fb)
            for h, hn in hnodes:
                out += self._block(h.body, [(hn, None)])
            if s.finalbody:
                out = self._block(s.finalbody, out)
            return out
        if isinstance(s, ast.With):
            n = self._new(s, "stmt")
            self._connect(frontier, n)
            self._exc_edges(n, s)
            return self._block(s.body, [(n, None)])
        n = self._new(s, "stmt")
        self._connect(frontier, n)
        if isinstance(s, ast.Return):
            self._exc_edges(n, s)
            self._edge(n, 1, "return")
            return []
        if isinstance(s, ast.Raise):
            if self._handlers:
                for h in self._handlers[-1]:
                    self._edge(n, h, "exc")
            self._edge(n, 2, "raise")
            return []
        if isinstance(s, ast.Break):
            if self._loops:
                self._loops[-1][1].append((n, None))
            return []
        if isinstance(s, ast.Continue):
            if self._loops:
                self._edge(n, self._loops[-1][0], None)
            return []
        self._exc_edges(n, s)
        return [(n, None)]

    # ---- analyses -------------------------------------------------------------------
    def nodes(self):
        return list(self.succ.keys())

    def reachable(self, start=0, avoid=()):
        seen = {start}
        st = [start]
        while st:
            u = st.pop()
            for v in self.succ[u]:
                if v not in seen and v not in avoid:
                    seen.add(v)
                    st.append(v)
        return seen

    def dominators(self):
        nodes = sorted(self.reachable())
        full = set(nodes)
        dom = {n: set(full) for n in nodes}
        dom[0] = {0}
        changed = True
        order = nodes
        while changed:
            changed = False
            for n in order:
                if n == 0:
                    continue
                ps = [p for p in self.pred[n] if p in dom]
                new = set(full)
                for p in ps:
                    new &= dom[p]
                new = new | {n}
                if new != dom[n]:
                    dom[n] = new
                    changed = True
        return dom

    def node_of(self, stmt):
        return self.stmt_node.get(id(stmt))

    def can_reach_avoiding(self, src, dst, avoid):
        """Is there a path src ->* dst that avoids all nodes in `avoid`?"""
        if src in avoid:
            return False
        seen = {src}
        st = [src]
        while st:
            u = st.pop()
            if u == dst:
                return True
            for v in self.succ[u]:
                if v not in seen and v not in avoid:
                    seen.add(v)
                    st.append(v)
        return False


def stmts_of(fn):
    """All statements of a function's own body (not nested defs)."""
    out = []

    def walk(stmts):
        for s in stmts:
            out.append(s)
            if isinstance(s, (ast.FunctionDef, ast.AsyncFunctionDef, ast.ClassDef)):
                continue
            for f in ("body", "orelse", "finalbody"):
                if hasattr(s, f) and isinstance(getattr(s, f), list):
                    walk(getattr(s, f))
            if isinstance(s, ast.Try):
                for h in s.handlers:
                    walk(h.body)
    walk(fn.body)
    return out


def own_nodes(fn):
    """ast nodes of fn's own scope including nested-def headers but not bodies."""
    return list(_scope_nodes(fn))


def calls_in(node, own_scope_only=False):
    it = _scope_nodes(node) if own_scope_only else ast.walk(node)
    return [n for n in it if isinstance(n, ast.Call)]


def call_name(call):
    f = call.func
    if isinstance(f, ast.Name):
        return f.id
    if isinstance(f, ast.Attribute):
        try:
            return ast.unparse(f)
        except Exception:
            return None
    return None


def dict_literal_items(d):
    out = {}
    for k, v in zip(d.keys, d.values):
        if isinstance(k, ast.Constant) and isinstance(k.value, str):
            out[k.value] = v
    return out


# --------------------------------------------------------------------------------------
# Dataflow on the CFG
# --------------------------------------------------------------------------------------

def stmt_defs(stmt, kind):
    """Names (re)bound by the CFG node for `stmt` itself (not by its nested blocks)."""
    out = set()
    if stmt is None:
        return out
    if kind == "handler":
        if stmt.name:
            out.add(stmt.name)
        return out
    if kind == "iter":
        for n in ast.walk(stmt.target):
            if isinstance(n, ast.Name):
                out.add(n.id)
        _walrus(stmt.iter, out)
        return out
    if kind == "test":
        _walrus(stmt.test, out)
        return out
    if isinstance(stmt, (ast.FunctionDef, ast.AsyncFunctionDef, ast.ClassDef)):
        out.add(stmt.name)
        return out
    if isinstance(stmt, ast.Import):
        for a in stmt.names:
            out.add((a.asname or a.name).split(".")[0])
        return out
    if isinstance(stmt, ast.ImportFrom):
        for a in stmt.names:
            out.add(a.asname or a.name)
        return out
    if isinstance(stmt, ast.With):
        for it in stmt.items:
            if it.optional_vars is not None:
                for n in ast.walk(it.optional_vars):
                    if isinstance(n, ast.Name):
                        out.add(n.id)
        return out
    for n in _own_expr_nodes(stmt):
        if isinstance(n, ast.Name) and isinstance(n.ctx, ast.Store):
            out.add(n.id)
        elif isinstance(n, ast.NamedExpr):
            out.add(n.target.id)
    return out


def _walrus(e, out):
    for n in ast.walk(e):
        if isinstance(n, ast.NamedExpr):
            out.add(n.target.id)


def _own_expr_nodes(stmt):
    """Nodes of a simple statement, not descending into lambdas/comprehension scopes
    (except the first iterable)."""
    st = [stmt]
    while st:
        n = st.pop()
        yield n
        if isinstance(n, ast.Lambda):
            st.extend(n.args.defaults)
            continue
        if isinstance(n, (ast.ListComp, ast.SetComp, ast.GeneratorExp, ast.DictComp)):
            st.append(n.generators[0].iter)
            continue
        st.extend(ast.iter_child_nodes(n))


def node_uses(cfg, n):
    """Name loads evaluated by CFG node n itself (own scope)."""
    stmt, kind = cfg.node_stmt[n], cfg.kind[n]
    if stmt is None:
        return []
    if kind == "handler":
        roots = [stmt.type] if stmt.type is not None else []
    elif kind == "iter":
        roots = [stmt.iter]
    elif kind == "test":
        roots = [stmt.test]
    elif isinstance(stmt, (ast.FunctionDef, ast.AsyncFunctionDef)):
        roots = list(stmt.decorator_list) + list(stmt.args.defaults) + \
            [d for d in stmt.args.kw_defaults if d is not None]
    elif isinstance(stmt, ast.ClassDef):
        roots = list(stmt.bases) + list(stmt.decorator_list)
    elif isinstance(stmt, ast.With):
        roots = [it.context_expr for it in stmt.items]
    else:
        roots = [stmt]
    out = []
    for r in roots:
        for x in _own_expr_nodes(r):
            if isinstance(x, ast.Name) and isinstance(x.ctx, ast.Load):
                out.append(x)
            elif isinstance(x, ast.AugAssign) and isinstance(x.target, ast.Name):
                out.append(x.target)
    return out


def maybe_unassigned(cfg, fn):
    """Classic forward may-analysis: for each node the set of local names that may be
    unassigned on entry.  Returns {node: set(names)}."""
    loc, gl, nl = local_bindings(fn)
    params = set(arg_names(fn))
    track = loc - params
    IN = {n: set() for n in cfg.nodes()}
    IN[0] = set(track)
    defs = {n: stmt_defs(cfg.node_stmt[n], cfg.kind[n]) for n in cfg.nodes()}
    dels = {}
    for n in cfg.nodes():
        s = cfg.node_stmt[n]
        d = set()
        if isinstance(s, ast.Delete):
            for t in s.targets:
                if isinstance(t, ast.Name):
                    d.add(t.id)
        dels[n] = d
    work = [0]
    seen_out = {}
    while work:
        u = work.pop()
        out = (IN[u] - defs[u]) | (dels[u] & track)
        # an exception edge leaves *during* the statement: its definitions may not have
        # happened yet
        for v in cfg.succ[u]:
            lab = cfg.edge_label.get((u, v))
            o = (IN[u] | out) if lab == "exc" else out
            if not o <= IN[v] or v not in seen_out:
                seen_out[v] = True
                if not o <= IN[v]:
                    IN[v] |= o
                work.append(v)
    return IN


def reaching_defs(cfg, fn, names):
    """{node: {name: set(def nodes)}} for the given names (def node 0 = parameter /
    unassigned at entry)."""
    IN = {n: {x: set() for x in names} for n in cfg.nodes()}
    for x in names:
        IN[0][x] = {0}
    defs = {n: stmt_defs(cfg.node_stmt[n], cfg.kind[n]) & set(names) for n in cfg.nodes()}
    work = [0]
    visited = set()
    while work:
        u = work.pop()
        out = {}
        for x in names:
            out[x] = {u} if (x in defs[u] and u != 0) else IN[u][x]
        for v in cfg.succ[u]:
            ch = v not in visited
            visited.add(v)
            lab = cfg.edge_label.get((u, v))
            for x in names:
                src = (IN[u][x] | out[x]) if lab == "exc" else out[x]
                if not src <= IN[v][x]:
                    IN[v][x] |= src
                    ch = True
            if ch:
                work.append(v)
    return IN
