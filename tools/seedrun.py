#!/venv/bin/python
"""Run checks against every confirmed seeded change (self-test of the machinery).
usage: tools/seedrun.py [-j N] [--only SEED] [--props C01,C10] [--all-props]
For each /verif/seeded/<seed>/patch.diff: copy /repo's src+doc to a scratch dir under
/var/tmp, apply the patch there, run `./check <P> --repo <scratch>` (evidence writing
disabled) for the seed's property (default) or all claimed properties, and report
which rules fired.  Scratch dirs are removed.  Prints a table; exit 0 always."""
import argparse, json, os, re, shutil, subprocess, sys, tempfile
from concurrent.futures import ThreadPoolExecutor
HERE = os.path.dirname(os.path.dirname(os.path.abspath(__file__)))

def claimed():
    return [c["property_id"] for c in json.load(open(os.path.join(HERE, "MANIFEST.json")))["checks"]]

def run_seed(seed, props):
    sd = os.path.join(HERE, "seeded", seed)
    scratch = tempfile.mkdtemp(prefix="seedrun-", dir="/var/tmp")
    try:
        for d in ("src", "doc"):
            shutil.copytree(os.path.join("/repo", d), os.path.join(scratch, d))
        r = subprocess.run(["patch", "-p1", "-s", "-d", scratch, "-i", os.path.join(sd, "patch.diff")],
                           stdout=subprocess.PIPE, stderr=subprocess.STDOUT, text=True)
        if r.returncode != 0:
            return seed, {"_apply": "FAILED: " + r.stdout[-200:]}
        out = {}
        for p in props:
            env = dict(os.environ, VERIF_NO_EVIDENCE="1")
            c = subprocess.run([os.path.join(HERE, "check"), p, "--repo", scratch], stdout=subprocess.PIPE,
                               stderr=subprocess.STDOUT, text=True, env=env)
            fails = re.findall(r"^  FAIL (\S+) (.*?) @ ", c.stdout, re.M)
            out[p] = {"rc": c.returncode, "fails": sorted({f[0] for f in fails}),
                      "first": (fails[0][1][:100] if fails else ""),
                      "err": [l for l in c.stdout.splitlines() if l.startswith("ANALYSIS-ERROR")][:2]}
        return seed, out
    finally:
        shutil.rmtree(scratch, ignore_errors=True)

def main():
    ap = argparse.ArgumentParser()
    ap.add_argument("-j", type=int, default=8)
    ap.add_argument("--only")
    ap.add_argument("--props")
    ap.add_argument("--all-props", action="store_true")
    a = ap.parse_args()
    seeds = sorted(d for d in os.listdir(os.path.join(HERE, "seeded")) if os.path.exists(os.path.join(HERE, "seeded", d, "patch.diff")))
    if a.only:
        seeds = [s for s in seeds if s.startswith(a.only)]
    cl = claimed()
    try:
        index = json.load(open(os.path.join(HERE, "seeded", "INDEX.json")))
    except Exception:
        index = {}
    jobs = []
    for s in seeds:
        if a.props:
            props = a.props.split(",")
        elif a.all_props:
            props = cl
        else:
            props = [p for p in cl if p in index.get(s, [s.split("-")[-2] if re.match(r"w\d+-", s) else s.split("-")[0]])]
        if props:
            jobs.append((s, props))
    with ThreadPoolExecutor(max_workers=a.j) as ex:
        res = list(ex.map(lambda j: run_seed(*j), jobs))
    caught = 0
    for seed, out in res:
        hit = [p for p, o in out.items() if isinstance(o, dict) and o.get("rc") == 1]
        caught += bool(hit)
        line = "%-8s %s" % (seed, "CAUGHT by " + ",".join(hit) if hit else "missed")
        for p, o in out.items():
            if isinstance(o, dict):
                if o["fails"] or o["err"]:
                    line += "  [%s rc=%d %s %s %s]" % (p, o["rc"], ",".join(o["fails"]), o["first"], " ".join(o["err"])[:80])
            else:
                line += " " + str(o)
        print(line)
    print("seeds: %d  caught: %d" % (len(res), caught))

if __name__ == "__main__":
    main()
