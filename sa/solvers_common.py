"""Shared facts about the solver functions (coneprog.conelp/coneqp, cvxprog.cpl/cp):
KKT callables, protected call sites, returns with their status values, epilogues."""
import ast

from . import pyfront as pf
from .core import AnalysisError

SOLVERS = [("coneprog", "conelp"), ("coneprog", "coneqp"), ("cvxprog", "cpl")]
ENTRY_POINTS = [("coneprog", "conelp"), ("coneprog", "coneqp"), ("coneprog", "lp"),
                ("coneprog", "socp"), ("coneprog", "sdp"), ("coneprog", "qp"),
                ("cvxprog", "cpl"), ("cvxprog", "cp"), ("cvxprog", "gp")]


def kkt_callables(fn):
    """Names in fn's scope that are (or wrap) the KKT solver: the parameter `kktsolver`,
    names bound from a call to one, nested defs that (transitively) call one."""
    kkt = {"kktsolver"}
    changed = True
    while changed:
        changed = False
        for n in pf._scope_nodes(fn):
            if isinstance(n, ast.Assign) and isinstance(n.value, ast.Call) \
                    and isinstance(n.value.func, ast.Name) and n.value.func.id in kkt:
                for t in n.targets:
                    if isinstance(t, ast.Name) and t.id not in kkt:
                        kkt.add(t.id)
                        changed = True
            if isinstance(n, ast.FunctionDef) and n.name not in kkt:
                for c in ast.walk(n):
                    if isinstance(c, ast.Call) and isinstance(c.func, ast.Name) and c.func.id in kkt:
                        kkt.add(n.name)
                        changed = True
                        break
    return kkt


def kkt_call_sites(fn):
    kkt = kkt_callables(fn)
    out = []
    for n in pf._scope_nodes(fn):
        if isinstance(n, ast.Call) and isinstance(n.func, ast.Name) and n.func.id in kkt:
            out.append(n)
    out.sort(key=lambda c: (c.lineno, c.col_offset))
    return kkt, out


def handler_catches(h, excname):
    if h.type is None:
        return True
    names = [h.type] if not isinstance(h.type, ast.Tuple) else list(h.type.elts)
    for t in names:
        if isinstance(t, ast.Name) and t.id in (excname, "Exception", "BaseException"):
            return True
    return False


def protecting_try(node, fn, excname="ArithmeticError"):
    """Innermost Try (within fn) whose *body* contains node and that has a handler for
    excname; None if unprotected."""
    p = node
    while p is not None and p is not fn:
        q = getattr(p, "_parent", None)
        if isinstance(q, ast.Try) and any(p is s for s in q.body):
            if any(handler_catches(h, excname) for h in q.handlers):
                return q
        p = q
    return None


def main_loop(fn):
    """The `for iters in range(MAXITERS+1)` loop of a solver."""
    for s in fn.body:
        if isinstance(s, ast.For) and isinstance(s.target, ast.Name) and \
                isinstance(s.iter, ast.Call) and isinstance(s.iter.func, ast.Name) and s.iter.func.id == "range":
            return s
    return None


def returns_of(fn):
    return [n for n in pf._scope_nodes(fn) if isinstance(n, ast.Return)]


def status_values(ret, fn, cfg=None, rd=None):
    """Possible constant values of the 'status' entry of a returned dict literal;
    None if the return is not a dict literal with a 'status' key; the set contains
    the string '?' if some reaching value is not a constant."""
    d = ret.value
    if not isinstance(d, ast.Dict):
        return None
    items = pf.dict_literal_items(d)
    if "status" not in items:
        return None
    v = items["status"]
    if isinstance(v, ast.Constant):
        return {v.value}
    if isinstance(v, ast.Name):
        cfg = cfg or pf.CFG(fn)
        rd = rd or pf.reaching_defs(cfg, fn, [v.id])
        node = cfg.node_of(ret)
        vals = set()
        for dn in rd[node].get(v.id, set()):
            st = cfg.node_stmt.get(dn)
            if isinstance(st, ast.Assign) and isinstance(st.value, ast.Constant) and \
                    len(st.targets) == 1 and isinstance(st.targets[0], ast.Name):
                vals.add(st.value.value)
            else:
                vals.add("?")
        return vals
    return {"?"}


def preceding_in_blocks(stmt, stop):
    """Statements that lexically precede `stmt` in its enclosing blocks up to (not
    including) `stop` — i.e. the straight-line prefix leading to stmt inside stop."""
    out = []
    n = stmt
    while n is not None and n is not stop:
        p = getattr(n, "_parent", None)
        if p is None:
            break
        blocks = [getattr(p, f) for f in ("body", "orelse", "finalbody") if isinstance(getattr(p, f, None), list)]
        if isinstance(p, ast.Try):
            blocks += [h.body for h in p.handlers]
        for b in blocks:
            idx = [i for i, x in enumerate(b) if x is n]
            if idx:
                out = b[:idx[0]] + out
        n = p
    return out


EPILOGUE_CALLEES = ("misc.symm", "misc.max_step", "xscal", "yscal", "blas.scal")


def epilogue_calls(stmts):
    """Normalised call strings of the 'result finalisation' calls in a statement list
    (descending into loops/ifs of that list)."""
    out = []
    for s in stmts:
        for n in ast.walk(s):
            if isinstance(n, ast.Call):
                nm = pf.call_name(n)
                if nm in EPILOGUE_CALLEES:
                    out.append(pf.norm_expr(n))
    return out
