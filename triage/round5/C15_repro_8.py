# elementwise power: domain check too narrow, and 0j**0
from cvxopt import matrix
try: print(list(matrix([-8., 2.]) ** 0.5))
except Exception as e: print(type(e).__name__, e)          # ValueError: domain error   (good)
print(list(matrix([-8., 2.]) ** 1.5))                       # [nan, 2.83]   expected ValueError
print(list(matrix([-8., 2.]) ** -0.5))                      # [nan, 0.707]  expected ValueError
print(list(matrix([-8, 2]) ** 2.5))                         # [nan, 5.66]   expected ValueError
print(list(matrix([0j, 2]) ** 0), "expected", [0j ** 0, (2+0j) ** 0])
