# A huge Python int as alpha/beta: the operation is carried out with the scalar -1.0 and a SystemError is raised.
from cvxopt import matrix, blas
x = matrix([1., 2., 3.])
try:
    blas.scal(10**400, x)
except BaseException as e:
    print(type(e).__name__, ":", e)
print("x after scal      :", list(x))
A = matrix([1., 2., 3., 4.], (2, 2)); v = matrix([1., 1.]); y = matrix([10., 20.])
try:
    blas.gemv(A, v, y, alpha=1.0, beta=10**400)
except BaseException as e:
    print(type(e).__name__, ":", e)
print("y after gemv      :", list(y))
z = matrix([1+1j, 2+0j])
try:
    blas.axpy(z, z, alpha=10**400)
except BaseException as e:
    print(type(e).__name__, ":", e)
print("z after axpy      :", list(z))
