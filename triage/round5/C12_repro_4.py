# objective.value() raises after an infeasible solve when the objective contains sum(max(...))
from cvxopt import matrix, solvers
from cvxopt.modeling import variable, op, max, sum
solvers.options['show_progress'] = False
x = variable(2)
p = op(sum(abs(x)), [x >= 1, x <= 0])
p.solve()
print(p.status, x.value)
try: print('objective.value() =', p.objective.value(), '(expected None)')
except Exception as e: print('objective.value() ->', type(e).__name__, e, '(expected None)')
print('max(abs(x)).value() =', max(abs(x)).value())   # the _minmax variant correctly returns None
c = (sum(max(x, 0)) <= 1)
try: print(c.value())
except Exception as e: print('constraint.value() ->', type(e).__name__, e, '(expected None)')
