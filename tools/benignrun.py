#!/venv/bin/python
"""False-alarm probe: apply each behaviour-preserving refactoring under <root>/<B>/out/<k>/patch.diff
(default root /verif/benign) to a scratch copy of /repo's src+doc and run every claimed check on it.
Any exit code other than 0 is a false alarm (1) or a brittle anchor (2) of the machinery.
usage: tools/benignrun.py [-j N] [--root DIR] [--only B1-2]"""
import argparse, json, os, re, shutil, subprocess, tempfile
from concurrent.futures import ThreadPoolExecutor
HERE = os.path.dirname(os.path.dirname(os.path.abspath(__file__)))


def claimed():
    return [c["property_id"] for c in json.load(open(os.path.join(HERE, "MANIFEST.json")))["checks"]]


def run_one(name, patch, props):
    scratch = tempfile.mkdtemp(prefix="benign-", dir="/var/tmp")
    try:
        for d in ("src", "doc"):
            shutil.copytree(os.path.join("/repo", d), os.path.join(scratch, d))
        r = subprocess.run(["patch", "-p1", "-s", "-d", scratch, "-i", patch], stdout=subprocess.PIPE, stderr=subprocess.STDOUT, text=True)
        if r.returncode != 0:
            return name, {"_apply": "FAILED " + r.stdout[-150:]}
        out = {}
        for p in props:
            env = dict(os.environ, VERIF_NO_EVIDENCE="1")
            c = subprocess.run([os.path.join(HERE, "check"), p, "--repo", scratch], stdout=subprocess.PIPE, stderr=subprocess.STDOUT, text=True, env=env)
            if c.returncode != 0:
                fails = re.findall(r"^  FAIL (\S+) (.*?) @ (\S+)", c.stdout, re.M)
                errs = [l for l in c.stdout.splitlines() if l.startswith("ANALYSIS-ERROR")]
                out[p] = (c.returncode, fails[:4], errs[:2])
        return name, out
    finally:
        shutil.rmtree(scratch, ignore_errors=True)


def main():
    ap = argparse.ArgumentParser()
    ap.add_argument("-j", type=int, default=6)
    ap.add_argument("--root", default=os.path.join(HERE, "benign"))
    ap.add_argument("--only")
    ap.add_argument("--props")
    a = ap.parse_args()
    jobs = []
    for b in sorted(os.listdir(a.root)):
        for sub in ("out", ""):
            od = os.path.join(a.root, b, sub) if sub else os.path.join(a.root, b)
            if os.path.exists(os.path.join(od, "patch.diff")):
                jobs.append((b, os.path.join(od, "patch.diff")))
                break
            if sub and os.path.isdir(od):
                for k in sorted(os.listdir(od)):
                    pth = os.path.join(od, k, "patch.diff")
                    if os.path.exists(pth):
                        jobs.append(("%s-%s" % (b, k), pth))
                break
    if a.only:
        jobs = [j for j in jobs if j[0].startswith(a.only)]
    props = a.props.split(",") if a.props else claimed()
    with ThreadPoolExecutor(max_workers=a.j) as ex:
        res = list(ex.map(lambda j: run_one(j[0], j[1], props), jobs))
    bad = 0
    for name, out in res:
        if out:
            bad += 1
            print("%-8s ALARM %s" % (name, json.dumps(out)[:900]))
        else:
            print("%-8s quiet" % name)
    print("benign changes: %d  alarms: %d" % (len(res), bad))


if __name__ == "__main__":
    main()
