# C13 / repro 4: a problem with equality constraints only is refused with an IndexError
# from _inmatrixform (mmap uses constraints[1] although only one constraint was built),
# whereas the same problem in matrix form gets the intended TypeError.
from cvxopt import matrix, solvers
from cvxopt.modeling import variable, op, sum
solvers.options['show_progress'] = False
x = variable(2, 'x')
c1 = (x[0] == 1); c2 = (x[1] == 2); lb = (x >= 0)
p = op(sum(x), [c1, c2, lb])
p.solve(); print('with x>=0:', p.status, p.objective.value()[0])
p.delconstraint(lb)
for q in (p, op(sum(x), [matrix([[1., 0.], [0., 1.]])*x == matrix([1., 2.])])):
    try:
        q.solve(); print(q.status)
    except Exception as e:
        print('%s: %s' % (type(e).__name__, e))
