# a 2-D buffer of the wrong shape is silently reshaped by A[:, :] = buf (same typecode only)
import array
from cvxopt import matrix
d = memoryview(array.array('d', [1,2,3,4,5,6])).cast('B').cast('d', shape=[3,2])   # 3x2
l = memoryview(array.array('l', [1,2,3,4,5,6])).cast('B').cast('l', shape=[3,2])   # 3x2 ints
for name, rhs in [('double 3x2 buffer', d), ('int 3x2 buffer', l), ('3x2 matrix', matrix(d))]:
    A = matrix(0.0, (2,3))
    try: A[:, :] = rhs; print(name, 'ACCEPTED ->', list(A))
    except Exception as e: print(name, 'refused:', type(e).__name__, e)
