"""Rules over the C wrapper functions shared by C17, C18, C19 (and C08/C15/C20)."""
import re
from concurrent.futures import ProcessPoolExecutor

from . import cexpr as cx
from . import cfront as cf
from . import cguards as cg
from . import cmodel as cm
from .core import AnalysisError

_G = {}


def _fp_worker(args):
    repo, fname, fn = args[:3]
    kbname = args[3] if len(args) > 3 else "kb_blas"
    import importlib
    kbmod = importlib.import_module("sa." + kbname)
    c = _G.get((repo, fname))
    if c is None:
        c = cf.load_c(repo, files=[fname])[fname]
        _G[(repo, fname)] = c
    ext = set(c.externs)
    tables = fname == "base.c"
    if tables:
        # base.c reaches BLAS through per-type function-pointer tables: gemv[id](...)
        ext |= {"tbl:" + t for t in ("scal", "gemv", "gemm", "syrk", "symv", "axpy")}
    sim = cm.Simulator(c, fn)
    g = cg.global_sign_facts(sim)
    allocs = cg.local_allocations(sim)
    seen = {}
    ncase = 0
    nsite = 0
    for case in (sim.cases(mids=(None,)) if tables else sim.cases()):
        ncase += 1
        sites, end = sim.run(case, ext)
        for s in sites:
            if tables and not s.callee.startswith("tbl:"):
                continue
            nsite += 1
            for st, what, detail, exp, obs in cg.check_site(s, sim, g, kbmod, allocs):
                fl = " ".join("%s=%s" % kv for kv in sorted(case.flags.items()))
                key = (st, what, fl if st == "ok" else "")
                if key not in seen:
                    seen[key] = (detail, exp, obs, c.line_of(s.node.get("b")), repr(case))
    return fn, ncase, nsite, [(k, v) for k, v in seen.items()], sim.parse_errors[:3]


def footprint_rule(rule_cover, rule_exact, repo, fname, wrappers, jobs=8, kbname="kb_blas"):
    """rule_cover: guard >= footprint (C19); rule_exact: guard == footprint (C17).
    Either may be None."""
    work = [(repo, fname, fn, kbname) for fn in wrappers]
    with ProcessPoolExecutor(max_workers=jobs) as ex:
        results = list(ex.map(_fp_worker, work))
    stats = {"cases": 0, "call_sites": 0}
    for fn, ncase, nsite, items, perr in results:
        stats["cases"] += ncase
        stats["call_sites"] += nsite
        for (st, what, fl), (detail, exp, obs, line, case) in items:
            key = "%s:%s:%s" % (fn, what, fl) if fl else "%s:%s" % (fn, what)
            where = "src/C/%s:%s:%d" % (fname, fn, line)
            if st == "ok":
                for r in (rule_cover, rule_exact):
                    if r is not None:
                        r.ok(key, where, detail)
            elif st == "violation":
                for r in (rule_cover, rule_exact):
                    if r is not None:
                        r.violation(key, where, detail, exp, obs)
            elif st == "violation-over":
                if rule_exact is not None:
                    rule_exact.violation(key, where, detail, exp, obs)
                if rule_cover is not None:
                    rule_cover.ok(key, where, detail)
            else:
                for r in (rule_cover, rule_exact):
                    if r is not None:
                        r.undecided(key, where, detail)
        if perr:
            for r in (rule_cover, rule_exact):
                if r is not None:
                    r.undecided("%s:condition text" % fn, "src/C/%s:%s" % (fname, fn), "unparsed condition: %s" % (perr[0],))
    return stats


# --------------------------------------------------------------------------------------
# d / z sibling isomorphism
# --------------------------------------------------------------------------------------

def _norm_arm(text):
    """normalise the text of a type arm so that the real and complex arms compare:
    precision prefix of Fortran symbols, buffer macros, union members, literals"""
    t = re.sub(r"/\*.*?\*/", "", text, flags=re.S)
    t = re.sub(r"#\s*(if|ifdef|ifndef|else|endif|elif)[^\n]*", "", t)
    t = re.sub(r"\s+", "", t)
    t = re.sub(r"\b([dz])([a-z0-9]+_)\(", r"#\2(", t)
    t = t.replace("MAT_BUFD", "MAT_BUF#").replace("MAT_BUFZ", "MAT_BUF#")
    t = re.sub(r"\.([dz])\b", ".#", t)
    t = t.replace("(double*)", "").replace("(complex_t*)", "")
    t = t.replace("sizeof(double)", "sizeof(#)").replace("sizeof(complex_t)", "sizeof(#)")
    return t


def arm_calls(c, fn_node, externs):
    """{arm label: [ (callee, [arg texts]) ]} for the switch(MAT_ID(..)) arms of a wrapper"""
    out = {}
    sim = cm.Simulator.__new__(cm.Simulator)
    sim.c = c
    sim._cond_cache = {}
    sim.parse_errors = []
    for sw in cf.walk(fn_node):
        if sw.get("k") != "SwitchStmt":
            continue
        ce = sim.cond_of(sw)
        if ce is None or not cm.is_type_id_expr(c, fn_node, ce):
            continue
        body = sw["c"][-1]
        for labels, stmts in cm.Simulator._switch_arms(sim, body):
            calls = []
            for s in stmts:
                for n in cf.walk(s):
                    if n.get("k") == "CallExpr" and cf.callee_name(n) in externs and not n.get("bm"):
                        span = c.paren_after(n["b"])
                        if span:
                            calls.append((cf.callee_name(n), cf.split_top(c.text(span[0] + 1, span[1])), n))
            for lab in labels:
                out.setdefault((id(sw), lab), []).extend(calls)
    return out


def sibling_rule(rule, c, wrappers, pair_exceptions=None):
    """In each wrapper the DOUBLE and COMPLEX arms make the same sequence of external
    calls with argument lists identical up to precision (d<->z symbol prefix,
    MAT_BUFD<->MAT_BUFZ, .d<->.z)."""
    ext = set(c.externs)
    n = 0
    for fn in wrappers:
        node = c.funcs[fn]
        arms = arm_calls(c, node, ext)
        by_sw = {}
        for (sw, lab), calls in arms.items():
            by_sw.setdefault(sw, {})[lab] = calls
        for sw, labs in by_sw.items():
            if "DOUBLE" not in labs or "COMPLEX" not in labs:
                continue
            d, z = labs["DOUBLE"], labs["COMPLEX"]
            key = "%s:DOUBLE~COMPLEX" % fn
            where = "src/C/%s:%s:%d" % (c.name, fn, c.line_of(d[0][2].get("b")) if d else 0)
            n += 1
            if pair_exceptions and fn in pair_exceptions:
                rule.ok(key + ":named-exception", where, pair_exceptions[fn])
                continue
            if len(d) != len(z):
                rule.violation(key + ":calls", where, "the real and complex arms make a different number of library calls",
                               [x[0] for x in d], [x[0] for x in z])
                continue
            bad = None
            for (dn, da, _), (zn, za, zn_node) in zip(d, z):
                if sum(1 for a in da if a.strip() == "NULL") >= 2 and sum(1 for a in za if a.strip() == "NULL") >= 2:
                    continue      # workspace queries: no array is referenced, only lwork matters
                if len(da) != len(za):
                    # complex LAPACK routines take extra real work arrays (rwork, lrwork),
                    # passed as NULL / a dummy in the workspace query
                    import difflib
                    na, nb = [_norm_arm(x) for x in da], [_norm_arm(x) for x in za]
                    sm = difflib.SequenceMatcher(a=na, b=nb, autojunk=False)
                    extra, okalign = [], True
                    for tag, i1, i2, j1, j2 in sm.get_opcodes():
                        if tag == "insert":
                            extra += list(range(j1, j2))
                        elif tag != "equal":
                            okalign = False
                    if okalign and all(re.search(r"\bl?rw(ork|l)\b|^NULL$|&lrwork|&rwl", za[j].strip()) for j in extra):
                        za = [a for j, a in enumerate(za) if j not in extra]
                if len(da) != len(za):
                    bad = (dn, zn, "argument count %d vs %d" % (len(da), len(za)))
                    break
                for i, (a, b) in enumerate(zip(da, za)):
                    if _norm_arm(a) != _norm_arm(b):
                        bad = (dn, zn, "argument %d: `%s` vs `%s`" % (i + 1, a.strip(), b.strip()))
                        break
                if bad:
                    break
            if bad:
                rule.violation(key + ":%s~%s" % (bad[0], bad[1]), where,
                               "real and complex arms pass different arguments to the sibling routines: %s" % bad[2],
                               "identical up to precision", bad[2])
            else:
                rule.ok(key, where, "%d call(s) argument-wise identical up to precision" % len(d))
    return n


def default_length_rule(rule, c, wrappers):
    """Level-1 wrappers: the default of an omitted n is the number of elements the vector holds
    from its offset on with its stride, i.e. the largest n with offset + 1 + (n-1)*|inc| <= len
    (0 when the offset is past the end).  Decided by evaluating the default expression on a
    grid of small (len, offset, inc) and comparing with that definition."""
    from . import ceval as ce
    helpers = ce.one_line_helpers(c)
    cnt = 0
    for fn in wrappers:
        sim = cm.Simulator(c, fn)
        g = cg.global_sign_facts(sim)
        cands = []
        for st in cf.walk(sim.body):
            if st.get("k") != "IfStmt":
                continue
            cond = sim.cond_of(st)
            if cond is None or cx.unparse(cx.strip_casts(cond)).replace(" ", "") not in ("(n<0)", "n<0"):
                continue
            for x in cf.walk(st["c"][1]) if len(st.get("c", [])) > 1 else []:
                if x.get("k") == "BinaryOperator" and x.get("op") == "=" and not x.get("bm"):
                    e = sim.stmt_expr(x)
                    if e and e[0] == "assign" and e[2] == ("id", "n"):
                        cands.append((x, e[3]))
                elif x.get("k") == "IfStmt":
                    e = sim.cond_of(x)
                    if e is not None:
                        e = cx.strip_casts(e)
                        if e[0] == "bin" and e[1] in ("!=", "==") and cx.strip_casts(e[2]) == ("id", "n"):
                            cands.append((x, e[3]))
        for node, expr in cands:
            names = ce.free_names(expr, helpers)
            lens = [x for x in names if x.startswith("len(")]
            if len(lens) != 1:
                continue               # not a vector-length default (matrix dimensions etc.)
            V = lens[0][4:-1]
            ov, iv = "o" + V, "i" + V
            key = "%s:default n from %s" % (fn, V)
            where = "src/C/%s:%s:%d" % (c.name, fn, c.line_of(node.get("b")))
            cnt += 1
            if names - {lens[0], ov, iv}:
                rule.undecided(key, where, "default expression uses %s besides len/offset/inc" % sorted(names - {lens[0], ov, iv}))
                continue
            incs = (1, 2, 3) if ">0" in g.get(iv, ()) else (-3, -2, -1, 1, 2, 3)
            bad = None
            try:
                for L in range(0, 10):
                    for o in range(0, 6):
                        for inc in incs:
                            got = ce.ceval(expr, {lens[0]: L, ov: o, iv: inc}, helpers)
                            want = 0 if L < o + 1 else 1 + (L - o - 1) // abs(inc)
                            if got != want and bad is None:
                                bad = ({"len": L, "offset": o, "inc": inc}, got, want)
            except (ce.Unknown, ZeroDivisionError) as ex:
                rule.undecided(key, where, "default expression not evaluable: %s" % ex)
                continue
            if bad:
                rule.violation(key, where,
                               "with n omitted, %s gives n = %d but the vector addressed from its offset with its stride has %d elements"
                               % (bad[0], bad[1], bad[2]), "(len >= o+1) ? 1 + (len-o-1)/|inc| : 0", cx.unparse(expr))
            else:
                rule.ok(key, where, cx.unparse(expr)[:80])
    return cnt


def switch_arm_texts(c, sw):
    """{label: text} of the top-level arms of a switch statement, from the source text with
    preprocessor conditionals resolved for the analysed configuration (so that an arm that
    starts inside an #if block is cut consistently)."""
    span = c.paren_after(sw["b"])
    if not span:
        return {}
    src = c.srcb
    i = span[1] + 1
    n = len(src)
    while i < n and src[i:i + 1] != b"{":
        if src[i:i + 1] not in b" \t\r\n":
            return {}
        i += 1
    depth, j = 0, i
    while j < n:
        ch = src[j:j + 1]
        if ch in (b'"', b"'"):
            q = ch
            j += 1
            while j < n and src[j:j + 1] != q:
                if src[j:j + 1] == b"\\":
                    j += 1
                j += 1
        elif src[j:j + 2] == b"//":
            k = src.find(b"\n", j)
            j = k if k >= 0 else n
        elif src[j:j + 2] == b"/*":
            k = src.find(b"*/", j + 2)
            j = k + 1 if k >= 0 else n
        elif ch == b"{":
            depth += 1
        elif ch == b"}":
            depth -= 1
            if depth == 0:
                break
        j += 1
    body = cx.strip_pp(src[i + 1:j].decode(errors="replace"))
    body = re.sub(r"//[^\n]*", "", body)
    body = re.sub(r"/\*.*?\*/", "", body, flags=re.S)
    arms, cur, depth = {}, None, 0
    pos = 0
    lab_re = re.compile(r"\b(case\s+(\w+)|default)\s*:")
    marks = []
    k = 0
    while k < len(body):
        ch = body[k]
        if ch in "({[":
            depth += 1
        elif ch in ")}]":
            depth -= 1
        elif depth == 0:
            m_ = lab_re.match(body, k)
            if m_ and (k == 0 or not (body[k - 1].isalnum() or body[k - 1] == "_")):
                marks.append((k, m_.end(), m_.group(2) or "default"))
                k = m_.end()
                continue
        k += 1
    for idx, (b0, e0, lab) in enumerate(marks):
        end = marks[idx + 1][0] if idx + 1 < len(marks) else len(body)
        arms.setdefault(lab, "")
        arms[lab] += body[e0:end]
    # fall-through labels (`case A: case B: stmts`) share the statements of the next arm
    labs = [m_[2] for m_ in marks]
    for idx in range(len(labs) - 2, -1, -1):
        if not arms[labs[idx]].strip():
            arms[labs[idx]] = arms[labs[idx + 1]]
    return arms


def _norm_typed(t):
    t = re.sub(r"\s+", "", t)
    t = re.sub(r"MAT_BUF[IDZ]\b", "MAT_BUF#", t)
    t = re.sub(r"\.(i|d|z)\b", ".#", t)
    t = re.sub(r"\b(int_t|double|complex_t)\b", "#", t)
    t = re.sub(r"\b(\d+)\.0\b", r"\1", t)          # 0.0 of the floating arms == 0 of the integer arm
    return t


def typed_arm_rule(rule, c, functions, exceptions=None):
    """`switch (id)` statements whose INT / DOUBLE / COMPLEX arms do the same element-wise
    work must be identical up to the element type (MAT_BUFI/D/Z, n.i/n.d/n.z)."""
    n = 0
    exceptions = exceptions or {}
    for fn in functions:
        node = c.funcs[fn]
        nth = 0
        for sw in [x for x in cf.walk(node) if x.get("k") == "SwitchStmt" and x.get("b") is not None and not x.get("bm")]:
            arms = switch_arm_texts(c, sw)
            labs = [l for l in ("INT", "DOUBLE", "COMPLEX") if l in arms]
            if len(labs) < 2:
                continue
            nth += 1
            key = "%s:switch#%d:%s" % (fn, nth, "~".join(labs))
            where = "src/C/%s:%s:%d" % (c.name, fn, c.line_of(sw["b"]))
            n += 1
            if (fn, nth) in exceptions or fn in exceptions:
                rule.ok(key + ":named-exception", where, exceptions.get((fn, nth)) or exceptions.get(fn))
                continue
            norm = {l: _norm_typed(arms[l]) for l in labs}
            ref = norm[labs[0]]
            odd = [l for l in labs if norm[l] != ref]
            if not odd:
                rule.ok(key, where, ref[:60])
            else:
                # majority arm is the reference
                from collections import Counter
                common = Counter(norm.values()).most_common(1)[0][0]
                odd = [l for l in labs if norm[l] != common]
                rule.violation(key, where, "the %s arm differs from its sibling arms beyond the element type: `%s` vs `%s`"
                               % ("/".join(odd), arms[odd[0]].strip()[:90], [arms[l] for l in labs if l not in odd][0].strip()[:90]),
                               common[:100], norm[odd[0]][:100])
    return n


def normalise_kernel_text(t, strip_casts=True, rename_loops=True):
    """text of a C kernel made insensitive to local clean-ups before siblings are compared:
    comments and numeric pointer casts removed, locals that always receive the same expression
    replaced by it (copy propagation: `row = A->rowind[k]`, `int xs = (ix > 0 ? 0 : 1 - n)`),
    induction variables of for loops renamed to one placeholder."""
    t = cx.strip_pp(t)
    t = re.sub(r"//[^\n]*", "", t)
    t = re.sub(r"/\*.*?\*/", "", t, flags=re.S)
    if strip_casts:
        t = re.sub(r"\(\s*(?:double|complex_t|int_t|int|number)\s*\*?\s*\)", "", t)
    body_start = t.find("{")
    head, body = t[:body_start + 1], t[body_start + 1:]
    for _round in range(4):
        asg = {}
        for m_ in re.finditer(r"(?:(?<=[;{}(,])|(?<=\bint)|(?<=\bint_t)|(?<=\*))\s*([A-Za-z_]\w*)\s*=\s*([^;,=][^;,]*?)\s*(?=[;,])", body):
            v, rhs = m_.group(1), " ".join(m_.group(2).split())
            asg.setdefault(v, set()).add(rhs)
        # induction variables and variables updated in place are not constants
        upd = set(re.findall(r"\b([A-Za-z_]\w*)\s*(?:\+\+|--|[-+*/]=)", body)) | set(re.findall(r"(?:\+\+|--)\s*([A-Za-z_]\w*)", body))
        forv = set(re.findall(r"\bfor\s*\(\s*([A-Za-z_]\w*)\s*=", body))
        done = False
        for v, rhss in asg.items():
            if len(rhss) != 1 or v in upd or v in forv:
                continue
            rhs = next(iter(rhss))
            if re.search(r"\b%s\b" % re.escape(v), rhs) or "(" in rhs and re.search(r"\b(malloc|calloc|realloc)\b", rhs):
                continue
            # drop the defining statements, substitute elsewhere
            body2 = re.sub(r"(?:\b(?:int|int_t|double|complex_t)\s*\*?\s*)?\b%s\s*=\s*%s\s*;" % (re.escape(v), re.escape(rhs).replace("\\ ", "\\s*")), "", body)
            body2 = re.sub(r",\s*%s\s*=\s*%s(?=\s*[,;])" % (re.escape(v), re.escape(rhs).replace("\\ ", "\\s*")), "", body2)
            if body2 == body:
                continue
            body = re.sub(r"\b%s\b" % re.escape(v), "(" + rhs + ")", body2)
            done = True
            break
        if not done:
            break
    t = head + body
    if rename_loops:
        for v in set(re.findall(r"\bfor\s*\(\s*([A-Za-z_]\w*)\s*=", t)):
            t = re.sub(r"\b%s\b" % re.escape(v), "_i", t)
    return t


def _canon_expr(txt):
    """whitespace/parenthesis-insensitive form of a C expression (parsed when possible)"""
    try:
        return cx.unparse(cx.parse(txt)).replace(" ", "")
    except cx.ParseError:
        return re.sub(r"\s+", "", txt)


def sibling_function_rule(rule, c, pairs, exceptions=None):
    """real / complex kernels of sparse.c written as separate functions address their arrays
    with the same set of index expressions."""
    def subs(fn):
        node = c.funcs[fn]
        t = normalise_kernel_text(c.text(node["b"], node["e"]))
        out = set()
        for m_ in re.finditer(r"\b([A-Za-z_]\w*(?:->\w+)?)\s*\[", t):
            i, d = m_.end(), 1
            while i < len(t) and d:
                if t[i] == "[":
                    d += 1
                elif t[i] == "]":
                    d -= 1
                i += 1
            idx = _canon_expr(t[m_.end():i - 1])
            arr = re.sub(r"^[dz]list$", "#list", m_.group(1))
            idx = re.sub(r"\b(DOUBLE|COMPLEX)\b", "ID", idx)
            out.add((arr, idx))
        return out
    def ctrl(fn):
        node = c.funcs[fn]
        t = normalise_kernel_text(c.text(node["b"], node["e"]))
        out = []
        for m_ in re.finditer(r"\b(if|for|while)\s*\(", t):
            i, dd = m_.end(), 1
            while i < len(t) and dd:
                if t[i] == "(":
                    dd += 1
                elif t[i] == ")":
                    dd -= 1
                i += 1
            e_ = t[m_.end():i - 1]
            e_ = ";".join(_canon_expr(x_) for x_ in e_.split(";")) if m_.group(1) == "for" else _canon_expr(e_)
            e_ = re.sub(r"\b[dz]list\b", "#list", e_)
            e_ = re.sub(r"\b(DOUBLE|COMPLEX)\b", "ID", e_)
            out.append(m_.group(1) + "(" + e_ + ")")
        return sorted(out), len(re.findall(r"\belse\b(?!\s*if)", t))
    n = 0
    for d, z in pairs:
        if d not in c.funcs or z not in c.funcs:
            raise AnalysisError("sibling kernels %s / %s not found in %s" % (d, z, c.name))
        n += 1
        key = "%s~%s:index expressions" % (d, z)
        where = "src/C/%s:%s" % (c.name, d)
        if exceptions and d in exceptions:
            rule.ok(key + ":named-exception", where, exceptions[d])
            continue
        # semantic comparison first: the two kernels perform the same array accesses at every sampled
        # iteration point (sa/ckernel.py); only kernels it cannot interpret fall back to the textual form
        from . import ckernel as ck
        try:
            nenv, wit = ck.compare(c, d, z, 1500)
            if nenv < 50:
                raise ck.Unsupported("only %d environments evaluated" % nenv)
            if wit is None:
                rule.ok(key, where, "same array accesses at %d sampled iteration points" % nenv)
                rule.ok("%s~%s:conditions and loop bounds" % (d, z), where, "semantic comparison")
            else:
                rule.violation(key, where,
                               "the real and the complex kernel access different elements for %s: only %s %s, only %s %s"
                               % (wit[0], d, wit[1], z, wit[2]), "same accesses", wit[1:])
            continue
        except ck.Unsupported as ex:
            rule.observe("%s~%s: semantic comparison not applicable (%s); textual comparison used" % (d, z, ex))
        ca, cb = ctrl(d), ctrl(z)
        key2 = "%s~%s:conditions and loop bounds" % (d, z)
        if ca == cb:
            rule.ok(key2, where, "%d conditions / loop headers" % len(ca[0]))
        else:
            rule.violation(key2, where,
                           "the real and the complex kernel branch or loop differently: only %s: %s; only %s: %s (bare else: %d vs %d)"
                           % (d, [x for x in ca[0] if x not in cb[0]][:2], z, [x for x in cb[0] if x not in ca[0]][:2], ca[1], cb[1]),
                           "same conditions and loop headers", "differ")
        a, b = subs(d), subs(z)
        if a == b:
            rule.ok(key, where, "%d subscript expressions" % len(a))
        else:
            rule.violation(key, where, "the real and the complex kernel address their arrays differently: only %s: %s; only %s: %s"
                           % (d, sorted(a - b)[:2], z, sorted(b - a)[:2]), "same index set", sorted(a ^ b)[:4])
    return n


def fallback_scale_rule(rule, c, fn, routine, kbmod):
    """y := alpha*op(A)*x + beta*y with an empty inner dimension reduces to y := beta*y: the
    scal fallback of a wrapper scales y by the very beta (and y, incy) it hands to the main
    routine.  Compared as argument texts, arm by arm (d with d, z with z)."""
    node = c.funcs[fn]
    txt = cx.strip_pp(c.text(node["b"], node["e"]))
    txt = re.sub(r"/\*.*?\*/", "", txt, flags=re.S)
    params = [p_[0] for p_ in kbmod.ROUTINES[routine]]
    ib, iy, iinc = params.index("beta"), params.index("y"), params.index("incy")

    def calls(pat):
        out = []
        for m_ in re.finditer(pat, txt):
            i, d = m_.end(), 1
            while i < len(txt) and d:
                if txt[i] == "(":
                    d += 1
                elif txt[i] == ")":
                    d -= 1
                i += 1
            out.append((m_.group(1), [re.sub(r"\s+", "", a) for a in cf.split_top(txt[m_.end():i - 1])], m_.start()))
        return out
    mains = calls(r"\b([dz]%s_|%s\s*\[\s*\w+\s*\])\s*\(" % (routine, routine))
    scals = calls(r"\b([dz]scal_|scal\s*\[\s*\w+\s*\])\s*\(")
    n = 0
    for nm, args, pos in scals:
        arm = nm[0] if nm[0] in "dz" and nm.endswith("_") else ""
        main = [a for mn, a, _ in mains if (mn[0] if mn.endswith("_") else "") == arm and len(a) == len(params)]
        if not main or len(args) != 4:
            continue
        n += 1
        key = "%s:%s(%s, ..) fallback scales by beta" % (fn, nm.replace(" ", ""), args[0])
        where = "src/C/%s:%s:%d" % (c.name, fn, c.line_of(node["b"]) + txt[:pos].count("\n"))
        want = (main[0][ib], main[0][iy], main[0][iinc])
        got = (args[1], args[2], args[3])
        # xSCAL does nothing for a non-positive increment (xGEMV with incy < 0 addresses the same
        # elements backwards): the fallback's increment is |incy|, a variable assigned abs(incy)
        incv = want[2].lstrip("&")
        mabs = re.match(r"&(\w+)$", got[2])
        is_abs = bool(mabs) and mabs.group(1) != incv and \
            re.search(r"\b%s\s*=\s*abs\s*\(\s*%s\s*\)\s*;" % (re.escape(mabs.group(1)), re.escape(incv)), txt) is not None
        if got[:2] == want[:2] and is_abs:
            rule.ok(key, where, "scal(.., %s, %s, &|%s|)" % (got[0], got[1], incv))
        elif got == want:
            rule.violation(key + ":increment", where,
                           "the fallback hands the caller's signed increment `%s` to scal: for incy < 0 xSCAL does nothing, so y := beta*y "
                           "(and y := 0 for the default beta) is skipped while the main routine would address the same elements backwards"
                           % incv, "an increment assigned abs(%s)" % incv, got[2])
        else:
            rule.violation(key, where,
                           "the zero-dimension fallback computes y := (%s)*y on (%s, %s) but the main call passes beta = %s, y = %s, incy = %s: "
                           "with an empty inner dimension the result must be beta*y" % (got[0], got[1], got[2], want[0], want[1], want[2]),
                           "scal(&dim, %s, %s, %s)" % want, "scal(&dim, %s, %s, %s)" % got)
    return n


STORE_EXCEPTIONS = {
    "gees": "the real Schur routine returns the eigenvalues in two real arrays that the real arm merges into W; the complex routine writes W itself",
    "gges": "real arm merges alphar/alphai into a; the complex arm extracts the real beta from a complex array",
}


def arm_store_rule(rule, c, wrappers):
    """The DOUBLE and COMPLEX arms of a wrapper store the same things into matrix buffers
    by hand (pivot copy-backs, result assembly): the multisets of `MAT_BUF*(X)[..] = ..;`
    statements agree up to precision and the name of the loop index."""
    n = 0
    for fn in wrappers:
        node = c.funcs[fn]
        sim = cm.Simulator(c, fn)
        for sw in [x for x in cf.walk(node) if x.get("k") == "SwitchStmt"]:
            ce = sim.cond_of(sw)
            if ce is None or not cm.is_type_id_expr(c, node, ce):
                continue
            res = {}
            for labels, stmts in sim._switch_arms(sw["c"][-1]):
                lab = labels[0]
                if lab not in ("DOUBLE", "COMPLEX"):
                    continue
                bs = [s_.get("b") for s_ in stmts if s_.get("b") is not None]
                if not bs:
                    continue
                b0 = min(bs)
                e0 = max((s_.get("e") or s_.get("b")) for s_ in stmts if s_.get("b") is not None)
                txt = c.text(b0, e0 + 600)
                cut = re.search(r"\n\s*case\s+\w+\s*:|\n\s*default\s*:", txt)
                if cut:
                    txt = txt[:cut.start()]
                txt = cx.strip_pp(txt)
                res[lab] = sorted(re.sub(r"\b[ijk]\b", "_", _norm_arm(m_.group(0)))
                                  for m_ in re.finditer(r"MAT_BUF\w*\(\w+\)\s*\[[^;]*?\]\s*[-+*/]?=[^=][^;]*;", txt))
            if "DOUBLE" not in res or "COMPLEX" not in res:
                continue
            if not res["DOUBLE"] and not res["COMPLEX"]:
                continue
            n += 1
            key = "%s:DOUBLE~COMPLEX:stores" % fn
            where = "src/C/%s:%s:%d" % (c.name, fn, c.line_of(sw.get("b")))
            if fn in STORE_EXCEPTIONS:
                rule.ok(key + ":named-exception", where, STORE_EXCEPTIONS[fn])
            elif res["DOUBLE"] == res["COMPLEX"]:
                rule.ok(key, where, res["DOUBLE"][:3])
            else:
                only_d = [x for x in res["DOUBLE"] if x not in res["COMPLEX"]]
                only_z = [x for x in res["COMPLEX"] if x not in res["DOUBLE"]]
                rule.violation(key, where,
                               "the real and complex arms do not write the same results back into the matrix arguments: only real arm %s, only complex arm %s"
                               % (only_d[:2], only_z[:2]), res["DOUBLE"][:4], res["COMPLEX"][:4])
    return n


# --------------------------------------------------------------------------------------
# parse tables
# --------------------------------------------------------------------------------------
UNIT_TYPES = {
    "i": ("int",), "I": ("unsigned int",), "l": ("long",), "k": ("unsigned long",), "n": ("Py_ssize_t", "ssize_t", "long", "int_t"),
    "L": ("long long",), "d": ("double",), "f": ("float",), "c": ("char",), "C": ("int",),
    "s": ("char *", "const char *"), "z": ("char *", "const char *"), "p": ("int",),
    "O": ("*",), "O!": ("*",), "S": ("*",), "U": ("*",), "D": ("Py_complex",),
}


def signature_rule(rule, c, wrappers):
    """kwlist / format / address arguments agree in number; each format unit is parsed
    into a variable of the matching C type (a wider unit overwrites the stack)."""
    for fn in wrappers:
        w = cm.Wrapper(c, fn)
        where = "src/C/%s:%s" % (c.name, fn)
        if w.parse_call is None:
            continue
        units = w.format_units()
        if units is None:
            rule.undecided("%s:format" % fn, where, "format string not a literal")
            continue
        nvars = sum(2 if u in ("O!", "O&", "s#", "z#") else 1 for u, _ in units)
        key = "%s:parse tables" % fn
        if w.kwlist is not None and len(w.kwlist) != len(units):
            rule.violation(key + ":kwlist", where,
                           "%d keywords for %d format units: every keyword after the gap binds to the wrong variable"
                           % (len(w.kwlist), len(units)), "%d keywords" % len(units), w.kwlist)
            continue
        if nvars != len(w.addr_vars):
            rule.violation(key + ":addresses", where, "%d address arguments for a format that stores %d values" % (len(w.addr_vars), nvars),
                           nvars, len(w.addr_vars))
            continue
        byval = [v for v in w.addr_vars if v in w.addr_bare and v in w.locals and not re.search(r"[*\[]", w.locals[v][0] or "")]
        if byval:
            rule.violation(key + ":by-value", where,
                           "parse target(s) %s passed by value, not by address: PyArg_Parse* stores through the variable's current value "
                           "(a NULL / wild pointer write as soon as the argument is supplied)" % ", ".join("`%s`" % v for v in byval),
                           "&%s" % byval[0], byval)
            continue
        bad = []
        ai = 0
        for u, opt in units:
            var = w.addr_vars[ai + (1 if u in ("O!", "O&") else 0)] if ai < len(w.addr_vars) else None
            ai += 2 if u in ("O!", "O&", "s#", "z#") else 1
            if var is None or var not in w.locals:
                continue
            ty = (w.locals[var][0] or "").strip()
            allowed = UNIT_TYPES.get(u)
            if allowed is None:
                continue
            if allowed == ("*",):
                if "*" not in ty:
                    bad.append("%s -> %s %s" % (u, ty, var))
            elif ty not in allowed:
                bad.append("%s -> %s %s" % (u, ty, var))
        if bad:
            rule.violation(key + ":unit-types", where, "format unit parsed into a variable of a different C type", "matching types", bad)
        else:
            rule.ok(key, where, "%d units, %d keywords, %d addresses, types match" % (len(units), len(w.kwlist or []), len(w.addr_vars)))


ROUTINE_EXC = {
    ("sysv", "dsytrf_"): "workspace query", ("sysv", "zsytrf_"): "workspace query",
    ("hesv", "dsytrf_"): "workspace query", ("hesv", "zhetrf_"): "workspace query",
    ("scal", "zdscal_"): "real scalar times complex vector", ("dot", "ddot_"): "complex dot composed of real dots (C17-R6)",
    ("dotu", "ddot_"): "complex dot composed of real dots (C17-R6)", ("nrm2", "dznrm2_"): "BLAS name of the complex 2-norm",
    ("asum", "dzasum_"): "BLAS name", ("iamax", "idamax_"): "BLAS name", ("iamax", "izamax_"): "BLAS name",
    ("gemv", "dscal_"): "zero-dimension fallback (C17-R8)", ("gemv", "zscal_"): "zero-dimension fallback (C17-R8)",
    ("gbmv", "dscal_"): "zero-dimension fallback (C17-R8)", ("gbmv", "zscal_"): "zero-dimension fallback (C17-R8)",
    ("ger", "zgerc_"): "ger is the conjugated rank-1 update for complex data", ("geru", "dger_"): "real unconjugated = dger",
}


BUILD_UNITS = {"i": ("int", "char", "short", "unsigned short", "_Bool", "unsigned char"), "I": ("unsigned int",),
               "l": ("long", "Py_ssize_t", "int_t", "ssize_t"), "k": ("unsigned long", "size_t"),
               "n": ("Py_ssize_t", "long", "int_t", "ssize_t"), "L": ("long long",),
               "d": ("double",), "f": ("double", "float"), "c": ("int", "char"), "C": ("int",), "b": ("int", "char"), "h": ("int", "short")}


def buildvalue_rule(rule, c, functions):
    """Py_BuildValue with a literal format: the number of units equals the number of
    arguments and every integer / floating unit gets an argument of that C width (a 64-bit
    int_t passed for 'i' is read as a 32-bit int: truncated values)."""
    n = 0
    for fn in functions:
        for x in cf.walk(c.funcs[fn]):
            if x.get("k") != "CallExpr" or cf.callee_name(x) != "Py_BuildValue":
                continue
            kids = x.get("c", [])[1:]
            if not kids:
                continue
            f0 = cf.strip(kids[0])
            if f0.get("k") != "StringLiteral":
                continue
            fmt = (f0.get("v") or "").strip('"')
            units = [u for u in re.findall(r"[a-zA-Z]#?", fmt)]
            args = kids[1:]
            if not units and not args:
                continue
            n += 1
            line = c.line_of(x["b"]) if x.get("b") is not None else 0
            key = "%s:%s:Py_BuildValue(\"%s\")@%s" % (c.name, fn, fmt, re.sub(r"\s+", "", c.text(x["b"], x["b"] + 60).split(";")[0])[:50] if x.get("b") is not None else "")
            where = "src/C/%s:%s:%d" % (c.name, fn, line)
            if len(units) != len(args):
                rule.violation(key, where, "%d format units for %d arguments" % (len(units), len(args)), len(units), len(args))
                continue
            bad = []
            for u, a in zip(units, args):
                allowed = BUILD_UNITS.get(u)
                ty = (a.get("t") or "").replace("const ", "").strip()
                if allowed is not None and ty not in allowed:
                    bad.append("'%s' <- %s" % (u, ty))
            if bad:
                rule.violation(key, where, "format unit and argument type differ in width: %s (the value is read with the unit's C type)" % ", ".join(bad),
                               "matching unit (int_t / Py_ssize_t -> 'l' or 'n')", bad)
            else:
                rule.ok(key, where, "%s <- %s" % (units, [a.get("t") for a in args]))
    return n


def local_array_loop_rule(rule, c, wrappers):
    """Hand-written loops over a locally allocated array stay inside the allocation: for
    `for (v = 0; v < E; v++) .. P[v] ..` with `P = malloc/calloc(count ..)`, E <= count for all
    small values of the variables involved (MIN/MAX evaluated)."""
    from . import ceval as ce
    import itertools
    n = 0
    for fn in wrappers:
        sim = cm.Simulator(c, fn)
        node = c.funcs[fn]
        txt = cx.strip_pp(c.text(node["b"], node["e"]))
        txt = re.sub(r"/\*.*?\*/", "", txt, flags=re.S)
        allocs = {}
        for m_ in re.finditer(r"\b(\w+)\s*=\s*(?:\([^()]*\)\s*)?(calloc|malloc)\s*\(", txt):
            i, d = m_.end(), 1
            while i < len(txt) and d:
                if txt[i] == "(":
                    d += 1
                elif txt[i] == ")":
                    d -= 1
                i += 1
            args = cf.split_top(txt[m_.end():i - 1])
            cnt = None
            if m_.group(2) == "calloc" and len(args) == 2:
                cnt = args[0]
            elif m_.group(2) == "malloc" and len(args) == 1:
                mm = re.match(r"(.*)\*\s*sizeof\s*\([^()]*\)\s*$", args[0].strip()) or re.match(r"sizeof\s*\([^()]*\)\s*\*(.*)$", args[0].strip())
                if mm:
                    cnt = mm.group(1)
            if cnt is not None:
                allocs.setdefault(m_.group(1), []).append(cnt.strip())
        if not allocs:
            continue
        for m_ in re.finditer(r"\bfor\s*\(\s*(?:int\s+)?(\w+)\s*=\s*0\s*;\s*\1\s*<\s*([^;]+?)\s*;[^)]*\)", txt):
            v, bound = m_.group(1), m_.group(2)
            # body: up to the matching end of the statement / block
            j = m_.end()
            while j < len(txt) and txt[j].isspace():
                j += 1
            if j < len(txt) and txt[j] == "{":
                k, d = j + 1, 1
                while k < len(txt) and d:
                    if txt[k] == "{":
                        d += 1
                    elif txt[k] == "}":
                        d -= 1
                    k += 1
                body = txt[j:k]
            else:
                body = txt[j:txt.find(";", j) + 1]
            for P, counts in allocs.items():
                if not re.search(r"\b%s\s*\[\s*%s\s*\]" % (re.escape(P), re.escape(v)), body):
                    continue
                n += 1
                key = "%s:loop over %s[%s] bounded by %s" % (fn, P, v, re.sub(r"\s+", "", bound))
                where = "src/C/%s:%s:%d" % (c.name, fn, c.line_of(node["b"]) + txt[:m_.start()].count("\n"))
                try:
                    be = cx.parse(bound)
                    ces = [cx.parse(x) for x in counts]
                    names = sorted(ce.free_names(be) | set().union(*[ce.free_names(x) for x in ces]))
                    if len(names) > 5:
                        raise ce.Unknown("too many variables")
                    bad = None
                    for vals in itertools.product(range(0, 4), repeat=len(names)):
                        env = dict(zip(names, vals))
                        bv = ce.ceval(be, env)
                        if all(bv > ce.ceval(x, env) for x in ces) and bad is None:
                            bad = (env, bv, [ce.ceval(x, env) for x in ces])
                except (ce.Unknown, cx.ParseError, ZeroDivisionError) as ex:
                    rule.undecided(key, where, "bound or allocation size not evaluable: %s" % ex)
                    continue
                if bad:
                    rule.violation(key, where,
                                   "the loop runs to %s = %d but `%s` was allocated with %s = %s elements for %s: the wrapper reads/writes past its own work array"
                                   % (bound, bad[1], P, counts, bad[2], bad[0]), "bound <= allocation count", "%s > %s" % (bad[1], bad[2]))
                else:
                    rule.ok(key, where, "%s <= %s" % (bound, counts))
    return n


def subscript_offset_rule(rule, c, wrappers):
    """A matrix argument X that comes with an offset parameter oX is only ever subscripted by
    hand relative to that offset: every `MAT_BUF*(X)[e]` mentions oX."""
    n = 0
    for fn in wrappers:
        w = cm.Wrapper(c, fn)
        vars_ = set(w.addr_vars or [])
        node = c.funcs[fn]
        t = cx.strip_pp(c.text(node["b"], node["e"]))
        t = re.sub(r"/\*.*?\*/", "", t, flags=re.S)
        for m_ in re.finditer(r"MAT_BUF\w*\(\s*(\w+)\s*\)\s*\[", t):
            X = m_.group(1)
            if "o" + X not in vars_:
                continue
            i, d = m_.end(), 1
            while i < len(t) and d:
                if t[i] == "[":
                    d += 1
                elif t[i] == "]":
                    d -= 1
                i += 1
            idx = re.sub(r"\s+", "", t[m_.end():i - 1])
            n += 1
            key = "%s:MAT_BUF(%s)[..] uses o%s" % (fn, X, X)
            where = "src/C/%s:%s:%d" % (c.name, fn, c.line_of(node["b"]) + t[:m_.start()].count("\n"))
            if re.search(r"\bo%s\b" % re.escape(X), idx):
                rule.ok(key, where, idx)
            else:
                rule.violation(key, where, "`%s` is subscripted with `%s`, ignoring its offset argument o%s: with a nonzero offset the wrong entries are accessed"
                               % (X, idx, X), "o%s + .." % X, idx)
    return n


def routine_name_rule(rule, c, wrappers):
    """Each wrapper hands its data to the library routine of its own name: the real arm to
    d<name>_ (or the real counterpart of a Hermitian/unitary name: he->sy, hb->sb, hp->sp,
    un->or, her->syr), the complex arm to z<name>_."""
    ext = set(c.externs)
    n = 0
    for fn in wrappers:
        arms = arm_calls(c, c.funcs[fn], ext)
        for (sw, lab), calls in arms.items():
            if lab not in ("DOUBLE", "COMPLEX"):
                continue
            for r_ in sorted({x[0] for x in calls}):
                if not re.fullmatch(r"[a-z]\w+_", r_):
                    continue
                n += 1
                base = r_[1:-1]
                cands = {fn}
                if lab == "DOUBLE":
                    cands |= {re.sub(r"^he", "sy", fn), re.sub(r"^hb", "sb", fn), re.sub(r"^hp", "sp", fn), re.sub(r"^un", "or", fn)}
                key = "%s:%s arm calls %s" % (fn, lab, r_)
                where = "src/C/%s:%s" % (c.name, fn)
                if base in cands and r_[0] == ("d" if lab == "DOUBLE" else "z"):
                    rule.ok(key, where)
                elif (fn, r_) in ROUTINE_EXC:
                    rule.ok(key + ":named-exception", where, ROUTINE_EXC[(fn, r_)])
                else:
                    rule.violation(key, where, "the %s arm of %s calls `%s`, not the routine of its own name (%s%s_)"
                                   % (lab, fn, r_, "d" if lab == "DOUBLE" else "z", sorted(cands)[0]), "%s%s_" % ("d" if lab == "DOUBLE" else "z", fn), r_)
    return n


def parse_target_rule(rule, c, wrappers):
    """Every variable whose address is handed to PyArg_Parse* is *read* afterwards before it
    is overwritten (an assignment `v = E` with E not mentioning v as the first reference after
    the parse throws the caller's value away; the default idiom `if (v < 0) v = ..` reads v
    first), and a wrapper parses its arguments once."""
    n = 0
    for fn in wrappers:
        w = cm.Wrapper(c, fn)
        if w.parse_call is None:
            continue
        node = c.funcs[fn]
        where = "src/C/%s:%s" % (c.name, fn)
        txt = cx.strip_pp(c.text(node["b"], node["e"]))
        txt = re.sub(r"/\*.*?\*/", "", txt, flags=re.S)
        nparse = len(re.findall(r"\bPyArg_ParseTuple(?:AndKeywords)?\s*\(\s*args\b", txt))    # of the call's own argument tuple
        n += 1
        if nparse > 1:
            rule.violation("%s:one parse call" % fn, where,
                           "the arguments are parsed %d times in the analysed configuration: the later call re-stores raw values over "
                           "validated ones (and may use another format)" % nparse, "one PyArg_Parse* call", nparse)
        else:
            rule.ok("%s:one parse call" % fn, where)
        par = {}
        st = [node]
        while st:
            x = st.pop()
            for ch in x.get("c", []):
                par[id(ch)] = x
                st.append(ch)
        pb, pe = w.parse_call.get("b") or 0, w.parse_call.get("e") or 0
        pspan = c.paren_after(pb) if w.parse_call.get("b") is not None else None
        if pspan:
            pe = pspan[1]
        for v in w.addr_vars:
            refs = [x for x in cf.walk(node) if x.get("k") == "DeclRefExpr" and x.get("ref") == v and x.get("b") is not None
                    and x["b"] > pe and not x.get("bm")]
            refs += [x for x in cf.walk(node) if x.get("k") == "DeclRefExpr" and x.get("ref") == v and x.get("b") is not None
                     and x["b"] > pe and x.get("bm")]
            refs.sort(key=lambda r_: r_["b"])
            n += 1
            key = "%s:parsed `%s` is read" % (fn, v)
            if not refs:
                rule.violation(key, where, "`%s` is parsed from the arguments and never used: the caller's value has no effect" % v,
                               "a read of %s" % v, "no reference after the parse call")
                continue
            r_ = refs[0]
            p_ = par.get(id(r_))
            while p_ is not None and p_.get("k") in ("ImplicitCastExpr", "ParenExpr", "CStyleCastExpr"):
                r_, p_ = p_, par.get(id(p_))
            if p_ is not None and p_.get("k") == "BinaryOperator" and p_.get("op") == "=" and p_["c"][0] is r_ \
                    and not any(x.get("k") == "DeclRefExpr" and x.get("ref") == v for x in cf.walk(p_["c"][1])):
                rule.violation(key, where + ":%d" % c.line_of(refs[0]["b"]),
                               "`%s` is overwritten right after being parsed, before anything reads it: the caller's value is thrown away" % v,
                               "a read of %s first" % v, c.text(p_["b"], p_["b"] + 60).split(";")[0] if p_.get("b") is not None else "assignment")
            else:
                rule.ok(key, where)
    return n


def naming_rule(rule, c, wrappers):
    """The module convention for auxiliary integer arguments: for a matrix argument with
    keyword K held in C variable M, the variables oM / ldM / i<m> are exposed as
    offsetK / ldK / incK (or offset / inc when the function has a single vector)."""
    for fn in wrappers:
        w = cm.Wrapper(c, fn)
        pp = w.py_params()
        if not pp:
            continue
        where = "src/C/%s:%s" % (c.name, fn)
        mats = {var: kw for kw, var, unit, opt in pp if var and "*" in (w.locals.get(var, ("", None))[0] or "")}
        for kw, var, unit, opt in pp:
            if kw is None or var is None:
                continue
            ty = (w.locals.get(var, ("", None))[0] or "")
            if ty != "int":
                continue
            exp = None
            m1 = re.fullmatch(r"o([A-Za-z]\w*)", var)
            m2 = re.fullmatch(r"ld([A-Za-z]\w*)", var)
            m3 = re.fullmatch(r"i([a-z])", var)
            if m1 and m1.group(1) in mats:
                exp = {"offset" + mats[m1.group(1)], "offset", "offset" + m1.group(1)}
            elif m2 and m2.group(1) in mats:
                exp = {"ld" + mats[m2.group(1)]}
            elif m3 and m3.group(1) in mats:
                exp = {"inc" + mats[m3.group(1)], "inc"}
            if exp is None:
                continue
            key = "%s:keyword of %s" % (fn, var)
            if kw in exp:
                rule.ok(key, where, kw)
            else:
                rule.violation(key, where, "C variable `%s` (auxiliary argument of matrix `%s`) is exposed under keyword '%s'; "
                               "the documented convention names it %s" % (var, var[1:] if m1 else var[2:] if m2 else var[1:], kw, sorted(exp)),
                               sorted(exp), kw)
