"""A refusal names the argument it tested (blas.c, lapack.c, base.c, misc_solvers.c wrappers).

`if (COND) err_mtrx("B")`, `if (COND) err_ld("ldB")`, `if (COND) { PyErr_SetString(E, "B must .."); return NULL; }`:
the argument the message names (resolved through the wrapper's keyword table: "offsetB" -> oB,
"incx" -> ix) must occur in COND.  A copy-pasted test that still examines the previous argument
leaves the named argument unchecked - the refusal it was written for can never happen."""
import re

from . import cexpr as cx
from . import cmodel as cm


def _balanced(t, i):
    """t[i] == '(' -> index of the matching ')'"""
    d = 0
    for j in range(i, len(t)):
        if t[j] == "(":
            d += 1
        elif t[j] == ")":
            d -= 1
            if d == 0:
                return j
    return -1


_MSG = re.compile(r'\s*(?:\{\s*)?(?:(err_\w+)\s*\(\s*"([^"]+)"|PyErr_SetString\s*\(\s*\w+\s*,\s*"([^"]+)"|PY_ERR(?:_TYPE|_INT)?\s*\(\s*(?:\w+\s*,\s*)?"([^"]+)")')


def refusal_sites(c, fn):
    """[(cond text, named argument, line)]"""
    node = c.funcs[fn]
    t = cx.strip_pp(c.text(node["b"], node["e"]))
    t = re.sub(r"/\*.*?\*/", lambda m: " " * len(m.group(0)) if "\n" not in m.group(0) else re.sub(r"[^\n]", " ", m.group(0)), t, flags=re.S)
    out = []
    for m in re.finditer(r"\bif\s*\(", t):
        i = m.end() - 1
        j = _balanced(t, i)
        if j < 0:
            continue
        mm = _MSG.match(t, j + 1)
        if not mm:
            continue
        name = mm.group(2)
        if name is None:
            msg = mm.group(3) or mm.group(4) or ""
            w0 = re.match(r"\s*(?:length of\s+|dimensions of\s+)?([A-Za-z_]\w*)\b", msg)
            name = w0.group(1) if w0 else None
        if name:
            out.append((" ".join(t[i + 1:j].split()), name, c.line_of(node["b"]) + t[:m.start()].count("\n")))
    return out


def refusal_names_rule(rule, c, wrappers):
    n = 0
    for fn in wrappers:
        if fn not in c.funcs:
            continue
        w = cm.Wrapper(c, fn)
        pp = w.py_params() or []
        kw2var = {kw: var for kw, var, unit, opt in pp if kw and var}
        seen = set()
        for cond, name, line in refusal_sites(c, fn):
            accept = set()
            if name in kw2var:
                accept.add(kw2var[name])
            if name in w.locals:
                accept.add(name)
            if not accept:
                continue                       # the message does not start with an argument name
            ids = set(re.findall(r"[A-Za-z_]\w*", cond))
            key = "%s:refusal naming `%s` tests it @ %s" % (fn, name, cond[:50])
            if key in seen:
                continue
            seen.add(key)
            n += 1
            where = "src/C/%s:%s:%d" % (c.name, fn, line)
            if accept & ids:
                rule.ok(key, where)
            else:
                rule.violation(key, where,
                               "the refusal names `%s` but its condition `%s` does not examine %s: the named argument is never checked "
                               "(copy of the preceding test)" % (name, cond[:80], " / ".join(sorted(accept))),
                               "a condition on %s" % " / ".join(sorted(accept)), cond[:100])
    return n


# --------------------------------------------------------------------------------------
# dead refusals
# --------------------------------------------------------------------------------------

from . import cfront as cf


def _norm_cmp(e):
    """canonical text of a comparison disjunct: `a != b` / `a == b` with sorted sides"""
    e = cx.strip_casts(e)
    if e[0] == "bin" and e[1] in ("!=", "=="):
        a, b = sorted([cx.unparse(cx.strip_casts(e[2])).replace(" ", ""), cx.unparse(cx.strip_casts(e[3])).replace(" ", "")])
        return (e[1], a, b)
    return ("expr", cx.unparse(e).replace(" ", ""), "")


def _subst(text, env):
    for v, e in env.items():
        text = re.sub(r"(?<![\w>.])%s\b(?!\s*\()" % re.escape(v), "(" + e + ")", text)
    return text


def dead_refusal_rule(rule, c, functions):
    """Within one block, after `v = E;` and `if (C1) <error exit>`, a later `if (C2) <error exit>`
    whose every disjunct is - with v replaced by E - either `X != X` or a disjunct of an earlier
    refusal of the same block can never fire: the check it was written for (by its message, of
    another argument) does not exist."""
    n = 0
    for fn in functions:
        if fn not in c.funcs:
            continue
        node = c.funcs[fn]
        for blk in [x for x in cf.walk(node) if x.get("k") == "CompoundStmt"]:
            env, refused = {}, set()
            for st in blk.get("c", []):
                k = st.get("k")
                if k == "BinaryOperator" and st.get("op") == "=" and len(st.get("c", [])) == 2:
                    l = cf.strip(st["c"][0])
                    if l.get("k") == "DeclRefExpr" and st.get("b") is not None:
                        txt = c.stmt_text_until_semicolon(st["b"])
                        m = re.match(r"\s*(\w+)\s*=\s*(.+)$", txt, re.S)
                        v = l.get("ref")
                        # a write to v invalidates what was known through v
                        env = {a: e for a, e in env.items() if a != v and not re.search(r"\b%s\b" % re.escape(v), e)}
                        refused = {r for r in refused if not re.search(r"\b%s\b" % re.escape(v), r[1] + " " + r[2])}
                        if m and m.group(1) == v and not re.search(r"\b%s\b" % re.escape(v), m.group(2)) and "(" not in m.group(2).replace("MAX(", "").replace("MIN(", ""):
                            env[v] = " ".join(m.group(2).split())
                    continue
                if k != "IfStmt" or st.get("b") is None:
                    if k not in ("DeclStmt", "NullStmt"):
                        # any other statement may write anything: forget (calls, loops, compound assignments)
                        if any(x.get("k") in ("CallExpr", "CompoundAssignOperator", "UnaryOperator") or
                               (x.get("k") == "BinaryOperator" and x.get("op") == "=") for x in cf.walk(st)):
                            env, refused = {}, set()
                    continue
                kids = st.get("c", [])
                if len(kids) < 2 or not cm.is_error_exit(kids[1]) or len(kids) > 2 and kids[2].get("k") not in (None, "NullStmt"):
                    if any(x.get("k") == "BinaryOperator" and x.get("op") == "=" or x.get("k") in ("CompoundAssignOperator", "CallExpr")
                           for x in cf.walk(st)):
                        env, refused = {}, set()
                    continue
                sp = c.paren_after(st["b"])
                if not sp:
                    continue
                cond = cx.strip_pp(c.text(sp[0] + 1, sp[1]))
                try:
                    e = cx.parse(_subst(cond, env))
                except cx.ParseError:
                    continue
                ds = [_norm_cmp(d) for d in cm._disjuncts(e)]
                n += 1
                dead = [d for d in ds if (d[0] == "!=" and d[1] == d[2]) or d in refused]
                key = "%s:refusal can fire @ %s" % (fn, " ".join(cond.split())[:60])
                where = "src/C/%s:%s:%d" % (c.name, fn, c.line_of(st["b"]))
                if ds and len(dead) == len(ds):
                    rule.violation(key, where,
                                   "this refusal can never fire: with %s its condition `%s` repeats a test the block has already made "
                                   "(every disjunct is `X != X` or an earlier refusal's) - the argument its message is about is not checked"
                                   % (", ".join("%s = %s" % kv for kv in env.items()) or "the preceding tests", " ".join(cond.split())[:80]),
                                   "a test of the argument the message names", " ".join(cond.split())[:100])
                else:
                    rule.ok(key, where)
                refused |= set(ds)
    return n
