"""Triage: in-place modulo. (a) 'i' %= float retypes the matrix in place and frees the
exported buffer; (b) 'i' %= 0 frees the matrix's own buffer on the error path."""
import subprocess, sys
def run(code):
    r = subprocess.run([sys.executable, "-c", code], capture_output=True, text=True)
    return r.returncode, r.stdout.strip(), r.stderr.strip().split("\n")[-1][:90]
a = run("from cvxopt import matrix\nA=matrix([1,2,3]); m=memoryview(A)\ntry:\n    A %= 2.5\n    print('accepted tc', A.typecode)\nexcept TypeError as e: print('rejected', e)")
b = run("from cvxopt import matrix\nA=matrix([1,2,3])\ntry:\n    A %= 0\nexcept ZeroDivisionError as e: print('ZeroDivisionError')\nprint(list(A)); B=[matrix([7,8,9]) for _ in range(50)]; print(list(A)); del A")
print('retype:', a); print('mod by zero:', b)
print('PASS' if ('rejected' in a[1] and b[0] == 0 and b[1].count('[1, 2, 3]') == 2) else 'FAIL')
