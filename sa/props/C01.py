"""C01 - 'optimal' from conelp/lp/socp/sdp is an independently checkable certificate.
Structural necessary conditions only (DESIGN.md section 3, C01)."""
import ast

from .. import pyfront as pf
from .. import rules_common as rc
from .. import solvers_common as sc
from .. import termination as tm
from ..core import Check, AnalysisError
from ..defassign import Analyzer
from ..world import World


def conelp_shortcut(site, ret, items, prem, opts):
    ts, tz = tm.name_of(items.get("primal slack")), tm.name_of(items.get("dual slack"))
    gc = tm.gap_clause(items, opts)
    if not (isinstance(ts, tuple) and isinstance(tz, tuple)) or gc is None or "kktreg" not in opts:
        return (False, "slack fields reported as -max_step results; gap fields plain names")
    goal = pf.P_and(pf.P_atom("(primalstart is None)"), pf.P_atom("(dualstart is None)"),
                    tm.atom_le(ts[1], "0"), tm.atom_le(tz[1], "0"), gc,
                    pf.P_atom("(%s is None)" % opts["kktreg"][0]))
    return (pf.implies(prem, goal), repr(goal))


def check_finalisation(rule, w, mn, fnn, need_rescale, pairs=(("s", "primal slack"), ("z", "dual slack"))):
    """R3: every result return in the main loop (and the shortcut) is preceded, in this
    order, by: [rescale of x,y,s,z by one common factor] -> symmetrisation of the 's'
    blocks of the returned s and z -> max_step on them, whose negated results are what
    the slack fields report."""
    m = w.mods[mn]
    fn = w.func(mn, fnn)
    loop = sc.main_loop(fn)
    rets, cfg = tm.result_returns(fn)
    factors = {}
    for r, items, sv in rets:
        if not (sv & {"optimal", "unknown"}):
            continue
        if any(isinstance(p, ast.ExceptHandler) for p in _parents(r, fn)):
            continue          # failure paths are C10-R2's
        in_loop = pf._within(r, loop)
        stop = _outermost_if(r, loop) if in_loop else fn
        key = "%s:result[%s]@%s" % (fnn, "/".join(sorted(sv)), "loop" if in_loop else "shortcut")
        where = m.where(r, fn)
        facts, seq = tm.finalisation(r, stop, None)
        for k, slack in pairs:
            obj = items.get(k)
            if isinstance(obj, ast.Constant) and obj.value is None:
                continue
            if not isinstance(obj, ast.Name):
                rule.undecided(key + ":" + k, where, "returned %s is not a plain name" % k)
                continue
            f = facts.get(obj.id, {})
            sy, ms = f.get("symm", []), f.get("max_step", [])
            if not ms:
                # the piece may be a slice view of the full vector (`sl = s[mnl:]`): the
                # slack is then computed on the base vector
                base = _slice_base(r, stop, obj.id)
                if base:
                    ms = facts.get(base, {}).get("max_step", [])
            rep = tm.name_of(items.get(slack))
            if not sy:
                rule.violation(key + ":symm(%s)" % k, where,
                               "the 's' blocks of the returned %s are not symmetrised before the return "
                               "(only the lower triangle is maintained during the iteration)" % k,
                               "misc.symm(%s, m, ind) over dims['s']" % obj.id, "absent on this path")
                continue
            # symm inside a loop over dims['s']
            if not ms:
                rule.violation(key + ":max_step(%s)" % k, where, "slack of returned %s is not recomputed" % k,
                               "misc.max_step(%s, dims)" % obj.id, "absent")
                continue
            # max_step reads the lower triangles only, so its position relative to symm is
            # immaterial; a rescale however must precede both
            ok_order = True
            sc_ = f.get("scal", []) if in_loop else []
            if sc_ and not (max(i for i, _ in sc_) < min(min(i for i, _ in sy), ms[-1][0])):
                ok_order = False
            if not ok_order:
                rule.violation(key + ":order(%s)" % k, where,
                               "finalisation of %s is out of order (the rescale must precede symmetrisation and max_step)" % k,
                               "scal < symm, scal < max_step", "positions scal=%s symm=%s max_step=%s" % (
                                   [i for i, _ in sc_], [i for i, _ in sy], [i for i, _ in ms]))
                continue
            tgt = ms[-1][1]
            if not (isinstance(rep, tuple) and rep[1] == tgt):
                rule.violation(key + ":slack(%s)" % k, where,
                               "'%s' does not report the negated max_step of the returned %s" % (slack, k),
                               "-%s" % tgt, pf.norm_expr(items.get(slack)))
                continue
            rule.ok(key + ":finalised(%s)" % k, where, "symm -> max_step -> '%s' = -%s" % (slack, tgt))
        if need_rescale and in_loop:
            fs = {}
            for k in ("x", "y", "s", "z"):
                obj = items.get(k)
                if isinstance(obj, ast.Name):
                    sc_ = facts.get(obj.id, {}).get("scal", [])
                    fs[k] = sorted({e for _, e in sc_})
            factors[key] = (fs, where)
    if need_rescale:
        allf = {tuple(v) for fs, _ in factors.values() for v in fs.values()}
        for key, (fs, where) in factors.items():
            vals = {tuple(v) for v in fs.values()}
            if len(vals) == 1 and len(next(iter(vals))) == 1 and len(fs) == 4 and len(allf) == 1 \
                    and next(iter(vals))[0].startswith("(1.0 / "):
                rule.ok(key + ":rescale", where, "x, y, s, z all scaled by %s" % next(iter(vals))[0])
            else:
                rule.violation(key + ":rescale", where,
                               "the returned x, y, s, z are not all rescaled by the same reciprocal of the "
                               "homogenising variable on this path (or differently from the sibling result path)",
                               "x, y, s, z each scaled once by (1.0 / tau)", fs)


def _slice_base(ret, stop, name):
    for st in sc.preceding_in_blocks(ret, stop):
        for a in ast.walk(st):
            if isinstance(a, ast.Assign):
                tg, val = a.targets[0], a.value
                pairs = list(zip(tg.elts, val.elts)) if isinstance(tg, ast.Tuple) and isinstance(val, ast.Tuple) \
                    and len(tg.elts) == len(val.elts) else [(tg, val)]
                for x, v in pairs:
                    if isinstance(x, ast.Name) and x.id == name and isinstance(v, ast.Subscript) \
                            and isinstance(v.value, ast.Name) and isinstance(v.slice, ast.Slice):
                        return v.value.id
    return None


def _parents(n, stop):
    p = getattr(n, "_parent", None)
    while p is not None and p is not stop:
        yield p
        p = getattr(p, "_parent", None)


def _outermost_if(node, stop):
    last = None
    for p in _parents(node, stop):
        if isinstance(p, ast.If):
            last = p
    return last if last is not None else stop


def check_wrapper_split(rule, w, fnn, cone_key, sizes):
    """socp/sdp: after the conelp call the pieces sl/s<k> and zl/z<k> are cut out of
    sol['s'] / sol['z'] as `[:ml]` followed by a block walk that starts at ml; and the
    None test precedes any slicing."""
    m = w.mods["coneprog"]
    fn = w.func("coneprog", fnn)
    for vec in ("s", "z"):
        key = "%s:split sol['%s']" % (fnn, vec)
        subs = [n for n in pf._scope_nodes(fn) if isinstance(n, ast.Subscript) and isinstance(n.slice, ast.Slice)
                and isinstance(n.value, ast.Subscript) and pf.norm_expr(n.value) == "sol['%s']" % vec]
        if not subs:
            raise AnalysisError("%s: no slices of sol['%s'] found" % (fnn, vec))
        head = [n for n in subs if n.slice.lower is None]
        walk = [n for n in subs if n.slice.lower is not None]
        if len(head) != 1 or not walk:
            rule.violation(key, m.where(subs[0], fn), "unexpected slicing of the stacked result vector",
                           "one `[:ml]` slice + a block walk", [pf.norm_expr(n) for n in subs][:4])
            continue
        first = pf.norm_expr(head[0].slice.upper)
        lo = walk[0].slice.lower
        if isinstance(lo, ast.Subscript) and isinstance(lo.value, ast.Name):
            # precomputed boundary table: X = [ml]; for m in sizes: X.append(X[-1] + m); pieces X[k]:X[k+1]
            _table_walk(rule, key, m, fn, walk[0], first, sizes, cone_key)
            _none_guards(rule, key, m, fn, subs, vec)
            continue
        # the walk's offset variable and its initialisation
        wv = [x for x in pf.names_in(walk[0].slice.lower)]
        loop = next((p for p in _parents(walk[0], fn) if isinstance(p, ast.For)), None)
        init = None
        if loop is not None:
            blk = loop._parent.orelse if any(x is loop for x in getattr(loop._parent, "orelse", [])) else loop._parent.body
            idx = [i for i, x in enumerate(blk) if x is loop]
            if idx:
                for s in reversed(blk[:idx[0]]):
                    if isinstance(s, ast.Assign) and isinstance(s.targets[0], ast.Name) and s.targets[0].id in wv:
                        init = s
                        break
        if init is None:
            rule.violation(key + ":start", m.where(walk[0], fn), "block walk offset is not initialised next to the loop",
                           "ind = %s" % first, "absent")
        elif pf.norm_expr(init.value) != first:
            rule.violation(key + ":start", m.where(init, fn),
                           "the block walk does not start where the 'l' piece ends",
                           "offset initialised to %s (upper bound of the first slice)" % first, pf.norm_expr(init.value))
        else:
            rule.ok(key + ":start", m.where(init, fn), "[:%s] then offset = %s" % (first, first))
        _none_guards(rule, key, m, fn, subs, vec)


def _none_guards(rule, key, m, fn, subs, vec):
    # None test precedes slicing
    for n in subs:
        conds = pf.path_condition(n, cross_loops=True)
        prem = pf.P_and(*conds) if conds else pf.P_TRUE
        if pf.implies(prem, pf.P_not(pf.P_atom("(sol['%s'] is None)" % vec))) is True:
            rule.ok(key + ":none-guard:" + pf.norm_expr(n)[:40], m.where(n, fn))
        else:
            rule.violation(key + ":none-guard:" + pf.norm_expr(n)[:40], m.where(n, fn),
                           "sol['%s'] is sliced on a path where it may be None (certificate results)" % vec,
                           "guarded by `sol['%s'] is None` test" % vec, repr(prem))


def _table_walk(rule, key, m, fn, sub, first, sizes, cone_key):
    """pieces cut as X[k]:X[k+1] from a boundary table X: X starts at the end of the 'l'
    piece and grows by the size of each block (m for 'q', m**2 for 's')"""
    X = sub.slice.lower.value.id
    lo, up = pf.norm_expr(sub.slice.lower), pf.norm_expr(sub.slice.upper) if sub.slice.upper is not None else None
    kv = pf.norm_expr(sub.slice.lower.slice)
    if up not in ("%s[%s + 1]" % (X, kv), "%s[1 + %s]" % (X, kv), "%s[(%s + 1)]" % (X, kv)):
        rule.violation(key + ":start", m.where(sub, fn), "piece %s:%s is not one entry of the boundary table to the next" % (lo, up),
                       "%s[%s]:%s[%s + 1]" % (X, kv, X, kv), "%s:%s" % (lo, up))
        return
    inits = [a for a in pf._scope_nodes(fn) if isinstance(a, ast.Assign) and len(a.targets) == 1
             and isinstance(a.targets[0], ast.Name) and a.targets[0].id == X]
    seeds_ = [a for a in inits if isinstance(a.value, ast.List) and len(a.value.elts) == 1]
    grow = []
    for lp in pf._scope_nodes(fn):
        if isinstance(lp, ast.For) and isinstance(lp.target, ast.Name) and len(lp.body) == 1:
            b = lp.body[0]
            g = None
            if isinstance(b, ast.Expr) and isinstance(b.value, ast.Call) and pf.call_name(b.value) == "%s.append" % X and len(b.value.args) == 1:
                g = b.value.args[0]
            elif isinstance(b, ast.Assign) and b in inits and isinstance(b.value, ast.BinOp) and isinstance(b.value.op, ast.Add) \
                    and isinstance(b.value.right, ast.List) and len(b.value.right.elts) == 1 and pf.norm_expr(b.value.left) == X:
                g = b.value.right.elts[0]
            if g is not None:
                grow.append((lp, g))
    if len(seeds_) != 1 or len(grow) != 1:
        rule.undecided(key + ":start", m.where(sub, fn), "boundary table `%s` is not built by the one-seed / one-growth-loop idiom" % X)
        return
    seed, (lp, g) = seeds_[0], grow[0]
    v = lp.target.id
    want = "(%s[-1] + %s)" % (X, v if cone_key == "q" else "%s ** 2" % v)
    got = pf.norm_expr(g)
    if pf.norm_expr(seed.value.elts[0]) != first:
        rule.violation(key + ":start", m.where(seed, fn), "the boundary table does not start where the 'l' piece ends",
                       "%s = [%s]" % (X, first), pf.norm_expr(seed.value))
    elif pf.norm_expr(lp.iter) != sizes or got.replace(" ", "") not in (want.replace(" ", ""), want.replace(" ", "")[1:-1]):
        rule.violation(key + ":start", m.where(lp, fn), "the boundary table does not grow by the size of each '%s' block" % cone_key,
                       "for %s in %s: %s.append%s" % (v, sizes, X, want), "for %s in %s: %s" % (v, pf.norm_expr(lp.iter), got))
    else:
        rule.ok(key + ":start", m.where(seed, fn), "%s = [%s], grown by %s over %s" % (X, first, got, sizes))


def build(tier, repo):
    chk = Check(
        "C01", tier, repo,
        explanation=(
            "Static analysis of coneprog.conelp/lp/socp/sdp (Python ast, syntax-directed path "
            "conditions, truth-table implication, block-offset extent algebra). Decides structural "
            "necessary conditions of C01: (R1) every 'optimal' return of conelp is dominated by the "
            "documented stop test applied to the very variables it reports (or, for the start-up "
            "shortcut, by the exact conditions that justify skipping it, including kktreg is None), "
            "tolerances bound once from options; (R2) iterations <= maxiters by loop shape; (R3) "
            "results are rescaled by 1/tau, their 's' blocks symmetrised and the slacks recomputed, in "
            "that order, and the slack fields report those values; (R4) socp/sdp cut sl/sq/ss and "
            "zl/zq/zs out of s and z as an exact partition guarded by the None test; (R5) every block "
            "walk over a cone vector advances its offset by exactly what it touches; (R6) the "
            "external-solver branches resolve every name/attribute and assign every reported field on "
            "every path; (R7) cone-space vectors are normed with the cone inner product. NOT decided: "
            "that the residual/gap formulas are numerically right, convergence."),
        trusted_base=["CPython ast", "sa/pyfront.py (path conditions, implication)", "sa/offsets.py footprint table (BLAS level 1, misc.symm, syev*)", "doc/source/coneprog.rst stop criteria"],
        assumptions=["BLAS/LAPACK/misc kernels compute their documented operation (C07/C08/C17/C18)",
                     "mosek/glpk/dsdp attributes are external"])
    w = World(repo)
    r1 = chk.rule("C01-R1", "'optimal' returns of conelp are dominated by the documented stop test on the reported quantities",
                  "residuals <= feastol and gap criterion hold for the returned fields")
    tm.check_optimal(r1, w, "coneprog", "conelp", conelp_shortcut)
    tm.check_relgap(r1, w, "coneprog", "conelp")
    tm.check_residual_normalisers(r1, w, "coneprog", "conelp")
    r1.require(6)
    r2 = chk.rule("C01-R2", "iterations <= maxiters: loop over range(MAXITERS+1), validated, limit test returns",
                  "iterations <= maxiters")
    tm.check_loop_bound(r2, w, "coneprog", "conelp")
    r2.require(4)
    r3 = chk.rule("C01-R3", "result finalisation in order: rescale by 1/tau -> symmetrise 's' blocks -> max_step -> slack fields",
                  "s, z in the cone / slack fields equal recomputed values")
    check_finalisation(r3, w, "coneprog", "conelp", need_rescale=True)
    r3.require(6)
    r4 = chk.rule("C01-R4", "socp/sdp split s and z into sl/sq/ss, zl/zq/zs as an exact partition, guarded by the None test",
                  "wrapper pieces are exactly the blocks of s and z")
    check_wrapper_split(r4, w, "socp", "q", "mq")
    check_wrapper_split(r4, w, "sdp", "s", "ms")
    r4.require(8)
    r5 = chk.rule("C01-R5", "block-offset discipline in conelp/lp/socp/sdp: access extent at an offset <= stride, widest access fills the block",
                  "blocks of s, z, G, h are addressed consistently (wrapper pieces, symmetrisation, start points)")
    rc.offsets_rule(r5, w, [("coneprog", "conelp"), ("coneprog", "lp"), ("coneprog", "socp"), ("coneprog", "sdp")])
    r5.require(45)
    r8 = chk.rule("C01-R8", "external-solver branches of lp compute the reported quantities by the same formulas (glpk ~ mosek), and every relgap chain "
                            "of lp/socp/sdp divides by the quantity its guard made positive",
                  "with solver='glpk'/'mosek' the reported objectives, gap and residuals equal the recomputed values")
    QUANT = ("pcost", "dcost", "gap", "relgap", "resx0", "resy0", "resz0", "resx", "resy", "resz", "pres", "dres", "pslack", "dslack")
    lpf = w.func("coneprog", "lp")
    mcp = w.mods["coneprog"]
    brs = {}
    for st in lpf.body:
        if isinstance(st, ast.If):
            t = pf.norm_expr(st.test)
            for nm in ("glpk", "mosek"):
                if "solver" in t and "'%s'" % nm in t:
                    brs[nm] = st
    if set(brs) != {"glpk", "mosek"}:
        raise AnalysisError("lp: glpk/mosek branches not found")

    def _coll(br):
        out = {}
        for a in ast.walk(br):
            if isinstance(a, ast.Assign) and len(a.targets) == 1 and isinstance(a.targets[0], ast.Name) and a.targets[0].id in QUANT:
                out.setdefault(a.targets[0].id, {})[pf.norm_expr(a.value)] = a
        return out
    A_, B_ = _coll(brs["glpk"]), _coll(brs["mosek"])
    for k in sorted(set(A_) & set(B_)):
        key = "lp:glpk~mosek:%s" % k
        sa_, sb_ = set(A_[k]), set(B_[k])
        if sa_ <= sb_ or sb_ <= sa_:
            r8.ok(key, mcp.where(list(A_[k].values())[0], lpf), sorted(sa_ & sb_)[:2])
        else:
            odd = sorted(sa_ - sb_)[0]
            r8.violation(key, mcp.where(A_[k][odd], lpf),
                         "the glpk branch computes `%s = %s` but the mosek branch `%s`: the two back-ends report the same documented quantity"
                         % (k, odd, sorted(sb_ - sa_)[0]), sorted(sb_)[:2], sorted(sa_)[:2])
    for q in ("lp", "socp", "sdp"):
        tm.check_relgap(r8, w, "coneprog", q)
    r8.require(8)

    r6 = chk.rule("C01-R6", "lp/socp/sdp incl. external-solver branches: names/attributes resolve, reported fields definitely assigned",
                  "external solver option returns well-formed results")
    for q in ("lp", "socp", "sdp"):
        fn = w.func("coneprog", q)
        m = w.mods["coneprog"]
        for n in ast.walk(fn):
            if isinstance(n, ast.Attribute):
                r = w.resolve_attr_chain(n, m)
                if r and r[2] is not None:
                    key = "%s:attr %s.%s" % (q, r[0], r[1])
                    if r[2]:
                        r6.ok(key, m.where(n, fn))
                    else:
                        r6.violation(key, m.where(n, fn), "cvxopt.%s has no attribute %s" % (r[0], r[1]), "exported name", "missing")
        an = Analyzer(fn, m)
        seen = set()
        for var, node, u in an.candidates():
            verdict, detail = an.classify(var, node)
            key = "%s:assigned %s@%d" % (q, var, 0)
            st = an.cfg.node_stmt[node]
            key = "%s:assigned %s@%s" % (q, var, pf.norm_expr(st)[:60] if isinstance(st, ast.stmt) and not isinstance(st, (ast.If, ast.For, ast.While, ast.FunctionDef)) else type(st).__name__)
            if key in seen:
                continue
            seen.add(key)
            if verdict == "ok":
                r6.ok(key, m.where(u, fn))
            elif verdict == "violation":
                r6.violation(key, m.where(u, fn), "'%s' may be unassigned: %s" % (var, detail), "assigned on every path", detail)
            else:
                r6.undecided(key, m.where(u, fn), detail)
    r6.require(40)
    r7 = chk.rule("C01-R7", "cone-space vectors are reduced with misc.snrm2/sdot, not whole-vector blas.nrm2/dot",
                  "residual norms ignore the unreferenced upper triangles (documented relative norms)")
    for q in ("conelp", "sdp"):
        rc.norm_discipline(r7, w, "coneprog", q)
    rc.cone_product_rule(r7, w, "coneprog", "conelp")
    r7.require(8)
    from .. import solver_rules as sr5
    r9 = chk.rule("C01-R9", "inside a loop over the 's' blocks the block order comes from the current block, not from element [0] of the list",
                  "reported gap / objectives / slacks use every block with its own order")
    chk.note_analysed("block_loops", sr5.block_loop_rule(r9, w))
    r9.require(2)
    return chk
