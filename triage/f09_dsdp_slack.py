"""Triage (not a check): sdp(solver='dsdp') with two 2x2 blocks - reported slacks vs
slacks recomputed from the returned ss/zs. Before the fix: -1.236/-0.707 vs 0.0/0.0."""
from cvxopt import matrix, solvers, lapack, blas
solvers.options['show_progress'] = False
c = matrix([1., -1., 1.])
G = [matrix([[-7., -11., -11., 3.], [7., -18., -18., 8.], [-2., -8., -8., 1.]]),
     matrix([[-3., 1., 1., -2.], [2., -1., -1., 3.], [1., 0., 0., -2.]])]
h = [matrix([[33., -9.], [-9., 26.]]), matrix([[14., 9.], [9., 91.]])]
sol = solvers.sdp(c, Gs=G, hs=h, solver='dsdp', options={'dsdp': {'DSDP_Monitor': 0}})
def mineig(M):
    w = matrix(0.0, (M.size[0], 1)); A = +M; lapack.syev(A, w); return min(w)
ps = min(mineig(s) for s in sol['ss']); ds = min(mineig(z) for z in sol['zs'])
print(sol['status'], 'reported', sol['primal slack'], sol['dual slack'], 'recomputed', ps, ds)
ok = abs(sol['primal slack'] - ps) < 1e-6 * max(1, abs(ps)) and abs(sol['dual slack'] - ds) < 1e-6 * max(1, abs(ds))
print('PASS' if ok else 'FAIL')
