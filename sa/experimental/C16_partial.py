"""C16 - sparse matrices are a faithful, structurally valid image of the dense semantics.
Only structural necessary conditions are decided (allocation consistency of the three CCS
arrays, agreement of the real and complex kernels, type dispatch, macro vocabulary, integer
divisions); the dense-image equality and the CCS invariants over operation histories are not."""
import os
import re

from .. import cexpr as cx
from .. import cfront as cf
from .. import cwrap_rules as cw
from .. import cstate
from .. import cdiv
from ..core import Check, AnalysisError
from ..poly import Poly

SP_MACROS = {
    "SP_NCOLS": (["O"], "((spmatrix *)O)->obj->ncols"),
    "SP_NROWS": (["O"], "((spmatrix *)O)->obj->nrows"),
    "SP_LGT": (["O"], "(SP_NROWS(O)*SP_NCOLS(O))"),
    "SP_NNZ": (["O"], "((spmatrix *)O)->obj->colptr[SP_NCOLS(O)]"),
    "SP_ID": (["O"], "((spmatrix *)O)->obj->id"),
    "SP_COL": (["O"], "((spmatrix *)O)->obj->colptr"),
    "SP_ROW": (["O"], "((spmatrix *)O)->obj->rowind"),
    "SP_VAL": (["O"], "((spmatrix *)O)->obj->values"),
    "SP_VALD": (["O"], "((double *)((spmatrix *)O)->obj->values)"),
    "CCS_NROWS": (["O"], "((ccs *)O)->nrows"),
    "CCS_NCOLS": (["O"], "((ccs *)O)->ncols"),
    "CCS_NNZ": (["O"], "((ccs *)O)->colptr[CCS_NCOLS(O)]"),
}


def _alloc_calls(c, fn):
    """[(field, routine, [arg texts])] for `obj->field = malloc/calloc/realloc(..)` (also via a local that is then stored)"""
    node = c.funcs[fn]
    t = cx.strip_pp(c.text(node["b"], node["e"]))
    t = re.sub(r"/\*.*?\*/", "", t, flags=re.S)
    out = []
    for m in re.finditer(r"(?:obj->)?(\w+)\s*=\s*(?:\([^()]*\)\s*)?(malloc|calloc|realloc)\s*\(", t):
        i, d = m.end(), 1
        while i < len(t) and d:
            if t[i] == "(":
                d += 1
            elif t[i] == ")":
                d -= 1
            i += 1
        out.append((m.group(1), m.group(2), [a.strip() for a in cf.split_top(t[m.end():i - 1])]))
    return out, t


def _size_poly(routine, args):
    """total byte count of an allocation as a polynomial (sizeof(T) and E_SIZE[..] stay symbols)"""
    try:
        if routine == "calloc" and len(args) == 2:
            return cx.to_poly(cx.parse(args[0])) * cx.to_poly(cx.parse(args[1]))
        if routine == "malloc" and len(args) == 1:
            return cx.to_poly(cx.parse(args[0]))
        if routine == "realloc" and len(args) == 2:
            return cx.to_poly(cx.parse(args[1]))
    except (cx.ParseError, TypeError):
        return None
    return None


def build(tier, repo):
    chk = Check(
        "C16", tier, repo,
        explanation=(
            "Static and deliberately narrow. NOT decided: that an operation on spmatrix objects equals the same operation on the "
            "dense copies, the documented result types, and the validity of the compressed-column representation after arbitrary "
            "operation histories (column pointers nondecreasing, row indices strictly increasing and in range) - these are "
            "invariants over run-time index arrays maintained by merge loops and need loop invariants over array contents. Decided "
            "structural necessary conditions: (R1) the three arrays of a ccs object are allocated, re-allocated and freed "
            "consistently (values: nnz elements of the matrix type, rowind: nnz indices, colptr: ncols+1 zero-initialised indices; "
            "realloc keeps values and rowind in step; free releases all four blocks); (R2) the real and the complex kernel of each "
            "mixed sparse/dense product (axpy, gemv, symv, the spa_* accumulators, triplet conversion) perform the same array accesses "
            "at every sampled iteration point (bounded semantic comparison, sa/ckernel.py); (R3) every call through a per-type "
            "dispatch table excludes the types whose entry is NULL, and a result that may be Py_NotImplemented is tested before "
            "matrix fields are read from it; (R4) no integer division/modulo in sparse.c by a divisor that may be zero; (R5) the "
            "SP_* / CCS_* access macros have their reference definitions."),
        trusted_base=["clang 14 AST", "sa/ckernel.py interpreter", "sa/cexpr.py", "libc allocation semantics"],
        assumptions=["Linux/LP64 configuration", "sampled environments (1500 per kernel pair, fixed seed) are representative for the bounded comparison"])
    cs = cf.load_c(repo, files=["sparse.c", "base.c", "dense.c", "blas.c", "lapack.c", "misc_solvers.c"])
    c = cs["sparse.c"]

    r1 = chk.rule("C16-R1", "ccs arrays are allocated, re-allocated and freed consistently",
                  "value, index and pointer arrays have consistent lengths")
    for fn in ("alloc_ccs", "realloc_ccs", "free_ccs"):
        if fn not in c.funcs:
            raise AnalysisError("sparse.c: %s not found" % fn)
    calls, _ = _alloc_calls(c, "alloc_ccs")
    S = Poly.sym
    want = {"values": lambda p: p is not None and any("E_SIZE" in s_ for s_ in p.symbols()) and "nnz" in p.symbols() and len(p.t) == 1,
            "colptr": lambda p: p is not None and p == (S("ncols") + 1) * S("sizeof(int_t)"),
            "rowind": lambda p: p is not None and p == S("nnz") * S("sizeof(int_t)")}
    seen = {}
    for field, routine, args in calls:
        if field in want:
            seen[field] = (routine, args, _size_poly(routine, args))
    for field, pred in want.items():
        key = "alloc_ccs:%s" % field
        where = "src/C/sparse.c:alloc_ccs"
        if field not in seen:
            r1.violation(key, where, "ccs->%s is not allocated" % field, "malloc/calloc", "absent")
        elif pred(seen[field][2]) and (field != "colptr" or seen[field][0] == "calloc"):
            r1.ok(key, where, "%s(%s)" % (seen[field][0], ", ".join(seen[field][1])))
        else:
            r1.violation(key, where,
                         "ccs->%s is allocated with %s(%s): %s" % (field, seen[field][0], ", ".join(seen[field][1]),
                                                                 {"values": "nnz elements of E_SIZE[id] bytes are required",
                                                                  "colptr": "ncols+1 zero-initialised int_t are required (colptr[ncols] is nnz; new matrices start with all-zero pointers)",
                                                                  "rowind": "nnz int_t are required"}[field]),
                         {"values": "E_SIZE[id]*nnz", "colptr": "calloc(ncols+1, sizeof(int_t))", "rowind": "sizeof(int_t)*nnz"}[field],
                         "%s(%s)" % (seen[field][0], ", ".join(seen[field][1])))
    calls, _ = _alloc_calls(c, "realloc_ccs")
    rs = {}
    for field, routine, args in calls:
        if routine == "realloc" and args:
            tgt = "rowind" if "rowind" in args[0] else "values" if "values" in args[0] else None
            if tgt:
                rs[tgt] = _size_poly(routine, args)
    for tgt, ok in (("rowind", lambda p: p is not None and p == S("nnz") * S("sizeof(int_t)")),
                    ("values", lambda p: p is not None and "nnz" in p.symbols() and any("E_SIZE" in s_ for s_ in p.symbols()) and len(p.t) == 1)):
        key = "realloc_ccs:%s" % tgt
        if tgt in rs and ok(rs[tgt]):
            r1.ok(key, "src/C/sparse.c:realloc_ccs", repr(rs[tgt]))
        else:
            r1.violation(key, "src/C/sparse.c:realloc_ccs", "ccs->%s is not resized to nnz entries together with its sibling array" % tgt,
                         "realloc(obj->%s, nnz * element size)" % tgt, repr(rs.get(tgt)))
    node = c.funcs["free_ccs"]
    ft = re.sub(r"\s+", "", cx.strip_pp(c.text(node["b"], node["e"])))
    freed = set(re.findall(r"free\((\w+(?:->\w+)?)\)", ft))
    if {"obj->values", "obj->rowind", "obj->colptr", "obj"} <= freed:
        r1.ok("free_ccs:all four blocks", "src/C/sparse.c:free_ccs", sorted(freed))
    else:
        r1.violation("free_ccs:all four blocks", "src/C/sparse.c:free_ccs", "free_ccs does not release every block of a ccs object",
                     "values, rowind, colptr, obj", sorted(freed))
    r1.require(5)

    r2 = chk.rule("C16-R2", "real / complex kernels of the mixed sparse/dense products perform the same array accesses",
                  "the products used by the solvers agree for real and complex data")
    n2 = cw.sibling_function_rule(r2, c, [
        ("sp_daxpy", "sp_zaxpy"), ("sp_dgemv", "sp_zgemv"), ("sp_dsymv", "sp_zsymv"), ("spa_daxpy", "spa_zaxpy"),
        ("spa_daxpy_partial", "spa_zaxpy_partial"), ("spa_ddot", "spa_zdot"), ("triplet2dccs", "triplet2zccs")])
    chk.note_analysed("sibling_kernels", n2)
    r2.require(7)

    r3 = chk.rule("C16-R3", "type dispatch: NULL table entries excluded at every call; Py_NotImplemented tested before use",
                  "unsupported type combinations are refused instead of crashing")
    cstate.null_table_rule(r3, cs)
    cstate.notimplemented_rule(r3, cs)
    r3.require(6)

    r4 = chk.rule("C16-R4", "no integer division or modulo in sparse.c by a possibly-zero divisor", "linear indices are split into (row, column) safely")

    class _Only:
        """forward only the sparse.c instances"""
        def __init__(self, r):
            self.r = r

        def ok(self, key, *a, **k):
            if key.startswith("sparse.c:"):
                self.r.ok(key, *a, **k)

        def violation(self, key, *a, **k):
            if key.startswith("sparse.c:"):
                self.r.violation(key, *a, **k)

        def undecided(self, key, *a, **k):
            if key.startswith("sparse.c:"):
                self.r.undecided(key, *a, **k)
    cdiv.division_rule(_Only(r4), cs)
    r4.require(4)

    r5 = chk.rule("C16-R5", "SP_* / CCS_* access macros have their reference definitions", "every access goes to the field it names")
    from ..props.C19 import macro_defs, _rename, _canon
    defs = {}
    for h in ("misc.h", "cvxopt.h"):
        p = os.path.join(repo, "src", "C", h)
        if not os.path.exists(p):
            raise AnalysisError("header missing: %s" % p)
        for k, v in macro_defs(p).items():
            defs.setdefault(k, []).extend((h, a, b) for a, b in v)
    for name, (params, ref) in SP_MACROS.items():
        key = "macro %s" % name
        if name not in defs:
            r5.violation(key, "src/C", "macro %s is not defined" % name, ref, "absent")
            continue
        good = False
        for h, ps, body in defs[name]:
            try:
                if _canon(_rename(cx.parse(body), dict(zip(ps, params)))) == _canon(cx.parse(ref)):
                    good = True
            except cx.ParseError:
                pass
        if good:
            r5.ok(key, "src/C/%s" % defs[name][0][0], ref)
        else:
            r5.violation(key, "src/C/%s" % defs[name][0][0], "macro %s differs from its reference definition" % name, ref, [b for _, _, b in defs[name]][:2])
    r5.require(10)
    return chk
