"""C03 - 'optimal' from coneqp/qp satisfies the QP KKT conditions (structural part)."""
import ast

from .. import pyfront as pf
from .. import rules_common as rc
from .. import solvers_common as sc
from .. import termination as tm
from ..core import Check, AnalysisError
from ..world import World, bind_call
from .C01 import check_finalisation


def coneqp_shortcut(site, ret, items, prem, opts):
    """no-inequality problem: solved directly by one KKT solve; accepted only under
    cdim == 0, with zero gap fields and computed infeasibility fields."""
    goal = pf.P_atom("(0 == cdim)")
    ok = pf.implies(prem, goal)
    if ok is not True:
        return (ok, repr(goal))
    for k in ("primal infeasibility", "dual infeasibility"):
        if not isinstance(items.get(k), ast.Name):
            return (False, "%s reported from a computed variable" % k)
    return (True, repr(goal) + " and computed pres/dres")


def check_P_lower_only(rule, w):
    """'only the lower triangle of P is read': every use of P in coneqp is validation
    (type/size/typecode), the symmetric product base.symv(P, ...) in fP, or the KKT
    factory call; qp forwards P unchanged."""
    m = w.mods["coneprog"]
    fn = w.func("coneprog", "coneqp")
    n_ok = 0
    for n in ast.walk(fn):
        if isinstance(n, ast.Name) and n.id == "P" and isinstance(n.ctx, ast.Load):
            par = n._parent
            key = "coneqp:use of P:%s" % pf.norm_expr(pf.enclosing_stmt(n) if not isinstance(pf.enclosing_stmt(n), (ast.If, ast.FunctionDef)) else par)[:70]
            where = m.where(n)
            ok = False
            why = ""
            if isinstance(par, ast.Call):
                nm = pf.call_name(par)
                if nm in ("isinstance", "type", "len"):
                    ok = True
                elif nm == "base.symv" and par.args and par.args[0] is n:
                    # uplo default 'L'
                    up = [k for k in par.keywords if k.arg == "uplo"]
                    ok = not up or (isinstance(up[0].value, ast.Constant) and up[0].value.value == "L")
                    why = "symv with uplo != 'L'"
                elif nm in ("factor", "kktsolver", "P"):
                    ok = True
                elif nm and nm.startswith("misc.kkt_"):
                    ok = True
                else:
                    why = "P passed to %s" % nm
            elif isinstance(par, ast.Attribute) and par.attr in ("size", "typecode"):
                ok = True
            elif isinstance(par, ast.Compare) or isinstance(par, ast.BoolOp) or isinstance(par, ast.UnaryOp):
                ok = True
            elif isinstance(par, ast.Assign) and par.value is n:
                conds = pf.path_condition(par)
                flags = {}
                for st in fn.body:
                    if isinstance(st, ast.Assign) and isinstance(st.targets[0], ast.Name):
                        flags.setdefault(st.targets[0].id, set()).update(pf.names_in(st.value))
                ok = any("P" in pf._prop_names(c) or any("P" in flags.get(x, ()) for x in pf._prop_names(c))
                         for c in conds)
                why = "P aliased without a type test (operator form of P is only valid for callables)"
            elif isinstance(par, ast.Call) is False and isinstance(par, ast.keyword):
                ok = False
                why = "keyword use"
            else:
                why = "use as %s" % type(par).__name__
            if ok:
                rule.ok(key, where)
                n_ok += 1
            else:
                rule.violation(key, where, "P is read other than through the lower-triangular symmetric "
                               "product / validation / the KKT factory: %s" % why,
                               "base.symv(P, ...) (uplo 'L'), size/type tests, factor(W, P)", m.seg(par)[:80])
    return n_ok


def build(tier, repo):
    chk = Check(
        "C03", tier, repo,
        explanation=(
            "Static analysis of coneprog.coneqp/qp. Decides structural necessary conditions of C03: "
            "(R1) the 'optimal' result of the main loop is dominated by the documented stop test on the "
            "reported variables; the no-inequality shortcut only under cdim == 0 with computed "
            "infeasibility fields; (R2) iterations <= maxiters by loop shape; (R3) 's' blocks of s and z "
            "symmetrised, slacks recomputed and reported; (R4) block-offset discipline; (R5) P is only "
            "read through base.symv (lower triangle), validation and the KKT factory; qp forwards its "
            "arguments in coneqp's parameter order; (R6) cone-space vectors normed with the cone inner "
            "product. NOT decided: numerical correctness of the residual formulas; convergence."),
        trusted_base=["CPython ast", "sa/pyfront.py", "sa/offsets.py footprint table"],
        assumptions=["base.symv / sparse symv read only the 'L' triangle (C-side, covered by C19/C17 rules)",
                     "KKT factories use H through lower-triangular factorisations (C07)"])
    w = World(repo)
    r1 = chk.rule("C03-R1", "'optimal' of coneqp dominated by the stop test on the reported quantities; shortcut only under cdim == 0",
                  "KKT residual and gap conditions hold for the returned fields")
    tm.check_optimal(r1, w, "coneprog", "coneqp", coneqp_shortcut)
    tm.check_relgap(r1, w, "coneprog", "coneqp")
    tm.check_residual_normalisers(r1, w, "coneprog", "coneqp")
    r1.require(6)
    r2 = chk.rule("C03-R2", "loop bound", "iterations <= maxiters")
    tm.check_loop_bound(r2, w, "coneprog", "coneqp")
    r2.require(4)
    r3 = chk.rule("C03-R3", "result finalisation: symmetrise 's' blocks, recompute and report slacks",
                  "s and z in the cone; slack fields equal recomputed values")
    check_finalisation(r3, w, "coneprog", "coneqp", need_rescale=False)
    r3.require(2)
    r4 = chk.rule("C03-R4", "block-offset discipline in coneqp/qp", "blocks of s, z addressed consistently")
    rc.offsets_rule(r4, w, [("coneprog", "coneqp"), ("coneprog", "qp")])
    r4.require(22)
    r5 = chk.rule("C03-R5", "P is read only through the 'L' symmetric product, validation and the KKT factory; qp forwards to coneqp in parameter order",
                  "only the lower triangle of P is read")
    check_P_lower_only(r5, w)
    # qp -> coneqp binding
    m = w.mods["coneprog"]
    qp = w.func("coneprog", "qp")
    cq = w.func("coneprog", "coneqp")
    calls = [c for c in pf._scope_nodes(qp) if isinstance(c, ast.Call) and pf.call_name(c) == "coneqp"]
    if not calls:
        raise AnalysisError("qp: call to coneqp not found")
    for c in calls:
        ok, msg, mp = bind_call(c, cq)
        key = "qp:coneqp(...) binding"
        if not ok:
            r5.violation(key, m.where(c, qp), "call does not bind: %s" % msg, "binds", m.seg(c)[:80])
            continue
        bad = []
        for pname in ("P", "q", "G", "h", "A", "b", "initvals", "kktsolver"):
            v = mp.get(pname)
            if not (isinstance(v, ast.Name) and v.id == pname):
                bad.append("%s<-%s" % (pname, pf.norm_expr(v) if v is not None else "missing"))
        dm = mp.get("dims")
        if not (dm is None or (isinstance(dm, ast.Constant) and dm.value is None)):
            bad.append("dims<-%s" % pf.norm_expr(dm))
        if bad:
            r5.violation(key, m.where(c, qp), "qp does not forward its arguments to the same-named parameters of coneqp",
                         "P,q,G,h,A,b,initvals,kktsolver forwarded by name; dims None", bad)
        else:
            r5.ok(key, m.where(c, qp), "forwarded by name")
    r5.require(7)
    r7 = chk.rule("C03-R7", "KKT factories: a matrix whose in-place factorisation failed is rebuilt before reuse; assembly sites agree (the direct solve without inequalities relies on this single factorisation)",
                  "the problem without inequalities is solved by the documented KKT system also for singular P")
    from .C07 import fallback_rule, factory_state_rule
    fallback_rule(r7, w)
    r8 = chk.rule("C03-R8", "KKT factories: the reduced matrix is symmetrised after the last lower-triangular contribution (P is in 'L' storage) and "
                            "persistent work matrices are fully redefined at each factorisation",
                  "only the lower triangle of P is read")
    factory_state_rule(r8, w)
    from .C07 import exclusive_contribution_rule
    exclusive_contribution_rule(r8, w)
    r8.require(6)
    r9 = chk.rule("C03-R9", "base.gemv (the G and A products of coneqp) with an empty inner dimension scales y by the caller's beta",
                  "residuals accumulate q + Px + G'z + A'y also when A is an explicit 0 x n matrix")
    from .. import cfront as cf
    from .. import cwrap_rules as cw
    from .. import kb_blas as kbb
    cb = cf.load_c(repo, files=["base.c"])["base.c"]
    cw.fallback_scale_rule(r9, cb, "base_gemv", "gemv", kbb)
    r9.require(2)

    r6 = chk.rule("C03-R6", "cone-space vectors normed with misc.snrm2/sdot", "documented relative norms")
    rc.norm_discipline(r6, w, "coneprog", "coneqp")
    rc.cone_product_rule(r6, w, "coneprog", "coneqp")
    r6.require(4)
    from .. import solver_rules as sr5
    r10 = chk.rule("C03-R10", "initvals: the supplied z is validated like the supplied s (mirror-image tests)",
                   "'optimal' is never reported at a warm start whose z is outside the cone")
    chk.note_analysed("start_validations", sr5.start_mirror_rule(r10, w, [("coneprog", "coneqp")]))
    r10.require(1)
    r11 = chk.rule("C03-R11", "the primal objective is read from rx = q + P*x at every site (before A'y, G'z are accumulated)",
                   "the reported 'primal objective' is the objective of the returned x on every path")
    chk.note_analysed("objective_reads", sr5.objective_contribution_rule(r11, w))
    r11.require(2)
    return chk
