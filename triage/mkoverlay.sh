#!/bin/bash
# Build an importable overlay of cvxopt from a source tree (default /repo) into OUT.
# Usage: mkoverlay.sh <srcroot> <outdir>   then: PYTHONPATH=<outdir> /venv/bin/python ...
# TRIAGE ONLY: never used by a registered check (checks are static and execute nothing).
set -e
SRC=${1:-/repo}; OUT=${2:?outdir}
SP=/venv/lib/python3.12/site-packages
rm -rf "$OUT"; mkdir -p "$OUT"
cp -r $SP/cvxopt "$OUT/cvxopt"; rm -rf "$OUT/cvxopt/__pycache__"
ln -s $SP/cvxopt.libs "$OUT/cvxopt.libs"
for f in "$SRC"/src/python/*.py; do b=$(basename $f); [ "$b" = _version.py ] && continue; cp "$f" "$OUT/cvxopt/$b"; done
INC=$(/venv/bin/python -c "import sysconfig;print(sysconfig.get_paths()['include'])")
for m in base blas lapack misc_solvers; do
  srcs="$SRC/src/C/$m.c"; [ $m = base ] && srcs="$SRC/src/C/base.c $SRC/src/C/dense.c $SRC/src/C/sparse.c"
  gcc -shared -fPIC -O1 -w -I$INC -I"$SRC/src/C" $srcs -o "$OUT/cvxopt/$m.cpython-312-x86_64-linux-gnu.so" -llapack -lblas -lm &
done; wait
echo "overlay at $OUT"
