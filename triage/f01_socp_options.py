"""Triage: socp honours options= (maxiters=1 -> at most 1 iteration, status unknown)."""
from cvxopt import matrix, solvers
solvers.options['show_progress'] = False
c = matrix([-2., 1., 5.])
G = [ matrix( [[12., 13., 12.], [6., -3., -12.], [-5., -5., 6.]] ) ]
G += [ matrix( [[3., 3., -1., 1.], [-6., -6., -9., 19.], [10., -2., -2., -3.]] ) ]
h = [ matrix( [-12., -3., -2.] ),  matrix( [27., 0., 3., -42.] ) ]
sol = solvers.socp(c, Gq = G, hq = h, options={'maxiters': 1, 'show_progress': False})
print(sol['status'], sol['iterations'])
print('PASS' if sol['iterations'] <= 1 else 'FAIL')
