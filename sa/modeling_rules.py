"""Rules over src/python/modeling.py shared by C11 and C12."""
import ast
import re

from . import pyfront as pf
from .effects import FunctionEffects

EXPR_CLASSES = ("variable", "_function", "_lin", "_minmax", "_sum_minmax")
BINARY = ("__add__", "__radd__", "__sub__", "__rsub__", "__mul__", "__rmul__", "__truediv__", "__rtruediv__",
          "__pos__", "__neg__", "__abs__", "__getitem__")
INPLACE = ("__iadd__", "__isub__", "__imul__", "__itruediv__")


def swap_dual(t):
    """text of a statement under the convex/concave duality"""
    def sw(m):
        w = m.group(0)
        return {"cvx": "ccv", "ccv": "cvx", "max": "min", "min": "max", "convex": "concave", "concave": "convex",
                "Convex": "Concave", "Concave": "Convex"}[w]
    t = t.replace("minmax", "\0")
    t = re.sub(r"convex|concave|Convex|Concave|cvx|ccv|max|min", sw, t)
    return t.replace("\0", "minmax")


def dual_statements(fn):
    out = []
    for s in pf.stmts_of(fn):
        if isinstance(s, (ast.If, ast.Try, ast.While, ast.FunctionDef)):
            continue
        t = ast.unparse(s)
        if "_cvxterms" in t or "_ccvterms" in t:
            p = s._parent
            nested = False
            while p is not fn and p is not None:
                if isinstance(p, ast.For) and ("_cvxterms" in ast.unparse(p.iter) or "_ccvterms" in ast.unparse(p.iter)):
                    nested = True
                p = getattr(p, "_parent", None)
            if not nested:
                out.append((" ".join(t.split()), s))
    return out


DUAL_EXCEPTIONS = {
    "_function.__imul__": "multiplication by a negative scalar swaps the two lists through a temporary (checked by the swap rule)",
    "constraint._aslinearineq": "constraints f <= 0 only admit convex terms: nothing to mirror",
    "op._inmatrixform": "the objective is minimised: only convex terms can occur",
}
DUAL_PAIRS = {"max": "min", "min": "max"}


def duality_rule(rule, w):
    """The convex and the concave side of a function are handled by mirror-image code:
    the set of statements of a method that mention _cvxterms/_ccvterms is closed under
    the swap cvx<->ccv, max<->min (or equals the swap of its dual function's)."""
    m = w.mods["modeling"]
    n = 0
    for q, fn in m.funcs.items():
        st = dual_statements(fn)
        if not st:
            continue
        n += 1
        key = "modeling.%s:cvx/ccv mirror symmetry" % q
        where = m.where(fn, fn)
        mine = sorted(t for t, _ in st)
        if q in DUAL_EXCEPTIONS:
            rule.ok(key + ":named-exception", where, DUAL_EXCEPTIONS[q])
            continue
        if q in DUAL_PAIRS and DUAL_PAIRS[q] in m.funcs:
            other = sorted(swap_dual(t) for t, _ in dual_statements(m.funcs[DUAL_PAIRS[q]]))
            if mine == other:
                rule.ok(key, where, "mirror image of %s" % DUAL_PAIRS[q])
            else:
                rule.violation(key, where, "%s and %s are not mirror images of each other" % (q, DUAL_PAIRS[q]), other[:3], mine[:3])
            continue
        sw = sorted(swap_dual(t) for t in mine)
        if mine == sw:
            rule.ok(key, where, "%d statements closed under the swap" % len(mine))
        else:
            odd = [(t, s) for t, s in st if swap_dual(t) not in mine]
            t0, s0 = odd[0]
            rule.violation(key, m.where(s0, fn),
                           "the convex and concave terms are not treated by mirror-image code: `%s` has no counterpart `%s`"
                           % (t0[:90], swap_dual(t0)[:90]), swap_dual(t0)[:120], "absent")
    return n


def swap_hazard_rule(rule, w):
    """Two attributes exchanged/recomputed from each other in one straight-line block:
    the second assignment must not read the attribute the first one has just
    overwritten (a swap needs a temporary)."""
    m = w.mods["modeling"]
    n = 0
    for q, fn in m.funcs.items():
        for blk in _blocks(fn):
            for i, s1 in enumerate(blk):
                if not (isinstance(s1, ast.Assign) and len(s1.targets) == 1 and isinstance(s1.targets[0], ast.Attribute)):
                    continue
                a = ast.unparse(s1.targets[0])
                reads1 = {ast.unparse(x) for x in ast.walk(s1.value) if isinstance(x, ast.Attribute)}
                for s2 in blk[i + 1:i + 4]:
                    if not (isinstance(s2, ast.Assign) and len(s2.targets) == 1 and isinstance(s2.targets[0], ast.Attribute)):
                        continue
                    b = ast.unparse(s2.targets[0])
                    if b == a or b not in reads1:
                        continue
                    n += 1
                    reads2 = {ast.unparse(x) for x in ast.walk(s2.value) if isinstance(x, ast.Attribute)}
                    key = "modeling.%s:%s <-> %s" % (q, a, b)
                    if a in reads2:
                        rule.violation(key, m.where(s2, fn),
                                       "`%s` is computed from `%s` right after `%s` was overwritten with a value computed from `%s`: "
                                       "the old value is lost (exchange without a temporary)" % (b, a, a, b),
                                       "read the old value through a temporary", ast.unparse(s2)[:80])
                    else:
                        rule.ok(key, m.where(s2, fn))
    # the positive idiom that exists today: temporaries in _function.__imul__
    f = m.funcs.get("_function.__imul__")
    if f is not None:
        txt = ast.unparse(f)
        if re.search(r"(\w+) = \[.*self\._ccvterms\]\s*\n\s*self\._ccvterms = \[.*self\._cvxterms\]\s*\n\s*self\._cvxterms = \1", txt):
            rule.ok("modeling._function.__imul__:negative scalar swaps _cvxterms/_ccvterms through a temporary", m.where(f, f))
            n += 1
    return n


def _blocks(fn):
    out = []

    def walk(stmts):
        out.append(stmts)
        for s in stmts:
            if isinstance(s, (ast.FunctionDef, ast.ClassDef)):
                continue
            for f in ("body", "orelse", "finalbody"):
                b = getattr(s, f, None)
                if isinstance(b, list) and b:
                    walk(b)
            if isinstance(s, ast.Try):
                for h in s.handlers:
                    walk(h.body)
    walk(fn.body)
    return out


def operand_effect_rule(rule, w):
    """No operator or term-merging helper of the expression classes writes in place to an
    object reachable from an argument other than self."""
    m = w.mods["modeling"]
    n = 0
    for q, fn in m.funcs.items():
        if q.count(".") != 1:
            continue
        cls, meth = q.split(".")
        if cls not in EXPR_CLASSES:
            continue
        params = [p for p in pf.arg_names(fn) if p != "self"]
        if not params:
            continue
        n += 1
        fe = FunctionEffects(fn, m, containers=set(params), protected=set(params))
        fe.deep_attrs = True
        fe.alias = {}
        fe.sinks = []
        fe._run()
        seen = set()
        for node, root, how, tgt in fe.sinks:
            key = "modeling.%s:write to argument %s via %s" % (q, root, pf.norm_expr(node)[:60])
            if key in seen:
                continue
            seen.add(key)
            rule.violation(key, m.where(node, fn),
                           "`%s` may share storage with the argument `%s` and is modified in place (%s): the operand of the "
                           "expression changes value" % (pf.norm_expr(tgt)[:40], root, how),
                           "work on a copy (+a / matrix(a))", m.seg(pf.enclosing_stmt(node))[:80])
        if not seen:
            rule.ok("modeling.%s:arguments not written" % q, m.where(fn, fn))
    return n


def returns_rule(rule_new, rule_inplace, rule_refuse, w):
    m = w.mods["modeling"]
    for q, fn in m.funcs.items():
        if q.count(".") != 1:
            continue
        cls, meth = q.split(".")
        if cls not in EXPR_CLASSES:
            continue
        rets = [r for r in pf._scope_nodes(fn) if isinstance(r, ast.Return)]
        where = m.where(fn, fn)
        if meth in BINARY:
            bad = [r for r in rets if isinstance(r.value, ast.Name) and r.value.id in ("self", "other")]
            if bad:
                rule_new.violation("modeling.%s:returns a new object" % q, m.where(bad[0], fn),
                                   "the operator returns its operand `%s` itself" % bad[0].value.id, "a new object", bad[0].value.id)
            else:
                rule_new.ok("modeling.%s:returns a new object" % q, where)
        if meth in INPLACE:
            raises_only = not rets
            def _is_self(v):
                if isinstance(v, ast.Name) and v.id in ("self", "NotImplemented"):
                    return True
                # delegation to another in-place method of self
                return isinstance(v, ast.Call) and isinstance(v.func, ast.Attribute) and isinstance(v.func.value, ast.Name) \
                    and v.func.value.id == "self" and v.func.attr in INPLACE
            good = all(_is_self(r.value) for r in rets)
            if raises_only or good:
                rule_inplace.ok("modeling.%s:returns self" % q, where, "raises" if raises_only else "self")
            else:
                b = [r for r in rets if not _is_self(r.value)][0]
                rule_inplace.violation("modeling.%s:returns self" % q, m.where(b, fn), "in-place operator returns %s" % pf.norm_expr(b.value)[:40],
                                       "self", pf.norm_expr(b.value)[:40])
        if meth in BINARY + INPLACE:
            cfg = pf.CFG(fn)
            fall = [u for u in cfg.pred[1] if cfg.edge_label.get((u, 1)) != "return"]
            fall = [u for u in fall if u in cfg.reachable()]
            bare = [r for r in rets if r.value is None]
            if fall or bare:
                node = cfg.node_stmt.get(fall[0]) if fall else bare[0]
                rule_refuse.violation("modeling.%s:every path returns a value or raises" % q, m.where(node, fn) if node is not None else where,
                                      "a path through the operator ends without return/raise: an unsupported combination yields None "
                                      "instead of being refused", "raise TypeError/ValueError or return NotImplemented", "implicit None")
            else:
                rule_refuse.ok("modeling.%s:every path returns a value or raises" % q, where)


def curvature_sign_rule(rule, w):
    """Negating a term flips its curvature: a list comprehension that feeds `X._cvxterms` /
    `X._ccvterms` from `Y._cvxterms` / `Y._ccvterms` crosses sides exactly when its element is
    the negated loop variable (`-t`), and stays on its side for `+t` / `t`."""
    m = w.mods["modeling"]
    n = 0
    for q, fn in m.funcs.items():
        for st in pf.stmts_of(fn):
            if isinstance(st, ast.Assign) and len(st.targets) == 1:
                tgt, val = st.targets[0], st.value
            elif isinstance(st, ast.AugAssign):
                tgt, val = st.target, st.value
            else:
                continue
            if not (isinstance(tgt, ast.Attribute) and tgt.attr in ("_cvxterms", "_ccvterms")):
                continue
            for comp in [x for x in ast.walk(val) if isinstance(x, ast.ListComp)]:
                if len(comp.generators) != 1:
                    continue
                g = comp.generators[0]
                if not (isinstance(g.iter, ast.Attribute) and g.iter.attr in ("_cvxterms", "_ccvterms") and isinstance(g.target, ast.Name)):
                    continue
                v = g.target.id
                e = comp.elt
                if isinstance(e, ast.UnaryOp) and isinstance(e.op, ast.USub) and isinstance(e.operand, ast.Name) and e.operand.id == v:
                    neg = True
                elif (isinstance(e, ast.UnaryOp) and isinstance(e.op, ast.UAdd) and isinstance(e.operand, ast.Name) and e.operand.id == v) \
                        or (isinstance(e, ast.Name) and e.id == v):
                    neg = False
                else:
                    continue        # scaled terms: the sign depends on the path (mirror rule)
                n += 1
                cross = g.iter.attr != tgt.attr
                key = "modeling.%s:%s <- [%s for .. in %s]" % (q, pf.norm_expr(tgt), pf.norm_expr(e), pf.norm_expr(g.iter))
                where = m.where(st, fn)
                if neg == cross:
                    rule.ok(key, where, "negated terms change side" if neg else "copied terms keep their side")
                elif neg:
                    rule.violation(key, where,
                                   "the negated %s terms of `%s` are filed as %s terms again: minus a convex term is concave, so the curvature "
                                   "label of the result is wrong" % (g.iter.attr[1:4], pf.norm_expr(g.iter.value), tgt.attr[1:4]),
                                   "[-t for t in %s.%s]" % (pf.norm_expr(g.iter.value), "_ccvterms" if g.iter.attr == "_cvxterms" else "_cvxterms"),
                                   pf.norm_expr(comp))
                else:
                    rule.violation(key, where, "terms copied without a sign change move from the %s to the %s list" % (g.iter.attr[1:4], tgt.attr[1:4]),
                                   "same list", pf.norm_expr(comp))
    return n


def dead_refusal_rule(rule, w):
    """A `raise` that refuses an unsupported combination must be reachable: the conjunction of
    the conditions on its path (syntax-directed, with negated earlier arms) is satisfiable.  An
    unsatisfiable one means an enclosing test already excludes the case the refusal was written
    for - the combination is then silently accepted on another path."""
    import itertools
    m = w.mods["modeling"]
    n = 0
    for q, fn in m.funcs.items():
        for x in pf._scope_nodes(fn):
            if not isinstance(x, ast.Raise):
                continue
            conds = pf.path_condition(x)
            p = pf.P_and(*conds) if conds else pf.P_TRUE
            atoms = sorted(p.atoms())
            if len(atoms) > 16:
                continue
            n += 1
            key = "modeling.%s:raise reachable@%s" % (q, pf.norm_expr(x)[:50])
            sat = any(p.ev(dict(zip(atoms, vals))) for vals in itertools.product((False, True), repeat=len(atoms)))
            if sat:
                rule.ok(key, m.where(x, fn))
            else:
                rule.violation(key, m.where(x, fn),
                               "this refusal can never run: its path condition `%s` is contradictory, so the combination it was written for is accepted elsewhere"
                               % repr(p)[:120], "a reachable raise", repr(p)[:120])
    return n


def stale_alias_rule(rule, w):
    """Read-modify-write through two names: in `T[sl] = .. A[sl] ..` (same slice on both sides)
    A must still denote the object T denotes.  When A was bound to T (`c = self._coeff[v]`) and T
    has been re-bound since (`self._coeff[v] = <new matrix>`), the statement reads the old object
    with the new object's index pattern."""
    m = w.mods["modeling"]
    n = 0
    for q, fn in m.funcs.items():
        for st in pf.stmts_of(fn):
            if not (isinstance(st, ast.Assign) and len(st.targets) == 1 and isinstance(st.targets[0], ast.Subscript)):
                continue
            T = st.targets[0]
            tbase, tsl = pf.norm_expr(T.value), pf.norm_expr(T.slice) if not isinstance(T.slice, ast.Slice) else ast.unparse(T.slice)
            for sub in [x for x in ast.walk(st.value) if isinstance(x, ast.Subscript) and isinstance(x.value, ast.Name)]:
                ssl = pf.norm_expr(sub.slice) if not isinstance(sub.slice, ast.Slice) else ast.unparse(sub.slice)
                A = sub.value.id
                if ssl != tsl or A == tbase or not isinstance(T.slice, ast.Slice):
                    continue
                # A's binding: the last `A = <expr>` before st in source order within fn
                binds = [a for a in pf.stmts_of(fn) if isinstance(a, ast.Assign) and len(a.targets) == 1 and isinstance(a.targets[0], ast.Name)
                         and a.targets[0].id == A and a.lineno < st.lineno]
                if not binds or pf.norm_expr(binds[-1].value) != tbase:
                    continue
                n += 1
                key = "modeling.%s:%s[%s] updated from %s[%s]" % (q, tbase, tsl, A, ssl)
                # is T re-bound between the binding of A and st, on the path to st?  (same block chain, by position)
                rebinds = [a for a in pf.stmts_of(fn) if isinstance(a, ast.Assign) and any(pf.norm_expr(t_) == tbase for t_ in a.targets)
                           and binds[-1].lineno < a.lineno < st.lineno and _dominates(a, st)]
                if rebinds:
                    rule.violation(key, m.where(st, fn),
                                   "`%s` was bound to `%s`, but `%s` has been re-bound to `%s` at line %d: this read-modify-write combines the old "
                                   "object's entries `%s[%s]` with the new object's positions" % (A, tbase, tbase, pf.norm_expr(rebinds[-1].value)[:40],
                                                                                                   rebinds[-1].lineno, A, ssl),
                                   "%s[%s] = %s[%s] + .." % (tbase, tsl, tbase, tsl), pf.norm_expr(st)[:80])
                else:
                    rule.ok(key, m.where(st, fn), "%s still denotes %s" % (A, tbase))
    return n


def _dominates(a, b):
    """statement a precedes b in a block that encloses b (so it runs before b on every path to b)"""
    p = getattr(a, "_parent", None)
    x = b
    while x is not None:
        if getattr(x, "_parent", None) is p:
            for f in ("body", "orelse", "finalbody"):
                blk = getattr(p, f, None)
                if isinstance(blk, list) and any(y is a for y in blk) and any(y is x for y in blk):
                    return True
            return False
        x = getattr(x, "_parent", None)
    return False


def curvature_admission_rule(rule, w):
    """A max of functions is convex only if every argument is convex (a min concave only if every
    argument is concave).  In the constructors of the max/min classes every statement that files a
    caller-supplied element X into `self._flist` must therefore be reached only when
    `type(X) is variable`, or `X._isconvex() and self._ismax`, or `X._isconcave() and not self._ismax`
    (implication decided on the syntax-directed path condition).  Elements built in place from
    constants (`_function() + cnst`) are affine and need no test."""
    m = w.mods["modeling"]
    n = 0
    for q, fn in m.funcs.items():
        if not (q.endswith(".__init__") and "minmax" in q):
            continue
        params = set(pf.arg_names(fn)) - {"self"}
        for st in pf.stmts_of(fn):
            elts = []
            if isinstance(st, ast.AugAssign) and pf.norm_expr(st.target) == "self._flist" and isinstance(st.value, ast.List):
                elts = st.value.elts
            elif isinstance(st, ast.Assign) and any(pf.norm_expr(t) == "self._flist" for t in st.targets) and isinstance(st.value, ast.List):
                elts = st.value.elts
            elif isinstance(st, ast.Expr) and isinstance(st.value, ast.Call) and pf.norm_expr(st.value.func) in ("self._flist.append",):
                elts = st.value.args
            for e in elts:
                x = e.operand if isinstance(e, ast.UnaryOp) and isinstance(e.op, ast.UAdd) else e
                names = pf.names_in(x)
                # provenance: a parameter, an element of one, or a loop variable ranging over one
                loopvars = {}
                p = st
                while p is not None and p is not fn:
                    if isinstance(p, ast.For) and isinstance(p.target, ast.Name):
                        loopvars[p.target.id] = pf.names_in(p.iter)
                    p = getattr(p, "_parent", None)
                foreign = bool(names & params) or any(v in loopvars and loopvars[v] & params for v in names)
                key = "modeling.%s:self._flist <- %s" % (q, pf.norm_expr(e))
                where = m.where(st, fn)
                if not foreign:
                    if any(isinstance(c, ast.Call) and pf.norm_expr(c.func) == "_function" and not c.args for c in ast.walk(x)):
                        n += 1
                        rule.ok(key, where, "affine element built in place")
                    continue
                n += 1
                xt = ast.unparse(x)
                goal = pf.prop_of(ast.parse(
                    "type(%s) is variable or (%s._isconvex() and self._ismax) or (%s._isconcave() and not self._ismax)" % (xt, xt, xt),
                    mode="eval").body)
                conds = pf.path_condition(st)
                prem = pf.P_and(*conds) if conds else pf.P_TRUE
                r = pf.implies(prem, goal)
                if r:
                    rule.ok(key, where, "reached only for a variable or a function of the matching curvature")
                elif r is None:
                    rule.undecided(key, where, "path condition too large")
                else:
                    rule.violation(key, where,
                                   "`%s` is filed as an argument of the max/min without a test of its curvature on this path (path condition: %s): "
                                   "max of a concave function (min of a convex one) is accepted and labelled convex (concave)"
                                   % (xt, repr(prem)[:110]),
                                   "%s._isconvex() and self._ismax or %s._isconcave() and not self._ismax" % (xt, xt), repr(prem)[:120])
    return n


def partial_overwrite_rule(rule, w):
    """An in-place operator either updates the components of `self` (each new value computed from
    the old one) or replaces the function altogether.  On a path to `return self`, the components
    (attributes assigned in the class's __init__) that are overwritten with a value that does not
    depend on the old components must be none or all of them: replacing only some leaves the
    others contributing their old terms (f *= 0 that keeps the linear part)."""
    m = w.mods["modeling"]
    n = 0
    for q, fn in m.funcs.items():
        if q.count(".") != 1:
            continue
        cls, meth = q.split(".")
        if cls not in EXPR_CLASSES or meth not in INPLACE:
            continue
        init = m.funcs.get(cls + ".__init__")
        if init is None:
            continue
        comps = []
        for s in pf.stmts_of(init):
            if isinstance(s, ast.Assign):
                for t in s.targets:
                    if isinstance(t, ast.Attribute) and isinstance(t.value, ast.Name) and t.value.id == "self" and t.attr not in comps:
                        comps.append(t.attr)
        if len(comps) < 2:
            continue
        for r in [x for x in pf._scope_nodes(fn) if isinstance(x, ast.Return) and isinstance(x.value, ast.Name) and x.value.id == "self"]:
            over = []
            for s in pf.stmts_of(fn):
                if not (isinstance(s, ast.Assign) and s.lineno < r.lineno and _dominates(s, r)):
                    continue
                for t in s.targets:
                    if isinstance(t, ast.Attribute) and isinstance(t.value, ast.Name) and t.value.id == "self" and t.attr in comps:
                        reads = {a.attr for a in ast.walk(s.value) if isinstance(a, ast.Attribute) and isinstance(a.value, ast.Name)
                                 and a.value.id == "self"}
                        if not (reads & set(comps)):
                            over.append(t.attr)
            n += 1
            conds = pf.path_condition(r)
            key = "modeling.%s:return self @ %s" % (q, repr(pf.P_and(*conds))[:70] if conds else "end")
            where = m.where(r, fn)
            if not over:
                rule.ok(key, where, "components are updated, none replaced")
            elif set(over) == set(comps):
                rule.ok(key, where, "all of %s replaced" % ", ".join(comps))
            else:
                missing = [c for c in comps if c not in over]
                rule.violation(key, where,
                               "this path replaces %s with values independent of the old function but leaves %s untouched: the old %s keep "
                               "contributing to the value of the result" % (", ".join("self." + c for c in over), ", ".join("self." + c for c in missing),
                                                                           "terms" if len(missing) > 1 else "term"),
                               "replace every component (%s) or none" % ", ".join(comps), "only " + ", ".join(over))
    return n


def sentinel_length_rule(rule, w):
    """The constant term of a function is a vector of length 1 or len(f).  A test of its first
    entry (`X._constant[0]` used as a truth value) says something about the whole constant only
    when the length is 1: in the condition it occurs in, the outcome must not depend on the first
    entry when `len(X._constant) == 1` is false (decided by truth table over the atoms of the
    condition)."""
    import itertools
    m = w.mods["modeling"]
    n = 0
    for q, fn in m.funcs.items():
        for sub in pf._scope_nodes(fn):
            if not (isinstance(sub, ast.Subscript) and isinstance(sub.value, ast.Attribute) and sub.value.attr == "_constant"
                    and isinstance(sub.slice, ast.Constant) and sub.slice.value == 0):
                continue
            # truth-value use: climb through not / and / or
            top, p = sub, getattr(sub, "_parent", None)
            while isinstance(p, ast.BoolOp) or (isinstance(p, ast.UnaryOp) and isinstance(p.op, ast.Not)):
                top, p = p, getattr(p, "_parent", None)
            in_test = isinstance(p, (ast.If, ast.While, ast.IfExp)) and p.test is top
            if top is sub and not in_test:
                continue                      # a value use (arithmetic, comparison, argument)
            if not in_test and not isinstance(top, (ast.BoolOp, ast.UnaryOp)):
                continue
            n += 1
            F = pf.prop_of(top)
            Z = pf.norm_expr(sub)
            base = pf.norm_expr(sub.value)
            atoms = sorted(F.atoms())
            L = [a for a in atoms if ("len(%s)" % base) in a and "==" in a and re.search(r"(^|[( ])1($|[) ])", a.replace("len(%s)" % base, ""))]
            key = "modeling.%s:%s tested as a truth value" % (q, Z)
            where = m.where(sub, fn)
            if Z not in atoms:
                rule.undecided(key, where, "use not recognised as an atom of the condition")
                continue
            if not L:
                rule.violation(key, where,
                               "the first entry of `%s` decides `%s` without a test that the constant has length 1: a vector constant whose "
                               "first entry is 0 is treated as zero and dropped" % (base, pf.norm_expr(top)[:70]),
                               "len(%s) != 1 or %s" % (base, Z), pf.norm_expr(top)[:90])
                continue
            others = [a for a in atoms if a not in (Z, L[0])]
            dep = False
            for vals in itertools.product((False, True), repeat=len(others)):
                env = dict(zip(others, vals)); env[L[0]] = False
                e1 = dict(env); e1[Z] = True
                e0 = dict(env); e0[Z] = False
                if F.ev(e1) != F.ev(e0):
                    dep = True
                    break
            if dep:
                rule.violation(key, where,
                               "`%s` still depends on the first entry of the constant when its length is not 1" % pf.norm_expr(top)[:70],
                               "len(%s) != 1 or %s" % (base, Z), pf.norm_expr(top)[:90])
            else:
                rule.ok(key, where, "only consulted when len(%s) == 1" % base)
    return n


# --------------------------------------------------------------------------------------
# in-place arithmetic on a coefficient that may be sparse
# --------------------------------------------------------------------------------------

_SPARSE_FIXTURE = '''
def _addterm(self, a, v):
    c = self._coeff[v]
    if _ismatrix(a) and a.size == (1, len(v)):
        if _isdmatrix(c) and c.size == (1, 1):
            m = a[lg*[0], :]
            m[::lg+1] += c[0]
            self._coeff[v] = m
'''


def sparse_inplace_contract(repo):
    """{'+=': bool, '-=': bool}: does the in-place slot of spmatrix refuse every operand that is not
    itself sparse?  Read off src/C/sparse.c on every run: the slot function starts with
    `if (!SpMatrix_Check(other)) PY_ERR_TYPE(..)`."""
    import os
    try:
        src = open(os.path.join(repo, "src", "C", "sparse.c"), errors="replace").read()
    except OSError:
        return None
    out = {}
    for op, fn in (("+=", "spmatrix_iadd"), ("-=", "spmatrix_isub")):
        mm = re.search(r"\n%s\s*\(PyObject \*self, PyObject \*other\)\s*\{(.{0,400})" % fn, src, re.S)
        if not mm:
            return None
        out[op] = re.match(r"\s*if\s*\(\s*!\s*SpMatrix_Check\s*\(\s*other\s*\)\s*\)\s*PY_ERR_TYPE", mm.group(1)) is not None
    return out


def _pos_atoms(conds):
    out = set()
    for c in conds:
        for a in pf._flatten_and(c):
            if a.kind == "atom":
                out.add(a.args)
    return out


def _sparse_inplace_sites(fn):
    """[(stmt, base name, source name, verdict, reason)] for `T op= V`, op in +,-, where T is (a
    subscript of) a local bound to a copy / row selection / the object of a name X that the path
    admits as `_ismatrix(X)` (dense or sparse)."""
    out = []
    for st in pf.stmts_of(fn):
        if not (isinstance(st, ast.AugAssign) and isinstance(st.op, (ast.Add, ast.Sub))):
            continue
        t = st.target
        while isinstance(t, ast.Subscript):
            t = t.value
        if not isinstance(t, ast.Name):
            continue
        B = t.id
        pos = _pos_atoms(pf.path_condition(st, cross_loops=True))
        # the object B denotes: follow `B = +X`, `B = X[..]`, `B = X`
        src, seen = B, set()
        while src not in seen:
            seen.add(src)
            binds = [a for a in pf.stmts_of(fn) if isinstance(a, ast.Assign) and len(a.targets) == 1 and isinstance(a.targets[0], ast.Name)
                     and a.targets[0].id == src and a.lineno < st.lineno]
            if not binds:
                break
            v = binds[-1].value
            if isinstance(v, ast.UnaryOp) and isinstance(v.op, ast.UAdd):
                v = v.operand
            while isinstance(v, ast.Subscript) and isinstance(v.slice, ast.Tuple):
                v = v.value                      # two-argument indexing keeps the storage class
            if isinstance(v, ast.Name):
                src = v.id
            else:
                break
        if "_isdmatrix(%s)" % src in pos or "_isdmatrix(%s)" % B in pos:
            out.append((st, B, src, "ok", "`%s` is dense on this path" % src))
            continue
        if not ("_ismatrix(%s)" % src in pos or "_isspmatrix(%s)" % src in pos):
            continue                             # storage class unknown: not an instance
        v = st.value
        sparse_rhs = (isinstance(v, ast.Call) and pf.norm_expr(v.func) in ("sparse", "spmatrix", "spdiag")) or \
                     (isinstance(v, ast.Name) and "_isspmatrix(%s)" % v.id in pos)
        if sparse_rhs:
            out.append((st, B, src, "ok", "sparse operand"))
        else:
            out.append((st, B, src, "bad", "`%s` may be sparse (admitted by _ismatrix(%s)) and `%s` is not a sparse matrix"
                        % (B, src, pf.norm_expr(v))))
    return out


def sparse_inplace_rule(rule, w, repo):
    """spmatrix's `+=` / `-=` accept sparse operands only (read off sparse.c).  In modeling.py a
    coefficient admitted by `_ismatrix(.)` may be sparse: an in-place addition of a number or a
    dense matrix to it (or to a slice of it) raises TypeError for a valid expression."""
    m = w.mods["modeling"]
    contract = sparse_inplace_contract(repo)
    n = 0
    if contract is None:
        rule.undecided("sparse.c:spmatrix_iadd/spmatrix_isub", "src/C/sparse.c", "in-place slots not found")
        return 0
    n += 1
    if not (contract["+="] or contract["-="]):
        rule.ok("sparse.c:in-place slots accept non-sparse operands", "src/C/sparse.c", "nothing to require of the callers")
        return n
    rule.ok("sparse.c:spmatrix += / -= refuse non-sparse operands", "src/C/sparse.c:spmatrix_iadd", "contract read from the slot functions")
    # self-test on the embedded pre-fix fragment: the rule must fire
    ft = ast.parse(_SPARSE_FIXTURE)
    pf.attach_parents(ft)
    fx = [s for s in _sparse_inplace_sites(ft.body[0]) if s[3] == "bad"]
    n += 1
    if len(fx) == 1:
        rule.ok("self-test:fires on the embedded fragment `m = a[..,:]; m[::k] += c[0]`", "sa/modeling_rules.py")
    else:
        rule.undecided("self-test:fires on the embedded fragment", "sa/modeling_rules.py", "the rule no longer recognises its own positive example")
    for q, fn in m.funcs.items():
        for st, B, src, verdict, why in _sparse_inplace_sites(fn):
            n += 1
            key = "modeling.%s:%s" % (q, pf.norm_expr(st)[:60])
            if verdict == "ok":
                rule.ok(key, m.where(st, fn), why)
            else:
                rule.violation(key, m.where(st, fn),
                               why + ": spmatrix refuses the in-place operation ('invalid inplace operation'), so a valid expression "
                               "(x + x[0], x + sum(x), x + S*x) raises TypeError",
                               "%s = %s %s .." % (pf.norm_expr(st.target), pf.norm_expr(st.target), "+" if isinstance(st.op, ast.Add) else "-"),
                               pf.norm_expr(st)[:80])
    return n


def asymmetric_alternative_rule(rule, w):
    """`type(y) is variable or (type(y) is _function and ..) and SIZE_TEST(y)` parses as
    `T1 or (T2 and SIZE_TEST)`: the size test guards only one of the two type alternatives.  For an
    `or` whose operands are a bare type test of y and a conjunction that starts with another type
    test of y, every further conjunct that reads y through something that both types support
    (len(y), y.size - not a method of one type like y._isaffine()) must also constrain the bare
    alternative, i.e. the bare type test may not stand alone."""
    m = w.mods["modeling"]
    n = 0

    def type_test(e):
        """name tested by `type(NAME) is T`, else None"""
        if isinstance(e, ast.Compare) and len(e.ops) == 1 and isinstance(e.ops[0], ast.Is) and isinstance(e.left, ast.Call) \
                and isinstance(e.left.func, ast.Name) and e.left.func.id == "type" and len(e.left.args) == 1:
            return pf.norm_expr(e.left.args[0])
        return None

    def flat_and(e):
        if isinstance(e, ast.BoolOp) and isinstance(e.op, ast.And):
            out = []
            for v in e.values:
                out += flat_and(v)
            return out
        return [e]
    for q, fn in m.funcs.items():
        for e in pf._scope_nodes(fn):
            if not (isinstance(e, ast.BoolOp) and isinstance(e.op, ast.Or)):
                continue
            bare = [(v, type_test(v)) for v in e.values if type_test(v)]
            for v in e.values:
                cj = flat_and(v)
                if len(cj) < 2:
                    continue
                heads = [type_test(c) for c in cj if type_test(c)]
                for bv, y in bare:
                    if y not in heads:
                        continue
                    n += 1
                    key = "modeling.%s:alternatives of %s @%s" % (q, y, pf.norm_expr(e)[:50])
                    where = m.where(e, fn)
                    shared = []
                    for c in cj:
                        if type_test(c):
                            continue
                        # reads of y through a generic protocol: len(y), y.size, y[..]
                        for x in ast.walk(c):
                            if isinstance(x, ast.Call) and isinstance(x.func, ast.Name) and x.func.id == "len" and x.args and pf.norm_expr(x.args[0]) == y:
                                shared.append(pf.norm_expr(c))
                            elif isinstance(x, ast.Attribute) and x.attr == "size" and pf.norm_expr(x.value) == y:
                                shared.append(pf.norm_expr(c))
                    if shared:
                        rule.violation(key, where,
                                       "`%s` constrains %s only together with the second type test; the first alternative `%s` is accepted without it "
                                       "(`a or b and c` is `a or (b and c)`): a %s of the wrong length is admitted" % (shared[0][:60], y, pf.norm_expr(bv), y),
                                       "(%s or ..) and %s" % (pf.norm_expr(bv), shared[0][:50]), pf.norm_expr(e)[:120])
                    else:
                        rule.ok(key, where, "the extra conjuncts are predicates of the second type only")
    return n


def sparse_len_rule(rule, w):
    """len() of a sparse matrix is its number of nonzeros.  A method that admits an argument X
    through `_ismatrix(X)` (dense or sparse) must not measure it with len(X)."""
    m = w.mods["modeling"]
    n = 0
    for q, fn in m.funcs.items():
        admitted = set()
        for x in pf._scope_nodes(fn):
            if isinstance(x, ast.Call) and isinstance(x.func, ast.Name) and x.func.id in ("_ismatrix", "_isspmatrix") and x.args \
                    and isinstance(x.args[0], ast.Name):
                admitted.add(x.args[0].id)
        admitted &= set(pf.arg_names(fn))
        for X in sorted(admitted):
            lens = [x for x in pf._scope_nodes(fn) if isinstance(x, ast.Call) and isinstance(x.func, ast.Name) and x.func.id == "len"
                    and x.args and isinstance(x.args[0], ast.Name) and x.args[0].id == X]
            # uses under a path that excludes sparse matrices are fine
            bad = []
            for l in lens:
                conds = pf.path_condition(l, cross_loops=True)
                pos = _pos_atoms(conds)
                neg = {a.args[0].args for c in conds for a in pf._flatten_and(c) if a.kind == "not" and a.args[0].kind == "atom"}
                if "_ismatrix(%s)" % X in neg:
                    continue
                if "_isdmatrix(%s)" % X in pos or "(type(%s) is _function)" % X in pos or "(type(%s) is variable)" % X in pos:
                    continue
                bad.append(l)
            n += 1
            key = "modeling.%s:`%s` (dense or sparse) is not measured with len()" % (q, X)
            if bad:
                rule.violation(key, m.where(bad[0], fn),
                               "`%s` is admitted by _ismatrix(%s), so it may be sparse, and is measured with len(%s) - the number of stored "
                               "nonzeros, not the number of rows: a sparse vector with zeros is refused as having the wrong length (or one of the "
                               "wrong length accepted)" % (X, X, X), "%s.size[0]" % X, pf.norm_expr(pf.enclosing_stmt(bad[0]))[:80])
            else:
                rule.ok(key, m.where(fn, fn))
    return n


def none_result_rule(rule, w):
    """_vecmax / _vecmin return None when an argument has no value; value() methods propagate
    that.  The result of such a call must not be consumed by another call or by arithmetic before
    it has been compared with None (returning it as it is propagates the None)."""
    m = w.mods["modeling"]
    n = 0
    for q, fn in m.funcs.items():
        for x in pf._scope_nodes(fn):
            if not (isinstance(x, ast.Call) and isinstance(x.func, ast.Name) and x.func.id in ("_vecmax", "_vecmin")):
                continue
            if q in ("_vecmax", "_vecmin"):
                continue
            p = getattr(x, "_parent", None)
            n += 1
            key = "modeling.%s:result of %s(..) is tested for None before use" % (q, x.func.id)
            where = m.where(x, fn)
            if isinstance(p, ast.Return):
                rule.ok(key, where, "returned as it is")
            elif isinstance(p, ast.Assign) and len(p.targets) == 1 and isinstance(p.targets[0], ast.Name):
                v = p.targets[0].id
                tested = any(isinstance(c, ast.Compare) and isinstance(c.left, ast.Name) and c.left.id == v and isinstance(c.ops[0], (ast.Is, ast.IsNot))
                             for c in pf._scope_nodes(fn))
                if tested:
                    rule.ok(key, where, "`%s is None` is tested" % v)
                else:
                    rule.violation(key, where, "the result `%s` may be None (a variable without value) and is never compared with None" % v,
                                   "if %s is None: return None" % v, pf.norm_expr(p)[:80])
            else:
                rule.violation(key, where,
                               "the result of %s(..) - None when a variable has no value - is passed straight into `%s`: value() raises TypeError "
                               "instead of returning None" % (x.func.id, pf.norm_expr(p)[:50] if p is not None else "?"),
                               "val = %s(..); if val is None: return None" % x.func.id, pf.norm_expr(p)[:80] if p is not None else "")
    return n


def value_copy_rule(rule, w):
    """value() returns a new object: the returned name is never still bound to an attribute of
    self (f.value()[0] = .. must not change f)."""
    m = w.mods["modeling"]
    n = 0
    for q, fn in m.funcs.items():
        if not q.endswith(".value") or q.split(".")[0] not in EXPR_CLASSES:
            continue
        for r in [x for x in pf._scope_nodes(fn) if isinstance(x, ast.Return) and isinstance(x.value, ast.Name)]:
            v = r.value.id
            binds = [a for a in pf.stmts_of(fn) if isinstance(a, ast.Assign) and len(a.targets) == 1 and isinstance(a.targets[0], ast.Name) and a.targets[0].id == v]
            n += 1
            key = "modeling.%s:returned `%s` is not an attribute of self" % (q, v)
            bare = [a for a in binds if isinstance(a.value, ast.Attribute) and isinstance(a.value.value, ast.Name) and a.value.value.id == "self"]
            if bare:
                rule.violation(key, m.where(bare[0], fn),
                               "`%s = %s` binds the result to the function's own storage; on the path without further terms value() returns that "
                               "object itself" % (v, pf.norm_expr(bare[0].value)), "%s = +%s" % (v, pf.norm_expr(bare[0].value)), pf.norm_expr(bare[0]))
            else:
                rule.ok(key, m.where(r, fn))
    return n


# --------------------------------------------------------------------------------------
# round 5, second batch (built for missed wave-5 seeds; all are silent on the repaired tree)
# --------------------------------------------------------------------------------------

_ITER_FIXTURE = """
def prune(clist):
    for c in clist:
        if not c.variables():
            clist.remove(c)
"""


def _loop_mutations(fn):
    """[(loop, iterated expression text, mutating nodes, all mutations followed by break/return?)] for loops that call a
    list-mutating method anywhere in their body"""
    MUT = ("remove", "append", "insert", "pop", "extend", "clear", "sort", "reverse")
    out = []
    for lp in [x for x in pf._scope_nodes(fn) if isinstance(x, ast.For)]:
        it = lp.iter
        if not isinstance(it, (ast.Name, ast.Attribute)):
            continue
        itx = pf.norm_expr(it)
        muts = []
        for x in ast.walk(lp):
            if isinstance(x, ast.Call) and isinstance(x.func, ast.Attribute) and x.func.attr in MUT and pf.norm_expr(x.func.value) == itx:
                muts.append(x)
            elif isinstance(x, ast.Delete) and any(isinstance(t_, ast.Subscript) and pf.norm_expr(t_.value) == itx for t_ in x.targets):
                muts.append(x)
        if not muts and not any(isinstance(x, ast.Call) and isinstance(x.func, ast.Attribute) and x.func.attr in MUT for x in ast.walk(lp)):
            continue
        safe = all(isinstance(getattr(pf.enclosing_stmt(x), "_parent", None), (ast.If, ast.For)) and
                   _followed_by_exit(pf.enclosing_stmt(x)) for x in muts)
        out.append((lp, itx, muts, safe))
    return out


def iterate_and_mutate_rule(rule, w, modules=("modeling",)):
    """`for x in L: .. L.remove(x)` (or del / insert / append on the list being iterated) skips the
    element after each removed one.  The iterated expression must be a fresh list (a
    concatenation, list(..), a slice) when the body mutates it.  The repaired tree has no such
    loop, so the rule analyses its own positive example on every run."""
    n = 0
    ft = ast.parse(_ITER_FIXTURE)
    pf.attach_parents(ft)
    fx = _loop_mutations(ft.body[0])
    n += 1
    if len(fx) == 1 and fx[0][2] and not fx[0][3]:
        rule.ok("self-test:fires on the embedded example `for c in clist: .. clist.remove(c)`", "sa/modeling_rules.py")
    else:
        rule.undecided("self-test:fires on the embedded example", "sa/modeling_rules.py", "the rule no longer recognises its own positive example")
    for mn in modules:
        m = w.mods[mn]
        for q, fn in m.funcs.items():
            for lp, itx, muts, safe in _loop_mutations(fn):
                n += 1
                key = "%s.%s:loop over `%s` does not mutate it" % (mn, q, itx)
                if muts and safe:
                    rule.ok(key, m.where(lp, fn), "mutation is followed by break/return")
                elif muts:
                    rule.violation(key, m.where(muts[0], fn),
                                   "`%s` is modified (%s) inside the loop that iterates over it: the iterator skips the element that follows each "
                                   "removed one" % (itx, pf.norm_expr(muts[0])[:50]), "iterate over a copy (list(%s) / a concatenation)" % itx,
                                   pf.norm_expr(muts[0])[:60])
                else:
                    rule.ok(key, m.where(lp, fn))
    return n


def _followed_by_exit(st):
    p = getattr(st, "_parent", None)
    for f in ("body", "orelse"):
        blk = getattr(p, f, None)
        if isinstance(blk, list) and any(x is st for x in blk):
            i = [k for k, x in enumerate(blk) if x is st][0]
            return any(isinstance(x, (ast.Break, ast.Return)) for x in blk[i + 1:i + 2])
    return False


def accumulator_filter_rule(rule, w):
    """`L += [v for v in S if v not in T]` builds a duplicate-free list only if T is L itself."""
    m = w.mods["modeling"]
    n = 0
    for q, fn in m.funcs.items():
        for st in pf.stmts_of(fn):
            if not (isinstance(st, ast.AugAssign) and isinstance(st.op, ast.Add) and isinstance(st.value, ast.ListComp)):
                continue
            comp = st.value
            if len(comp.generators) != 1 or not isinstance(comp.elt, ast.Name):
                continue
            g = comp.generators[0]
            for cond in g.ifs:
                if isinstance(cond, ast.Compare) and len(cond.ops) == 1 and isinstance(cond.ops[0], ast.NotIn) and isinstance(cond.left, ast.Name) \
                        and cond.left.id == comp.elt.id:
                    n += 1
                    L, T = pf.norm_expr(st.target), pf.norm_expr(cond.comparators[0])
                    key = "modeling.%s:%s += [.. if %s not in %s]" % (q, L, comp.elt.id, T)
                    if L == T:
                        rule.ok(key, m.where(st, fn))
                    else:
                        rule.violation(key, m.where(st, fn),
                                       "elements are added to `%s` unless they are in `%s`: an element already in `%s` (from an earlier term) but not in "
                                       "`%s` is listed twice" % (L, T, L, T), "if %s not in %s" % (comp.elt.id, L), T)
    return n


def validate_then_mutate_rule(rule, w):
    """An edit operation of `op` that refuses its argument must do so before it changes the
    bookkeeping: no `raise` may be reachable after a write to self._variables /
    self._inequalities / self._equalities on the same path (a refused edit leaves the op as it was)."""
    m = w.mods["modeling"]
    n = 0
    STATE = ("_variables", "_inequalities", "_equalities")
    for q in ("op.__setattr__", "op.addconstraint", "op.delconstraint"):
        fn = m.funcs.get(q)
        if fn is None:
            continue
        cfg = pf.CFG(fn)
        writes = []
        for st in pf.stmts_of(fn):
            hit = False
            for x in ast.walk(st) if not isinstance(st, (ast.If, ast.For, ast.While, ast.Try)) else []:
                if isinstance(x, (ast.Subscript, ast.Attribute)) and isinstance(getattr(x, "ctx", None), (ast.Store, ast.Del)) and \
                        any(("self.%s" % s_) in pf.norm_expr(x) for s_ in STATE):
                    hit = True
                if isinstance(x, ast.Call) and isinstance(x.func, ast.Attribute) and x.func.attr in ("remove", "append") and \
                        any(("self.%s" % s_) in pf.norm_expr(x.func.value) for s_ in STATE):
                    hit = True
                if isinstance(x, ast.AugAssign) and any(("self.%s" % s_) in pf.norm_expr(x.target) for s_ in STATE):
                    hit = True
            if hit:
                writes.append(st)
        raises = [x for x in pf._scope_nodes(fn) if isinstance(x, ast.Raise)]
        for r in raises:
            n += 1
            key = "modeling.%s:refusal `%s` precedes every bookkeeping write" % (q, pf.norm_expr(r)[:40])
            rn = cfg.node_of(pf.enclosing_stmt(r))
            bad = None
            for wst in writes:
                wn = cfg.node_of(wst)
                if wn is None or rn is None:
                    continue
                if rn in cfg.reachable(start=wn) and wn != rn:
                    bad = wst
                    break
            if bad is not None:
                rule.violation(key, m.where(r, fn),
                               "this refusal can be reached after `%s` has already changed the bookkeeping: a refused edit leaves the op half updated"
                               % pf.norm_expr(bad)[:60], "validate before the first write", pf.norm_expr(bad)[:70])
            else:
                rule.ok(key, m.where(r, fn))
    return n


def minmax_pairing_rule(rule, w):
    """In the max/min classes `_vecmax` belongs to the `_ismax` side and `_vecmin` to the other:
    every call of one of them has a path condition that implies the matching polarity of
    `self._ismax`, and the two reducers `_vecmax` / `_vecmin` are mirror images of each other
    (statement by statement under max<->min, <-> comparison flipped by the swap of the builtin)."""
    m = w.mods["modeling"]
    n = 0
    for q, fn in m.funcs.items():
        if "minmax" not in q:
            continue
        for x in pf._scope_nodes(fn):
            if isinstance(x, ast.Call) and isinstance(x.func, ast.Name) and x.func.id in ("_vecmax", "_vecmin"):
                conds = pf.path_condition(x, cross_loops=True)
                prem = pf.P_and(*conds) if conds else pf.P_TRUE
                want = pf.P_atom("self._ismax") if x.func.id == "_vecmax" else pf.P_not(pf.P_atom("self._ismax"))
                n += 1
                key = "modeling.%s:%s only on the %s side" % (q, x.func.id, "max" if x.func.id == "_vecmax" else "min")
                if pf.implies(prem, want):
                    rule.ok(key, m.where(x, fn))
                else:
                    rule.violation(key, m.where(x, fn),
                                   "%s is applied on a path that does not imply `%sself._ismax`: the constants of a %s are folded with the wrong reducer"
                                   % (x.func.id, "" if x.func.id == "_vecmax" else "not ", "min" if x.func.id == "_vecmax" else "max"),
                                   repr(want), repr(prem)[:100])
    a, b = m.funcs.get("_vecmax"), m.funcs.get("_vecmin")
    if a is not None and b is not None:
        n += 1
        ta = [" ".join(ast.unparse(s).split()) for s in pf.stmts_of(a) if not isinstance(s, (ast.If, ast.For, ast.While, ast.Expr))]
        tb = [swap_dual(" ".join(ast.unparse(s).split())) for s in pf.stmts_of(b) if not isinstance(s, (ast.If, ast.For, ast.While, ast.Expr))]
        key = "modeling._vecmax ~ _vecmin:mirror images"
        if ta == tb:
            rule.ok(key, m.where(a, a), "%d statements" % len(ta))
        else:
            d = [(x_, y_) for x_, y_ in zip(ta, tb) if x_ != y_][:1] or [("length", "%d vs %d" % (len(ta), len(tb)))]
            rule.violation(key, m.where(a, a), "_vecmax and _vecmin are not mirror images of each other: `%s` vs `%s`" % d[0], d[0][1][:100], d[0][0][:100])
    return n


def _retag(p, ver):
    """copy of Prop p with every atom tagged by the versions of the names it mentions"""
    if p.kind == "atom":
        names = sorted(x for x in pf._prop_names(p) if x in ver)
        return pf.P_atom(p.args + "".join("#%s%d" % (x, ver[x]) for x in names))
    if p.kind in ("and", "or", "not"):
        return pf.Prop(p.kind, [_retag(a, ver) for a in p.args])
    return p


def fresh_result_rule(rule, w):
    """An operator that returns a fresh `f = _function()` must give it a term on every path:
    the default function is the zero function of length 1, whatever len(self) is.  Every
    control-flow path from the creation of f to a `return f` that assigns none of
    f._constant / f._linear / f._cvxterms / f._ccvterms must be infeasible (the conjunction of
    its branch conditions - names versioned at every re-binding - is unsatisfiable)."""
    import itertools
    m = w.mods["modeling"]
    n = 0
    for q, fn in m.funcs.items():
        if q.count(".") != 1 or q.split(".")[0] != "_function" or q.split(".")[1] not in BINARY:
            continue
        creates = [a for a in pf.stmts_of(fn) if isinstance(a, ast.Assign) and len(a.targets) == 1 and isinstance(a.targets[0], ast.Name)
                   and isinstance(a.value, ast.Call) and pf.norm_expr(a.value.func) == "_function" and not a.value.args]
        if len(creates) != 1:
            continue
        v = creates[0].targets[0].id
        cfg = pf.CFG(fn)
        start = cfg.node_of(creates[0])
        if start is None:
            continue

        def sets_term(st):
            return isinstance(st, (ast.Assign, ast.AugAssign)) and any(
                isinstance(t_, ast.Attribute) and isinstance(t_.value, ast.Name) and t_.value.id == v
                for t_ in (st.targets if isinstance(st, ast.Assign) else [st.target]))
        bad, npaths, too_many = None, 0, False
        stack = [(start, [], {}, frozenset([start]))]
        while stack and bad is None:
            u, conds, ver, seen = stack.pop()
            st = cfg.node_stmt.get(u)
            if cfg.kind.get(u) == "stmt" and sets_term(st):
                continue                              # this path gives f a term
            if cfg.kind.get(u) == "stmt" and isinstance(st, ast.Return):
                if isinstance(st.value, ast.Name) and st.value.id == v:
                    npaths += 1
                    p = pf.P_and(*conds) if conds else pf.P_TRUE
                    atoms = sorted(p.atoms())
                    if len(atoms) > 18:
                        too_many = True
                        continue
                    if any(p.ev(dict(zip(atoms, vals))) for vals in itertools.product((False, True), repeat=len(atoms))):
                        bad = (st, p)
                continue
            if cfg.kind.get(u) == "stmt" and isinstance(st, ast.Assign):
                ver = dict(ver)
                for x in pf.stores_in([st]):
                    ver[x] = ver.get(x, 0) + 1
            for s_ in cfg.succ[u]:
                if s_ in seen or s_ in (1, 2):
                    continue
                lab = cfg.edge_label.get((u, s_))
                c2 = conds
                if cfg.kind.get(u) == "test" and isinstance(st, ast.If) and lab in ("true", "false"):
                    pr = _retag(pf.prop_of(st.test), ver)
                    c2 = conds + [pr if lab == "true" else pf.P_not(pr)]
                if lab == "exc":
                    continue
                if len(stack) > 20000:
                    too_many = True
                    break
                stack.append((s_, c2, ver, seen | {s_}))
        n += 1
        key = "modeling.%s:every path that returns the fresh `%s` gives it a term" % (q, v)
        if bad is not None:
            rule.violation(key, m.where(bad[0], fn),
                           "`%s` can be returned as it was created - the zero function of length 1 - under %s: for a vector operand the result has "
                           "the wrong length (mismatched lengths are then accepted elsewhere)" % (v, repr(bad[1])[:140]),
                           "an assignment to %s._constant (e.g. matrix(0.0, (len(self),1))) on that path" % v, repr(bad[1])[:140])
        elif too_many:
            rule.undecided(key, m.where(fn, fn), "too many paths / atoms")
        else:
            rule.ok(key, m.where(fn, fn), "%d returning paths without a term, all infeasible" % npaths)
    return n


def shape_dispatch_order_rule(rule, w):
    """A coefficient is stored as a full (len(f) x len(v)) matrix, a 1 x len(v) row that is
    repeated in every row, or a scalar that stands for a multiple of the identity.  For a variable
    of length 1 a 1x1 coefficient satisfies the row test and the scalar test; its meaning is the
    row one (value() broadcasts it to every row).  In every if/elif chain that dispatches on the
    shape, the `(1, len(v))` arm therefore comes before the `_isscalar(..)` arm."""
    m = w.mods["modeling"]
    n = 0
    for q, fn in m.funcs.items():
        for st in pf._scope_nodes(fn):
            if not isinstance(st, ast.If):
                continue
            par = getattr(st, "_parent", None)
            if isinstance(par, ast.If) and len(par.orelse) == 1 and par.orelse[0] is st:
                continue                      # not the head of its chain
            kinds = []
            node = st
            while node is not None:
                tt = " ".join(ast.unparse(node.test).split())
                if re.search(r"\.size == \(1, len\(\w+\)\)", tt):
                    kinds.append("row")
                elif re.search(r"_isscalar\(", tt):
                    kinds.append("scalar")
                elif re.search(r"\.size == \(.*len\(\w+\)\)", tt):
                    kinds.append("full")
                else:
                    kinds.append("other")
                node = node.orelse[0] if len(node.orelse) == 1 and isinstance(node.orelse[0], ast.If) else None
            if "row" in kinds and "scalar" in kinds:
                n += 1
                key = "modeling.%s:shape dispatch at line +%d tests the row shape before the scalar shape" % (q, st.lineno - fn.lineno)
                if kinds.index("row") < kinds.index("scalar"):
                    rule.ok(key, m.where(st, fn), " -> ".join(kinds))
                else:
                    rule.violation(key, m.where(st, fn),
                                   "the scalar arm precedes the (1, len(v)) arm: for a variable of length 1 in a constraint of length > 1 the 1x1 coefficient "
                                   "is taken for a multiple of the identity (one entry) instead of a row repeated in every row", "full -> row -> scalar",
                                   " -> ".join(kinds))
    return n
