"""Entry point: python -m sa.main <ID> [--tier ...] [--repo ...] [--replay f]"""
import importlib
import sys

from .core import run_main


def main(argv):
    if not argv:
        print("usage: check <ID> [--tier quick|thorough] [--repo DIR] [--replay FILE]")
        return 2
    pid = argv[0]
    try:
        mod = importlib.import_module("sa.props." + pid)
    except ImportError as e:
        print("ANALYSIS-ERROR property=%s no checker module: %s" % (pid, e))
        return 2
    return run_main(pid, mod.build, argv[1:])


if __name__ == "__main__":
    sys.exit(main(sys.argv[1:]))
