"""Bounded semantic comparison of sibling C kernels (real / complex versions written as
separate functions): both are evaluated *at iteration points* - every loop's induction
variable is a free variable of the environment, the loop condition becomes part of the
guard, the body is executed once - over a fixed pseudo-random sample of small environments
(scalar parameters, flag characters, loop offsets, contents of integer index arrays), and the
sets of array accesses (array, index, read/write) they perform are compared.  Insensitive to
local clean-ups (hoisted sub-expressions, cached loads, merged or inverted conditions,
renamed induction variables); sensitive to a changed index, bound, condition or offset.
Nothing of the repository is executed: this is an interpreter over the parsed source."""
import random
import re

from . import cexpr as cx
from . import cfront as cf
from . import cmodel as cm


class _Signal(Exception):
    def __init__(self, kind):
        self.kind = kind


class Unsupported(Exception):
    pass


def _mix(*parts):
    h = 1469598103934665603
    for p in parts:
        for ch in repr(p):
            h = ((h ^ ord(ch)) * 1099511628211) & 0xFFFFFFFFFFFFFFFF
    return h


class KernelEval:
    def __init__(self, c, fn):
        self.c, self.fn = c, fn
        self.node = c.funcs[fn]
        self.sim = cm.Simulator(c, fn)
        self.params = [(x.get("n"), x.get("t") or "") for x in self.node.get("c", []) if x.get("k") == "ParmVarDecl"]

    # -- environment ---------------------------------------------------------------------
    def run(self, env):
        self.env = dict(env)
        self.vars = {}
        self.alias = {}
        self.acc = set()
        self.depth = 0
        for nm, ty in self.params:
            if "*" in ty:
                self.alias[nm] = nm
            elif nm in env:
                self.vars[nm] = env[nm]
        body = cf.body_of(self.node)
        try:
            self._stmt(body)
        except _Signal:
            pass
        return frozenset(self.acc)

    # -- statements ----------------------------------------------------------------------
    def _stmt(self, st):
        k = st.get("k")
        if k == "CompoundStmt":
            for ch in st.get("c", []):
                self._stmt(ch)
        elif k == "DeclStmt":
            for vd in st.get("c", []):
                if vd.get("k") != "VarDecl" or vd.get("lo") is None:
                    continue
                txt = self.c.stmt_text_until_semicolon(vd["lo"])
                part = cf.split_top(txt)[0] if txt else ""
                if "=" not in part:
                    continue
                name, rhs = part.split("=", 1)
                name = name.strip().split()[-1].lstrip("*") if name.strip() else vd.get("n")
                try:
                    e = cx.parse(rhs)
                except cx.ParseError:
                    continue
                self._bind(vd.get("n") or name, e, vd.get("t") or "")
        elif k == "IfStmt":
            ce = self.sim.cond_of(st)
            if ce is None:
                raise Unsupported("condition not parsed")
            kids = st.get("c", [])
            if self._ev(ce):
                if len(kids) > 1:
                    self._stmt(kids[1])
            elif len(kids) > 2:
                self._stmt(kids[2])
        elif k in ("ForStmt", "WhileStmt"):
            self._loop(st)
        elif k in ("ContinueStmt", "BreakStmt"):
            if k == "BreakStmt":
                # a break ends the *later* iterations of the loop too, which a per-point comparison of accesses cannot see:
                # it is recorded as an effect of this iteration point
                self.acc.add(("break", self.depth))
            raise _Signal("loop")
        elif k == "ReturnStmt":
            raise _Signal("return")
        elif k in ("BinaryOperator", "CompoundAssignOperator", "UnaryOperator", "CallExpr", "ParenExpr", "ConditionalOperator"):
            e = self.sim.stmt_expr(st)
            if e is None:
                raise Unsupported("statement not parsed at line %d" % self.c.line_of(st.get("b") or 0))
            self._ev(e)
        elif k in ("NullStmt",):
            pass
        elif k and k.endswith("Stmt"):
            for ch in st.get("c", []):
                if ch.get("k", "").endswith("Stmt") or ch.get("k") in ("BinaryOperator", "CallExpr"):
                    self._stmt(ch)

    def _loop(self, st):
        body = st["c"][-1]
        if st.get("k") == "WhileStmt":
            ce = self.sim.cond_of(st)
            if ce is not None and self._ev(ce):
                self._body_once(body)
            return
        span = self.c.paren_after(st["b"])
        if not span:
            raise Unsupported("for header")
        hdr = cx.strip_pp(self.c.text(span[0] + 1, span[1]))
        parts = hdr.split(";")
        if len(parts) != 3:
            raise Unsupported("for header form")
        self.depth += 1
        try:
            first = None
            if parts[0].strip():
                init = cx.parse(parts[0])
                inits = init[1] if init[0] == "comma" else [init]
                for a in inits:
                    if a[0] == "assign" and a[1] == "=" and a[2][0] == "id":
                        self.vars[a[2][1]] = self._ev(a[3])
                        if first is None:
                            first = a[2][1]
            if first is not None:
                self.vars[first] = self.vars[first] + self.env.get(("loop", self.depth), 0)
            if parts[1].strip() and not self._ev(cx.parse(parts[1])):
                return
            self._body_once(body)
        finally:
            self.depth -= 1

    def _body_once(self, body):
        try:
            self._stmt(body)
        except _Signal as s:
            if s.kind != "loop":
                raise

    # -- expressions -----------------------------------------------------------------------
    def _bind(self, name, e, ty):
        e0 = cx.strip_casts(e)
        if "*" in ty:
            # pointer local: alias of an array expression
            self.alias[name] = self._array_name(e0)
            return
        self.vars[name] = self._ev(e)

    def _array_name(self, e):
        e = cx.strip_casts(e)
        if e[0] == "id":
            return self.alias.get(e[1], e[1])
        if e[0] == "mem":
            return re.sub(r"\b(DOUBLE|COMPLEX)\b", "ID", "%s->%s" % (self._array_name(e[1]), e[3]))
        if e[0] == "bin" and e[1] == "+":
            # pointer plus offset: fold the offset into the name (rare in these kernels)
            return "%s+%s" % (self._array_name(e[2]), self._ev(e[3]))
        if e[0] == "call" and e[1] in ("MAT_BUF", "MAT_BUFD", "MAT_BUFZ", "MAT_BUFI", "SP_VAL", "SP_VALD", "SP_VALZ", "SP_ROW", "SP_COL") and e[2]:
            return "%s(%s)" % (re.sub(r"[DZ]$", "", e[1]), self._array_name(e[2][0]))
        return cx.unparse(e)

    def _opaque(self, name, idx=None):
        key = (name, idx)
        if key in self.env:
            return self.env[key]
        return _mix(name, idx, self.env.get("seed", 0)) % 4

    def _ev(self, e):
        k = e[0]
        if k == "num":
            return e[1] if isinstance(e[1], int) else 1
        if k == "chr":
            return ord(e[1][0]) if e[1] else 0
        if k == "str":
            return 1
        if k == "id":
            if e[1] in self.vars:
                return self.vars[e[1]]
            if e[1] in self.env:
                return self.env[e[1]]
            if e[1] in ("NULL",):
                return 0
            return self._opaque(e[1])
        if k == "cast":
            return self._ev(e[2])
        if k == "un":
            if e[1] == "&":
                return 1
            v = self._ev(e[2])
            if e[1] == "-":
                return -v
            if e[1] == "!":
                return int(not v)
            if e[1] == "~":
                return ~v
            if e[1] in ("++", "--"):
                return self._incdec(e[2], 1 if e[1] == "++" else -1)
            if e[1] == "*":
                return 1
            return v
        if k == "post":
            old = self._ev(e[2])
            self._incdec(e[2], 1 if e[1] == "++" else -1)
            return old
        if k == "tern":
            return self._ev(e[2]) if self._ev(e[1]) else self._ev(e[3])
        if k == "bin":
            op = e[1]
            if op == "&&":
                return int(bool(self._ev(e[2])) and bool(self._ev(e[3])))
            if op == "||":
                return int(bool(self._ev(e[2])) or bool(self._ev(e[3])))
            a, b = self._ev(e[2]), self._ev(e[3])
            if op == "+":
                return a + b
            if op == "-":
                return a - b
            if op == "*":
                return a * b
            if op in ("/", "%"):
                if b == 0:
                    raise ZeroDivisionError
                q = abs(a) // abs(b)
                q = q if (a >= 0) == (b >= 0) else -q
                return q if op == "/" else a - b * q
            if op in ("<", ">", "<=", ">=", "==", "!="):
                return int({"<": a < b, ">": a > b, "<=": a <= b, ">=": a >= b, "==": a == b, "!=": a != b}[op])
            return 1
        if k == "idx":
            name = self._array_name(e[1])
            i = self._ev(e[2])
            self.acc.add((name, i, "r"))
            if re.search(r"rowind|colptr|SP_ROW|SP_COL|\bidx\b|ilist|key", name):
                return self._opaque(name, i)
            return 1
        if k == "mem":
            return self._opaque(self._array_name(e))
        if k == "assign":
            rhs = self._ev(e[3])
            tgt = cx.strip_casts(e[2])
            if tgt[0] == "idx":
                name = self._array_name(tgt[1])
                i = self._ev(tgt[2])
                self.acc.add((name, i, "w"))
                if e[1] != "=":
                    self.acc.add((name, i, "r"))
                return rhs
            if tgt[0] == "id":
                if e[1] == "=":
                    self.vars[tgt[1]] = rhs
                else:
                    cur = self._ev(tgt)
                    op = e[1][:-1]
                    self.vars[tgt[1]] = self._ev(("bin", op, ("num", cur), ("num", rhs))) if op in "+-*/%" else rhs
                return self.vars[tgt[1]]
            return rhs
        if k == "call":
            if e[1] in ("MAX", "MIN") and len(e[2]) == 2:
                a, b = self._ev(e[2][0]), self._ev(e[2][1])
                return max(a, b) if e[1] == "MAX" else min(a, b)
            if e[1] == "abs" and len(e[2]) == 1:
                return abs(self._ev(e[2][0]))
            for a in e[2]:
                self._ev(a)
            return 1
        if k == "callx":
            for a in e[2]:
                self._ev(a)
            return 1
        if k == "comma":
            v = 1
            for a in e[1]:
                v = self._ev(a)
            return v
        return 1

    def _incdec(self, tgt, d):
        tgt = cx.strip_casts(tgt)
        if tgt[0] == "id":
            self.vars[tgt[1]] = self._ev(tgt) + d
            return self.vars[tgt[1]]
        if tgt[0] == "idx":
            name = self._array_name(tgt[1])
            i = self._ev(tgt[2])
            self.acc.add((name, i, "w"))
            self.acc.add((name, i, "r"))
        return 1


def sample_envs(c, fns, count=1500, seed=20260923):
    """a fixed pseudo-random sample of small environments for the scalar parameters of fns"""
    rng = random.Random(seed)
    params = {}
    flagvals = {}
    for fn in fns:
        node = c.funcs[fn]
        txt = cx.strip_pp(c.text(node["b"], node["e"]))
        for x in node.get("c", []):
            if x.get("k") == "ParmVarDecl" and "*" not in (x.get("t") or ""):
                params[x.get("n")] = x.get("t") or ""
        for m in re.finditer(r"\b(\w+)\s*[!=]=\s*'(\w)'", txt):
            flagvals.setdefault(m.group(1), set()).add(m.group(2))
    envs = []
    for _ in range(count):
        env = {"seed": rng.randrange(4)}
        for nm, ty in params.items():
            if nm in flagvals:
                vals = sorted(flagvals[nm] | {"N", "T", "C", "L", "U"} & (flagvals[nm] | {"C"}))
                env[nm] = ord(rng.choice(sorted(flagvals[nm] | ({"C"} if flagvals[nm] & {"N", "T"} else set()))))
            elif re.match(r"i[a-zA-Z]$|inc", nm):
                env[nm] = rng.choice((-2, -1, 1, 2))
            elif ty in ("number",):
                env[nm] = 1
            else:
                env[nm] = rng.randrange(0, 4)
        for d in (1, 2, 3, 4):
            env[("loop", d)] = rng.randrange(0, 3)
        envs.append(env)
    return envs


def compare(c, f1, f2, count=1500):
    """-> (n_envs_compared, witness or None)"""
    k1, k2 = KernelEval(c, f1), KernelEval(c, f2)
    n = 0
    for env in sample_envs(c, [f1, f2], count):
        try:
            a = k1.run(env)
            b = k2.run(env)
        except ZeroDivisionError:
            continue
        n += 1
        if a != b:
            show = {k: (chr(v) if isinstance(v, int) and k in ("tA", "tB", "uplo", "trans") and 32 < v < 127 else v)
                    for k, v in env.items() if not isinstance(k, tuple) or k[0] == "loop"}
            return n, (show, sorted(a - b)[:3], sorted(b - a)[:3])
    return n, None
