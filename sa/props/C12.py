"""C12 - op.solve() solves the piecewise-linear problem that was written down
(structural part of the LP assembly and back-substitution)."""
import ast
import re

from .. import modeling_rules as mr
from .. import pyfront as pf
from .. import rules_common as rc
from ..core import Check, AnalysisError
from ..world import World


def _rename(txt, mp):
    def sw(m):
        return mp.get(m.group(0), m.group(0))
    return re.sub(r"\b\w+\b", sw, txt)


def build(tier, repo):
    chk = Check(
        "C12", tier, repo,
        explanation=(
            "Static analysis of constraint._aslinearineq, op._inmatrixform and op.solve. That the assembled "
            "LP is equivalent to the PWL problem and that the multipliers are dual optimal are NOT decided. "
            "Decided: (R1) the variable/inequality/equality slices are exact partitions: each running "
            "offset advances by exactly the slice it hands out, and c/G/h/A/b are allocated with those "
            "totals; (R2) the G-block and A-block assembly loops are the same code up to the renaming "
            "G,islc,m,h <-> A,eslc,p,b, and every linear (column-major) index into G or A uses the row "
            "count the matrix was allocated with; (R3) vmap has an entry for every original variable and "
            "mmap for every linear inequality, every PWL inequality (summing over all its pieces) and "
            "every equality; (R4) solve copies status, x, z, y from the solver result and back-substitutes "
            "through vmap/mmap whenever _inmatrixform returned maps; (R5) each recursive _aslinearineq "
            "result (constraint, auxiliary constraints, new variables) is fully consumed; (R6) "
            "convex/concave mirror symmetry of sum/max/min (broadcast scaling in sum)."),
        trusted_base=["CPython ast", "sa/offsets.py", "sa/pyfront.py"],
        assumptions=["solvers.lp solves the LP it is given (C01)", "expression operators compute their formula (C11)"])
    w = World(repo, need_c=False)
    m = w.mods["modeling"]
    imf = w.func("modeling", "op._inmatrixform")
    solve = w.func("modeling", "op.solve")

    r1 = chk.rule("C12-R1", "vslc/islc/eslc are exact partitions; c, G, h, A, b allocated with the same totals",
                  "every variable and constraint occupies its own block of the LP")
    rc.offsets_rule(r1, w, [("modeling", "op._inmatrixform")])
    txt = " ".join(ast.unparse(imf).split())
    for alloc, what in ((r"c = matrix\(0\.0, \(1, n\)\)", "c is 1 x n"), (r"G = matrix\(0\.0, \(m, n\)\)", "dense G is m x n"),
                        (r"G = spmatrix\(0\.0, \[\], \[\], \(m, n\)\)", "sparse G is m x n"), (r"h = matrix\(0\.0, \(m, 1\)\)", "h is m x 1"),
                        (r"A = matrix\(0\.0, \(p, n\)\)", "dense A is p x n"), (r"A = spmatrix\(0\.0, \[\], \[\], \(p, n\)\)", "sparse A is p x n"),
                        (r"b = matrix\(0\.0, \(p, 1\)\)", "b is p x 1")):
        if re.search(alloc, txt):
            r1.ok("_inmatrixform:" + what, m.where(imf, imf))
        else:
            r1.violation("_inmatrixform:" + what, m.where(imf, imf), "allocation does not use the partition totals", what, "not found")

    r2 = chk.rule("C12-R2", "G-block and A-block assembly are the same code up to renaming; linear indices use the allocated row count",
                  "coefficients land in the rows/columns of their own constraint and variable")
    loops = [s for s in imf.body if isinstance(s, ast.For)]

    def _stores_into(loop, name):
        return any(isinstance(x, ast.Subscript) and isinstance(x.ctx, ast.Store) and isinstance(x.value, ast.Name) and x.value.id == name
                   for x in ast.walk(loop))
    gl = [s for s in loops if _stores_into(s, "G") and _stores_into(s, "h")]
    al = [s for s in loops if _stores_into(s, "A") and _stores_into(s, "b")]
    if len(gl) != 1 or len(al) != 1:
        raise AnalysisError("_inmatrixform: G/A assembly loops not found (%d, %d)" % (len(gl), len(al)))
    gt = " ".join(ast.unparse(gl[0]).split())
    at = " ".join(ast.unparse(al[0]).split())
    mp = {"G": "A", "islc": "eslc", "m": "p", "h": "b", "i": "e", "equalities": "islc"}
    # alpha-equivalence: the two loops unify under a consistent renaming of names that extends the
    # role mapping G->A, h->b, m->p (locals may be called anything); the iterables may differ
    amap = {"G": "A", "h": "b", "m": "p", "islc": "eslc"}
    iso = _alpha_equal(gl[0].body, al[0].body, amap, {v: k for k, v in amap.items()}) and _alpha_equal(gl[0].target, al[0].target, amap, {v: k for k, v in amap.items()})
    if iso:
        r2.ok("_inmatrixform:G-loop ~ A-loop", m.where(gl[0], imf), "identical up to a renaming extending G,h,m,islc -> A,b,p,eslc")
    else:
        # find the first differing statement
        gs = [" ".join(ast.unparse(x).split()) for x in ast.walk(gl[0]) if isinstance(x, ast.Assign)]
        as_ = [" ".join(ast.unparse(x).split()) for x in ast.walk(al[0]) if isinstance(x, ast.Assign)]
        diff = [(a, _rename(g, mp)) for g, a in zip(gs, as_) if _rename(g, mp) != a]
        r2.violation("_inmatrixform:G-loop ~ A-loop", m.where(al[0], imf),
                     "the equality block is not assembled like the inequality block: `%s` where the inequality code gives `%s`"
                     % (diff[0][0][:100] if diff else "?", diff[0][1][:100] if diff else "?"),
                     diff[0][1][:120] if diff else "isomorphic loops", diff[0][0][:120] if diff else "different structure")
    rows = {"G": "m", "A": "p"}
    for n in ast.walk(imf):
        if isinstance(n, ast.Subscript) and isinstance(n.ctx, ast.Store) and isinstance(n.value, ast.Name) and n.value.id in rows \
                and isinstance(n.slice, ast.Slice) and n.slice.step is not None:
            R = rows[n.value.id]
            st = pf.norm_expr(n.slice.step)
            mult = set()
            for part in (n.slice.lower, n.slice.upper):
                for b in ast.walk(part):
                    if isinstance(b, ast.BinOp) and isinstance(b.op, ast.Mult):
                        for side in (b.left, b.right):
                            if isinstance(side, ast.Name):
                                mult.add(side.id)
            key = "_inmatrixform:%s[..] linear index" % n.value.id
            if st in ("(%s + 1)" % R, "(1 + %s)" % R) and mult == {R}:
                r2.ok(key, m.where(n, imf), "column multiplier and diagonal step use %s" % R)
            else:
                r2.violation(key, m.where(n, imf),
                             "%s is allocated with %s rows but the linear index uses multiplier(s) %s and step %s: the "
                             "coefficient lands in other entries" % (n.value.id, R, sorted(mult), st),
                             "%s * column + row, step %s + 1" % (R, R), "%s, step %s" % (sorted(mult), st))

    r3 = chk.rule("C12-R3", "vmap/mmap complete: every original variable, linear inequality, PWL inequality (all pieces) and equality",
                  "values and multipliers are set for every variable and constraint of the original problem")
    want = [("vmap", "variables"), ("mmap", "lin_ineqs"), ("mmap", "pwl_ineqs"), ("mmap", "equalities")]

    def loop_over(s, coll):
        """(key variable text, value variable or None) if `s` iterates over coll / coll.keys() / coll.items()"""
        it = s.iter
        if isinstance(it, ast.Call) and isinstance(it.func, ast.Name) and it.func.id == "iter" and len(it.args) == 1:
            it = it.args[0]
        if pf.norm_expr(it) == coll or (isinstance(it, ast.Call) and isinstance(it.func, ast.Attribute) and it.func.attr == "keys"
                                        and pf.norm_expr(it.func.value) == coll):
            return pf.norm_expr(s.target), None
        if isinstance(it, ast.Call) and isinstance(it.func, ast.Attribute) and it.func.attr == "items" and pf.norm_expr(it.func.value) == coll \
                and isinstance(s.target, ast.Tuple) and len(s.target.elts) == 2:
            return pf.norm_expr(s.target.elts[0]), pf.norm_expr(s.target.elts[1])
        return None
    for mp_, coll in want:
        found = None
        for s in imf.body:
            lo = loop_over(s, coll) if isinstance(s, ast.For) else None
            if lo and any(isinstance(a, ast.Assign) and isinstance(a.targets[0], ast.Subscript) and pf.norm_expr(a.targets[0].value) == mp_
                          and pf.norm_expr(a.targets[0].slice) == lo[0] for a in ast.walk(s)):
                found = s
        key = "_inmatrixform:%s[x] for x in %s" % (mp_, coll)
        if found is not None:
            r3.ok(key, m.where(found, imf))
        else:
            r3.violation(key, m.where(imf, imf), "no loop assigns %s for every element of %s" % (mp_, coll), "for x in %s: %s[x] = ..." % (coll, mp_), "absent")
    pl = [(s, loop_over(s, "pwl_ineqs")) for s in imf.body if isinstance(s, ast.For) and loop_over(s, "pwl_ineqs") and "mmap" in ast.unparse(s)]
    inner_ok = False
    if pl:
        s0, (kv, vv) = pl[0]
        inner_ok = any(isinstance(x, ast.For) and x is not s0 and (pf.norm_expr(x.iter) == "pwl_ineqs[%s]" % kv or (vv is not None and pf.norm_expr(x.iter) == vv))
                       for x in ast.walk(s0))
    if inner_ok:
        r3.ok("_inmatrixform:PWL multiplier sums over all pieces", m.where(pl[0][0], imf))
    else:
        r3.violation("_inmatrixform:PWL multiplier sums over all pieces", m.where(imf, imf), "the multiplier of a PWL inequality does not sum over pwl_ineqs[i]", "inner loop over pwl_ineqs[i]", "absent")

    r4 = chk.rule("C12-R4", "solve copies status/x/z/y and back-substitutes through vmap/mmap", "op.solve sets status, values and multipliers as documented")
    assigns = rc.alias_resolved_assigns(solve)
    for tgt, val in (("self.status", "sol['status']"), ("x.value", "sol['x']"), ("inequalities[0].multiplier.value", "sol['z']"),
                     ("equalities[0].multiplier.value", "sol['y']")):
        if assigns.get(assigns["__resolve__"](tgt)) == val:
            r4.ok("solve:%s = %s" % (tgt, val), m.where(solve, solve))
        else:
            r4.violation("solve:%s = %s" % (tgt, val), m.where(solve, solve), "op.solve does not copy %s" % val, val, assigns.get(tgt))
    back = [s for s in solve.body if isinstance(s, ast.If) and "tuple" in pf.norm_expr(s.test)]
    ok_back = False
    if back:
        def _maps_back(mapname, attr_chain):
            """a loop `for a, b in [iter(]<mapname>.items()[)]` whose body stores b.value() into a.<attr_chain>"""
            for lp in [x for x in ast.walk(back[0]) if isinstance(x, ast.For)]:
                it = lp.iter
                if isinstance(it, ast.Call) and pf.call_name(it) == "iter" and it.args:
                    it = it.args[0]
                if not (isinstance(it, ast.Call) and pf.call_name(it) == "%s.items" % mapname and isinstance(lp.target, ast.Tuple)
                        and len(lp.target.elts) == 2 and all(isinstance(e_, ast.Name) for e_ in lp.target.elts)):
                    continue
                a_, b_ = lp.target.elts[0].id, lp.target.elts[1].id
                for st_ in ast.walk(lp):
                    if isinstance(st_, ast.Assign) and pf.norm_expr(st_.targets[0]) == "%s.%s" % (a_, attr_chain) \
                            and pf.norm_expr(st_.value) == "%s.value()" % b_:
                        return True
            return False
        ok_back = _maps_back("vmap", "value") and _maps_back("mmap", "multiplier.value")
    if ok_back:
        r4.ok("solve:back-substitution through vmap and mmap", m.where(back[0], solve))
    else:
        r4.violation("solve:back-substitution through vmap and mmap", m.where(solve, solve), "values/multipliers of the original problem are not recovered from the LP",
                     "v.value = f.value() for vmap; c.multiplier.value = f.value() for mmap", "absent")

    # results are written back whatever the solver returned (None propagates for infeasible / unbounded problems)
    for a_ in [x for x in ast.walk(solve) if isinstance(x, ast.Assign) and isinstance(x.targets[0], ast.Attribute)
               and x.targets[0].attr in ("value", "status")]:
        conds = pf.path_condition(a_, cross_loops=True)
        dep = [repr(c_) for c_ in conds if "sol[" in repr(c_)]
        key = "solve:%s written whatever the solver returned" % pf.norm_expr(a_.targets[0])
        if dep:
            r4.violation(key, m.where(a_, solve),
                         "`%s` is only set when %s: for an infeasible or unbounded problem the values / multipliers of an earlier solve stay in place "
                         "instead of becoming None" % (pf.norm_expr(a_), dep[0]), "unconditional write-back", dep)
        else:
            r4.ok(key, m.where(a_, solve))

    r5 = chk.rule("C12-R5", "every recursive _aslinearineq result is fully consumed", "no auxiliary constraint or variable of the epigraph expansion is lost")
    for q in ("constraint._aslinearineq", "op._inmatrixform"):
        fn = w.func("modeling", q)
        for s in ast.walk(fn):
            if isinstance(s, ast.Assign) and isinstance(s.value, ast.Call) and pf.call_name(s.value) and pf.call_name(s.value).endswith("._aslinearineq") \
                    and isinstance(s.targets[0], ast.Tuple) and len(s.targets[0].elts) == 3:
                names = [pf.norm_expr(x) for x in s.targets[0].elts]
                blk = None
                par = s._parent
                for f_ in ("body", "orelse"):
                    b = getattr(par, f_, None)
                    if isinstance(b, list) and any(x is s for x in b):
                        blk = b
                idx = [i for i, x in enumerate(blk) if x is s][0] if blk else None
                after = " ".join(ast.unparse(x) for x in blk[idx + 1: idx + 5]) if blk else ""
                key = "%s:%s consumed @%s" % (q, ", ".join(names), pf.norm_expr(s.value)[:30])
                missing = [nm for nm in names[1:] if not re.search(r"\+= .*\b%s\b" % re.escape(nm), after)]
                used0 = re.search(r"\b%s\b" % re.escape(names[0]), after) or "[" in names[0]
                if missing or not used0:
                    r5.violation(key, m.where(s, fn), "the triple returned by _aslinearineq is not fully used: %s dropped" % (missing or names[0]),
                                 "all three parts appended", missing or names[0])
                else:
                    r5.ok(key, m.where(s, fn))

    r6 = chk.rule("C12-R6", "convex/concave mirror symmetry (sum/max/min and the expression methods used to build PWL problems)",
                  "the LP formed is the one for the problem written (broadcast terms scaled in sum)")
    mr.duality_rule(r6, w)
    # ---- round 5: the "already in matrix form" shortcut ------------------------------------
    r7 = chk.rule("C12-R7", "_inmatrixform returns None (solve() then uses inequalities[0] / equalities[0] as G, h, A, b) only for one variable, "
                  "at most one affine inequality and one equality, no PWL term, and coefficients / constants of full size",
                  "op.solve() solves the problem that was written down (no constraint dropped, no scalar coefficient handed to solvers.lp)")
    imf = w.func("modeling", "op._inmatrixform")
    rets = [x for x in pf._scope_nodes(imf) if isinstance(x, ast.Return) and (x.value is None or (isinstance(x.value, ast.Constant) and x.value.value is None))]
    for rt in rets:
        conds = pf.path_condition(rt, cross_loops=True)
        prem = pf.P_and(*conds) if conds else pf.P_TRUE
        goal_src = "len(variables) == 1 and not pwl_ineqs and len(lin_ineqs) <= 1 and len(equalities) <= 1 and objective._isaffine()"
        goal = pf.prop_of(ast.parse(goal_src, mode="eval").body)
        key = "_inmatrixform:return None only for a problem solve() can read off"
        res = pf.implies(prem, goal)
        if res:
            r7.ok(key, m.where(rt, imf), goal_src)
        else:
            r7.violation(key, m.where(rt, imf),
                         "the shortcut is taken on a path that does not imply `%s` (path condition %s): solve() reads only the first inequality and the "
                         "first equality of the problem, further constraints are silently dropped" % (goal_src, repr(prem)[:120]), goal_src, repr(prem)[:140])
        # full sizes: the block of the shortcut compares the size of every coefficient it binds from ._linear._coeff, and the constants' lengths
        blk = rt
        while blk is not None and not (isinstance(blk, ast.If) and "len(variables)" in ast.unparse(blk.test)):
            blk = getattr(blk, "_parent", None)
        if blk is None:
            r7.undecided("_inmatrixform:shortcut block", m.where(rt, imf), "enclosing test not found")
            continue
        txt = ast.unparse(blk)
        coeffs = re.findall(r"\b(\w+) = (\w+(?:\[0\])?)\._f\._linear\._coeff(?:\.get\(v\)|\[v\])", txt) + \
            re.findall(r"\b(\w+) = (objective)\._linear\._coeff(?:\.get\(v\)|\[v\])", txt)
        for var, src in coeffs:
            key = "_inmatrixform:shortcut tests the size of %s (coefficient of %s)" % (var, src)
            if re.search(r"\b%s\.size (?:!=|==) \((?:len\([^()]*(?:\([^()]*\))?[^()]*\)|1), len\(v\)\)" % re.escape(var), txt):
                r7.ok(key, m.where(blk, imf))
            else:
                r7.violation(key, m.where(blk, imf),
                             "`%s` is handed to solvers.lp as it is stored: a scalar coefficient (x >= 1) is a 1x1 matrix, a broadcast row 1xn - "
                             "solvers.lp rejects it ('G must be a matrix with n columns')" % var, "%s.size == (len(constraint), len(v))" % var, "no size test")
        for src in sorted({s_ for _, s_ in coeffs if s_ != "objective"}):
            key = "_inmatrixform:shortcut tests the length of the constant of %s" % src
            if re.search(r"len\(%s\._f\._constant\) (?:!=|==) len\(%s\)" % (re.escape(src), re.escape(src)), txt):
                r7.ok(key, m.where(blk, imf))
            else:
                r7.violation(key, m.where(blk, imf), "a scalar right-hand side (A*x <= 1) is stored as 1x1 and handed to solvers.lp as h", "len(constant) == len(constraint)", "no test")
    r7.require(4)
    from .. import solver_rules as sr5
    r8 = chk.rule("C12-R8", "loops of the epigraph expansion run over the length of the sequence they subscript",
                  "every piece of a max / sum-of-max term becomes a constraint of the LP")
    chk.note_analysed("piece_loops", sr5.loop_bound_domain_rule(r8, w))
    r8.require(4)
    from .. import w7_rules as w7
    r9 = chk.rule("C12-R9", "a multiplier is averaged over the operand the enclosing test found long, never over the one it fixed at length 1",
                  "multipliers returned for the original constraints are those of the equivalent LP")
    chk.note_analysed("length_divisions", w7.unit_length_scaling_rule(r9, w.mods["modeling"].tree, "modeling.py", None))
    return chk


def _alpha_equal(a, b, fwd, bwd):
    """structural equality of two ast fragments under a consistent bijective renaming of Names
    (fwd: left -> right, bwd: right -> left; both extended as names are met)"""
    if isinstance(a, list) and isinstance(b, list):
        return len(a) == len(b) and all(_alpha_equal(x, y, fwd, bwd) for x, y in zip(a, b))
    if type(a) is not type(b):
        return False
    if isinstance(a, ast.Name):
        if a.id in fwd or b.id in bwd:
            return fwd.get(a.id) == b.id and bwd.get(b.id) == a.id
        fwd[a.id] = b.id
        bwd[b.id] = a.id
        return True
    if isinstance(a, ast.AST):
        for f in a._fields:
            if f in ("ctx", "lineno", "col_offset", "end_lineno", "end_col_offset", "type_comment"):
                continue
            if not _alpha_equal(getattr(a, f, None), getattr(b, f, None), fwd, bwd):
                return False
        return True
    return a == b
