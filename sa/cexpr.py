"""Small C expression parser over *unpreprocessed* source text, in which the repo's
macros stay named function calls (len(x), MAT_BUFD(A), MAX(a,b), abs(i), ...).
AST nodes are tuples:
 ('num', int|float) ('chr', 'N') ('str', s) ('id', name) ('call', name, [args])
 ('un', op, e) ('bin', op, l, r) ('tern', c, a, b) ('cast', type_text, e)
 ('idx', a, i) ('mem', e, '->'|'.', field) ('post', op, e)"""
import re

from .poly import Poly

TYPE_WORDS = {"int", "double", "char", "long", "unsigned", "signed", "float", "void", "short", "const",
              "complex_t", "int_t", "matrix", "spmatrix", "number", "size_t", "Py_ssize_t", "PyObject",
              "ccs", "struct", "complex", "_Complex", "SuiteSparse_long"}
TOK = re.compile(r"""
    \s+ | /\*.*?\*/ | //[^\n]* |
    (?P<num>0[xX][0-9a-fA-F]+|\d+\.\d*(?:[eE][-+]?\d+)?|\.\d+(?:[eE][-+]?\d+)?|\d+(?:[eE][-+]?\d+)?)[uUlLfF]* |
    (?P<chr>'(?:\\.|[^'\\])') |
    (?P<str>"(?:\\.|[^"\\])*") |
    (?P<id>[A-Za-z_]\w*) |
    (?P<op>->|\+\+|--|<<=|>>=|<<|>>|<=|>=|==|!=|&&|\|\||\+=|-=|\*=|/=|%=|&=|\|=|\^=|[-+*/%<>=!~&|^?:.,()\[\]{}])
""", re.X | re.S)


class ParseError(Exception):
    pass


PP_TRUE = ("PY_MAJOR_VERSION >= 3", "(SIZEOF_INT < SIZEOF_SIZE_T)", "SIZEOF_INT < SIZEOF_SIZE_T", "1")
PP_DEFINED = set()          # _MSC_VER, _WIN64, BLAS_NO_UNDERSCORE ... are not defined on the analysed build


def strip_pp(text):
    """resolve preprocessor conditionals inside a statement / argument list the way the
    analysed (Linux, Python 3, LP64) build does; directive lines are removed"""
    if "#" not in text:
        return text
    out = []
    stack = []          # (active_before, taken)
    active = True
    for line in text.split("\n"):
        st = line.strip()
        m = re.match(r"#\s*(if|ifdef|ifndef|elif|else|endif)\b\s*(.*)", st)
        if not m:
            if active:
                out.append(line)
            continue
        d, cond = m.group(1), m.group(2).strip()
        if d in ("if", "ifdef", "ifndef"):
            if d == "if":
                val = cond in PP_TRUE
            elif d == "ifdef":
                val = cond in PP_DEFINED
            else:
                val = cond not in PP_DEFINED
            stack.append((active, val))
            active = active and val
        elif d == "else":
            if stack:
                before, taken = stack[-1]
                active = before and not taken
                stack[-1] = (before, True)
        elif d == "elif":
            if stack:
                before, taken = stack[-1]
                val = cond in PP_TRUE
                active = before and (not taken) and val
                stack[-1] = (before, taken or val)
        elif d == "endif":
            if stack:
                active = stack.pop()[0]
    return "\n".join(out)


def tokenize(text):
    text = strip_pp(text)
    out = []
    pos = 0
    while pos < len(text):
        m = TOK.match(text, pos)
        if not m:
            raise ParseError("bad character %r at %d in %r" % (text[pos], pos, text[:60]))
        pos = m.end()
        if m.lastgroup:
            out.append((m.lastgroup, m.group(m.lastgroup)))
    return out


BINPREC = {"||": 1, "&&": 2, "|": 3, "^": 4, "&": 5, "==": 6, "!=": 6, "<": 7, ">": 7, "<=": 7, ">=": 7,
           "<<": 8, ">>": 8, "+": 9, "-": 9, "*": 10, "/": 10, "%": 10}
ASSIGN_OPS = {"=", "+=", "-=", "*=", "/=", "%=", "&=", "|=", "^=", "<<=", ">>="}


class Parser:
    def __init__(self, text):
        self.toks = tokenize(text)
        self.i = 0

    def peek(self, k=0):
        return self.toks[self.i + k] if self.i + k < len(self.toks) else (None, None)

    def next(self):
        t = self.peek()
        self.i += 1
        return t

    def expect(self, v):
        t = self.next()
        if t[1] != v:
            raise ParseError("expected %r got %r" % (v, t[1]))

    def parse(self):
        e = self.assign()
        if self.peek()[0] is not None:
            # comma expression or trailing junk
            if self.peek()[1] == ",":
                parts = [e]
                while self.peek()[1] == ",":
                    self.next()
                    parts.append(self.assign())
                if self.peek()[0] is None:
                    return ("comma", parts)
            raise ParseError("trailing tokens %r" % (self.toks[self.i:self.i + 4],))
        return e

    def assign(self):
        l = self.ternary()
        if self.peek()[1] in ASSIGN_OPS:
            op = self.next()[1]
            r = self.assign()
            return ("assign", op, l, r)
        return l

    def ternary(self):
        c = self.binary(1)
        if self.peek()[1] == "?":
            self.next()
            a = self.assign()
            self.expect(":")
            b = self.ternary()
            return ("tern", c, a, b)
        return c

    def binary(self, prec):
        l = self.unary()
        while True:
            op = self.peek()[1]
            p = BINPREC.get(op) if self.peek()[0] == "op" else None
            if p is None or p < prec:
                return l
            self.next()
            r = self.binary(p + 1)
            l = ("bin", op, l, r)

    def _is_cast(self):
        # '(' type-words '*'* ')'
        j = self.i + 1
        seen = False
        while j < len(self.toks) and self.toks[j][0] == "id" and self.toks[j][1] in TYPE_WORDS:
            seen = True
            j += 1
        while j < len(self.toks) and self.toks[j][1] == "*":
            j += 1
        return seen and j < len(self.toks) and self.toks[j][1] == ")", j

    def unary(self):
        k, v = self.peek()
        if k == "op" and v in ("!", "-", "+", "~", "&", "*", "++", "--"):
            self.next()
            return ("un", v, self.unary())
        if k == "id" and v == "sizeof":
            self.next()
            if self.peek()[1] == "(":
                depth = 0
                txt = []
                while True:
                    t = self.next()
                    if t[1] == "(":
                        depth += 1
                    elif t[1] == ")":
                        depth -= 1
                        if depth == 0:
                            break
                    txt.append(t[1])
                return ("call", "sizeof", [("id", " ".join(txt[1:]))])
        if k == "op" and v == "(":
            ok, j = self._is_cast()
            if ok:
                ty = " ".join(t[1] for t in self.toks[self.i + 1:j])
                self.i = j + 1
                return ("cast", ty, self.unary())
        return self.postfix()

    def postfix(self):
        e = self.primary()
        while True:
            k, v = self.peek()
            if v == "(" and k == "op":
                self.next()
                args = []
                if self.peek()[1] != ")":
                    args.append(self.assign())
                    while self.peek()[1] == ",":
                        self.next()
                        args.append(self.assign())
                self.expect(")")
                if e[0] == "id":
                    e = ("call", e[1], args)
                else:
                    e = ("callx", e, args)
            elif v == "[" and k == "op":
                self.next()
                i = self.assign()
                self.expect("]")
                e = ("idx", e, i)
            elif v in ("->", ".") and k == "op":
                self.next()
                f = self.next()
                e = ("mem", e, v, f[1])
            elif v in ("++", "--") and k == "op":
                self.next()
                e = ("post", v, e)
            else:
                return e

    def primary(self):
        k, v = self.next()
        if k == "num":
            try:
                return ("num", int(v, 0))
            except ValueError:
                return ("num", float(v))
        if k == "chr":
            body = v[1:-1]
            if body.startswith("\\"):
                body = {"\\n": "\n", "\\0": "\0", "\\t": "\t", "\\\\": "\\", "\\'": "'"}.get(body, body)
            return ("chr", body)
        if k == "str":
            s = v
            while self.peek()[0] == "str":
                s = s[:-1] + self.next()[1][1:]
            return ("str", s[1:-1])
        if k == "id":
            return ("id", v)
        if v == "(":
            e = self.assign()
            if self.peek()[1] == ",":
                parts = [e]
                while self.peek()[1] == ",":
                    self.next()
                    parts.append(self.assign())
                e = ("comma", parts)
            self.expect(")")
            return e
        raise ParseError("unexpected token %r" % (v,))


def parse(text):
    return Parser(text).parse()


def unparse(e):
    k = e[0]
    if k == "num":
        return str(e[1])
    if k == "chr":
        return "'%s'" % e[1]
    if k == "str":
        return '"%s"' % e[1]
    if k == "id":
        return e[1]
    if k == "call":
        return "%s(%s)" % (e[1], ", ".join(unparse(a) for a in e[2]))
    if k == "callx":
        return "%s(%s)" % (unparse(e[1]), ", ".join(unparse(a) for a in e[2]))
    if k == "un":
        return "%s%s" % (e[1], unparse(e[2]))
    if k == "post":
        return "%s%s" % (unparse(e[2]), e[1])
    if k == "bin":
        return "(%s %s %s)" % (unparse(e[2]), e[1], unparse(e[3]))
    if k == "tern":
        return "(%s ? %s : %s)" % (unparse(e[1]), unparse(e[2]), unparse(e[3]))
    if k == "cast":
        return "(%s)%s" % (e[1], unparse(e[2]))
    if k == "idx":
        return "%s[%s]" % (unparse(e[1]), unparse(e[2]))
    if k == "mem":
        return "%s%s%s" % (unparse(e[1]), e[2], e[3])
    if k == "assign":
        return "%s %s %s" % (unparse(e[2]), e[1], unparse(e[3]))
    if k == "comma":
        return ", ".join(unparse(x) for x in e[1])
    return str(e)


def idents(e, acc=None):
    """identifiers (variables) mentioned, excluding called macro/function names"""
    acc = set() if acc is None else acc
    k = e[0]
    if k == "id":
        acc.add(e[1])
    elif k in ("call",):
        for a in e[2]:
            idents(a, acc)
    elif k == "callx":
        idents(e[1], acc)
        for a in e[2]:
            idents(a, acc)
    elif k in ("un", "post", "cast"):
        idents(e[2], acc)
    elif k == "bin":
        idents(e[2], acc)
        idents(e[3], acc)
    elif k == "tern":
        for x in e[1:]:
            idents(x, acc)
    elif k == "idx":
        idents(e[1], acc)
        idents(e[2], acc)
    elif k == "mem":
        idents(e[1], acc)
    elif k == "assign":
        idents(e[2], acc)
        idents(e[3], acc)
    elif k == "comma":
        for x in e[1]:
            idents(x, acc)
    return acc


def strip_casts(e):
    while e[0] == "cast":
        e = e[2]
    return e


def to_poly(e):
    """C integer expression -> Poly (opaque sub-expressions become symbols named by
    their normalised text); None if it has no arithmetic meaning (strings...)."""
    e = strip_casts(e)
    k = e[0]
    if k == "num":
        if isinstance(e[1], int):
            return Poly.const(e[1])
        return None
    if k == "id":
        return Poly.sym(e[1])
    if k == "un" and e[1] == "-":
        p = to_poly(e[2])
        return None if p is None else -p
    if k == "un" and e[1] == "+":
        return to_poly(e[2])
    if k == "bin" and e[1] in ("+", "-", "*"):
        l, r = to_poly(e[2]), to_poly(e[3])
        if l is None or r is None:
            return None
        return l + r if e[1] == "+" else l - r if e[1] == "-" else l * r
    if k == "call" and e[1] in ("X_NROWS", "MAT_NROWS", "SP_NROWS") and len(e[2]) == 1 and e[2][0][0] == "id":
        return Poly.sym("%s->nrows" % e[2][0][1])
    if k == "call" and e[1] in ("X_NCOLS", "MAT_NCOLS", "SP_NCOLS") and len(e[2]) == 1 and e[2][0][0] == "id":
        return Poly.sym("%s->ncols" % e[2][0][1])
    if k == "call" and e[1] in ("MAT_LGT", "SP_LGT", "len") and len(e[2]) == 1 and e[2][0][0] == "id":
        return Poly.sym("len(%s)" % e[2][0][1])
    if k == "call" and e[1] in ("MIN", "MAX") and len(e[2]) == 2:
        def _arg(x):
            x = strip_casts(x)
            q = to_poly(x)
            if q is not None and x[0] == "call" and len(q.symbols()) == 1 and repr(q) == list(q.symbols())[0]:
                return list(q.symbols())[0]         # X_NROWS(A) -> A->nrows inside MAX/MIN
            return unparse(x)
        a, b = sorted(_arg(x) for x in e[2])
        return Poly.sym("%s(%s, %s)" % (e[1], a, b))
    if k in ("call", "mem", "idx", "bin", "tern", "un"):
        return Poly.sym(unparse(e))
    return None
