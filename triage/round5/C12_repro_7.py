# default solver reports 'optimal' for an unbounded PWL problem (conelp early exit ignores the dual residual)
from cvxopt import matrix, solvers
from cvxopt.modeling import variable, op, max
solvers.options['show_progress'] = False
solvers.options['glpk'] = {'msg_lev': 'GLP_MSG_OFF'}
for solver in ['default', 'glpk']:
    x = variable(1)
    p = op(max(x, 1.0*x))           # minimize max(x,x) = x : unbounded below
    p.solve('dense', solver)
    print(solver, p.status, x.value if x.value is None else list(x.value))
# the same through solvers.lp: minimize t s.t. x - t <= 1 (twice)
sol = solvers.lp(matrix([0., 1.]), matrix([[1., 1.], [-1., -1.]]), matrix([1., 1.]))
print(sol['status'], list(sol['x']), 'dual infeasibility', sol['dual infeasibility'], 'iterations', sol['iterations'])
