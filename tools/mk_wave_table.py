import json, re, sys
log = open(sys.argv[1]).read().splitlines()
res = {}
for l in log:
    m = re.match(r"(w5-C\d\d-\d)\s+(CAUGHT by (\S+)|missed)(.*)", l)
    if not m: continue
    seed = m.group(1)
    rules = re.findall(r"\[(C\d\d) rc=1 (\S+)", m.group(4))
    res[seed] = (m.group(3), rules)
MISS = {
 "w5-C01-2": "a stale leading dimension (`ld` keeps the workspace-query value) in the C `max_step`; misc_solvers kernels have no reference footprint (F-15)",
 "w5-C06-2": "`x[a:b] = sparse` writes only the stored nonzeros (stale entries stay): a value-level change inside one copy loop",
 "w5-C07-2": "two statements swapped in `compute_scaling` (copy before the triangle is zeroed): an order constraint between a copy and a loop that no typestate of ours tracks",
 "w5-C07-3": "a cache entry of the factory dict written in place through an alias; the factory-state rule tracks named work matrices, not dict entries",
 "w5-C08-2": "`sqrt(x0-a)*sqrt(x0+a)` replaced by `sqrt(jdot(x,x))`: numerically unsafe, algebraically equal",
 "w5-C08-3": "skip-zero shortcut in `symm` leaves stale entries: a data-dependent early `continue`",
 "w5-C15-2": "off-by-one in the scan loop of `matrix_sqrt` (`i < last` with last = LGT-1)",
 "w5-C15-3": "`MAT_LGT(other) != 1` weakened to `> 1`: differs only for empty operands",
 "w5-C19-2": "type test of `spmatrix.V = x` relaxed while the memcpy keeps the element size of self (sparse.c, C16 territory)",
 "w5-C20-2": "`Matrix_NewFromPyBuffer(V, MAX(id,DOUBLE), ..)`: a hard type request where -1 means 'take the buffer's type'",
}
out = ["| seed | change | caught by |", "|------|--------|-----------|"]
for seed in sorted(res):
    meta = json.load(open("/verif/seeded/%s/meta.json" % seed))
    summ = " ".join(str(meta.get("summary", "")).split())
    summ = summ.replace("|", "/")[:170]
    by, rules = res[seed]
    if by:
        rs = sorted({r.rstrip(",") for _, r in rules})
        out.append("| %s | %s | %s |" % (seed, summ, ", ".join(rs)[:90]))
    else:
        out.append("| %s | %s | **missed** - %s |" % (seed, summ, MISS.get(seed, "?")))
print("\n".join(out))
print("CAUGHT", sum(1 for s in res if res[s][0]), "of", len(res), file=sys.stderr)
idx = json.load(open("/verif/seeded/INDEX.json"))
for seed, (by, rules) in res.items():
    idx[seed] = sorted(by.split(",")) if by else []
json.dump(idx, open("/verif/seeded/INDEX.json", "w"), indent=1, sort_keys=True)
