# A *= B with an empty operand performs a matrix product and rebinds A to a new object
from cvxopt import matrix
A = matrix([1, 2, 3, 4], (2, 2)); alias = A
A *= matrix(0, (2, 0))
print(A.size, alias.size, A is alias)     # (2, 0) (2, 2) False ; expected TypeError (in-place matrix products are not allowed)
A = matrix(0.0, (0, 3)); alias = A
A *= matrix(1.0, (3, 2))
print(A.size, alias.size, A is alias)     # (0, 2) (0, 3) False
