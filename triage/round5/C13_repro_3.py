# C13 / repro 3: op keeps the objective by reference; an in-place edit of that function
# (directly, or through "other_op.objective += ..." on an op sharing it) leaves
# variables() stale and makes solve() raise KeyError.
from cvxopt import solvers
from cvxopt.modeling import variable, op
solvers.options['show_progress'] = False

x = variable(1, 'x'); y = variable(1, 'y')
f = x + 0.0
p = op(f, [x >= 0, x <= 5])
q = op(f, [x >= 0, x <= 5, y >= 1, y <= 5])
q.objective += y                 # documented way of changing q's objective
print('p.variables()          :', p.variables())
print('p.objective.variables():', p.objective.variables())
print('p._variables           :', {v.name: d['o'] for v, d in p._variables.items()})
try:
    p.solve(); print(p.status)
except Exception as e:
    print('p.solve(): %s: %r' % (type(e).__name__, e))
fresh = op(p.objective, p.constraints())
print('fresh.variables()      :', fresh.variables())
