"""Block-offset discipline (shared by C01-C04, C06-C08, C10, C12).

The cone vectors are concatenations of blocks; code walks them with an integer offset
that is advanced once per block:   `ind = ...; for m in dims['s']: use(ind); ind += m**2`.
Rule: inside the loop that advances offset variable v by stride S, every access that
addresses a vector at `v + c` with extent E (elements touched, counted from v) must fit
in the block: c + E <= S for every block size; and the widest decidable access of the
loop must fill the block exactly (c + E == S), otherwise offset and data layout disagree.
Extents come from the reference footprints of the kernels (BLAS level 1: 1+(n-1)|inc|;
band matrix with k=0: (n-1)*ld+1; misc.symm: n*n; syev*: (n-1)*ld+n; slices: stop-start).
Polynomials in the loop symbols are compared exactly; when the sign of S-(c+E) is not
uniform the comparison is evaluated on a small grid of block sizes and a concrete block
size is reported as the witness."""
import ast
import itertools

from . import pyfront as pf
from .poly import Poly, from_pyast

# positional parameter orders (cross-checked against the C kwlists by C17-R2)
SIGS = {
    "blas.copy": ["x", "y", "n", "incx", "incy", "offsetx", "offsety"],
    "blas.swap": ["x", "y", "n", "incx", "incy", "offsetx", "offsety"],
    "blas.scal": ["alpha", "x", "n", "inc", "offset"],
    "blas.axpy": ["x", "y", "alpha", "n", "incx", "incy", "offsetx", "offsety"],
    "blas.dot": ["x", "y", "n", "incx", "incy", "offsetx", "offsety"],
    "blas.dotu": ["x", "y", "n", "incx", "incy", "offsetx", "offsety"],
    "blas.nrm2": ["x", "n", "inc", "offset"],
    "blas.asum": ["x", "n", "inc", "offset"],
    "blas.tbmv": ["A", "x", "uplo", "trans", "diag", "n", "k", "ldA", "incx", "offsetA", "offsetx"],
    "blas.tbsv": ["A", "x", "uplo", "trans", "diag", "n", "k", "ldA", "incx", "offsetA", "offsetx"],
    "misc.symm": ["x", "n", "offset"],
    "lapack.syevr": ["A", "W", "jobz", "range", "uplo", "vl", "vu", "il", "iu", "Z", "n", "ldA",
                     "ldZ", "abstol", "offsetA", "offsetW", "offsetZ"],
    "lapack.syevd": ["A", "W", "jobz", "uplo", "n", "ldA", "offsetA", "offsetW"],
    "lapack.syev": ["A", "W", "jobz", "uplo", "n", "ldA", "offsetA", "offsetW"],
}
# (offset keyword) -> how to compute the extent from the bound arguments
VEC = {  # offset kw -> (n kw, inc kw)
    "blas.copy": {"offsetx": ("n", "incx"), "offsety": ("n", "incy")},
    "blas.swap": {"offsetx": ("n", "incx"), "offsety": ("n", "incy")},
    "blas.axpy": {"offsetx": ("n", "incx"), "offsety": ("n", "incy")},
    "blas.dot": {"offsetx": ("n", "incx"), "offsety": ("n", "incy")},
    "blas.dotu": {"offsetx": ("n", "incx"), "offsety": ("n", "incy")},
    "blas.scal": {"offset": ("n", "inc")},
    "blas.nrm2": {"offset": ("n", "inc")},
    "blas.asum": {"offset": ("n", "inc")},
    "blas.tbmv": {"offsetx": ("n", "incx")},
    "blas.tbsv": {"offsetx": ("n", "incx")},
    "lapack.syevr": {"offsetW": ("n", None)},
    "lapack.syevd": {"offsetW": ("n", None)},
    "lapack.syev": {"offsetW": ("n", None)},
}


def bind(call, name):
    sig = SIGS.get(name)
    if sig is None:
        return None
    b = {}
    if any(isinstance(a, ast.Starred) for a in call.args):
        return None
    for p, a in zip(sig, call.args):
        b[p] = a
    for k in call.keywords:
        if k.arg is None:
            return None
        b[k.arg] = k.value
    return b


def _poly(e, env):
    return from_pyast(e, env) if e is not None else None


def extent_of(name, b, offkw, env):
    """Extent (Poly) of the argument addressed by offset keyword offkw, or None."""
    one = Poly.const(1)
    if name == "misc.symm" and offkw == "offset":
        n = _poly(b.get("n"), env)
        return None if n is None else n * n
    if name in VEC and offkw in VEC[name]:
        nk, ik = VEC[name][offkw]
        n = _poly(b.get(nk), env)
        if n is None:
            return None
        inc = _poly(b.get(ik), env) if ik and b.get(ik) is not None else one
        if inc is None:
            return None
        if inc.is_const() and inc.const_value() < 0:
            inc = -inc
        return one + (n - one) * inc
    if name in ("blas.tbmv", "blas.tbsv") and offkw == "offsetA":
        n, k, ld = _poly(b.get("n"), env), b.get("k"), _poly(b.get("ldA"), env)
        kp = _poly(k, env) if k is not None else None
        if n is None or ld is None or kp is None:
            return None
        return (n - one) * ld + kp + one
    if name in ("lapack.syevr", "lapack.syevd", "lapack.syev") and offkw == "offsetA":
        n, ld = _poly(b.get("n"), env), _poly(b.get("ldA"), env)
        if n is None or ld is None:
            return None
        return (n - one) * ld + n
    return None


def _range_bounds(loop, env):
    """(var, lo Poly, hi Poly) for `for v in range(..)`; None if not a simple range."""
    it = loop.iter
    if isinstance(loop.target, ast.Name) and isinstance(it, ast.Call) and isinstance(it.func, ast.Name) \
            and it.func.id == "range" and 1 <= len(it.args) <= 2 and not it.keywords:
        lo = Poly.const(0) if len(it.args) == 1 else from_pyast(it.args[0], env)
        hi = from_pyast(it.args[-1], env)
        if lo is not None and hi is not None:
            return (loop.target.id, lo, hi)
    return None


def _drop_column_terms(P):
    """remove terms that contain a `<vec>.size[0]` symbol: a displacement by whole
    columns of a multi-column argument, not a displacement inside the block"""
    return Poly({k: v for k, v in P.t.items() if not any(".size[0]" in s for s, _ in k)})


def _grid_compare(S, T, syms, inner=()):
    """Compare stride S with shift+extent T for block sizes on a small grid; variables of
    inner `range` loops run through their concrete ranges.  Returns (verdict, witness):
    'gt' (some block size / inner index makes T > S), 'eq' (max over inner indices == S
    for every block size), 'le' otherwise, '?' if not evaluable."""
    innames = [v for v, _, _ in inner]
    outer = sorted(s for s in syms if s not in innames)
    vals = [1, 2, 3, 5]
    alleq = True
    for combo in itertools.product(vals, repeat=min(len(outer), 3)):
        m = {s: Poly.const(v) for s, v in zip(outer, combo)}
        for s in outer[3:]:
            m[s] = Poly.const(2)

        def rec(i, env):
            if i == len(inner):
                d = (S - T).subs(env)
                if not d.is_const():
                    return None
                return [(d.const_value(), dict(env))]
            v, lo, hi = inner[i]
            lo_v, hi_v = lo.subs(env), hi.subs(env)
            if not (lo_v.is_const() and hi_v.is_const()):
                return None
            out = []
            for x in range(int(lo_v.const_value()), int(hi_v.const_value())):
                e2 = dict(env)
                e2[v] = Poly.const(x)
                r = rec(i + 1, e2)
                if r is None:
                    return None
                out += r
            return out
        pts = rec(0, m)
        if pts is None:
            return ("?", None)
        if not pts:
            continue          # inner range empty for this block size
        worst = min(pts, key=lambda t: t[0])
        if worst[0] < 0:
            return ("gt", {k: int(v.const_value()) for k, v in worst[1].items()})
        if worst[0] != 0:
            alleq = False
    return ("eq" if alleq else "le", None)


def _fill_ratio(S, T, syms, inner, val=5):
    """(max over inner indices of T, S) with every block-size symbol = val; None if not
    evaluable."""
    innames = [v for v, _, _ in inner]
    env = {s: Poly.const(val) for s in syms if s not in innames}
    best = None

    def rec(i, e):
        nonlocal best
        if i == len(inner):
            t = T.subs(e)
            if t.is_const():
                c = t.const_value()
                best = c if best is None or c > best else best
            return
        v, lo, hi = inner[i]
        lo_v, hi_v = lo.subs(e), hi.subs(e)
        if not (lo_v.is_const() and hi_v.is_const()):
            return
        for x in range(int(lo_v.const_value()), int(hi_v.const_value())):
            e2 = dict(e)
            e2[v] = Poly.const(x)
            rec(i + 1, e2)
    rec(0, env)
    sv = S.subs(env)
    if best is None or not sv.is_const():
        return None
    return (best, sv.const_value())


class Finding:
    def __init__(self, kind, key, node, detail, expected=None, observed=None):
        self.kind, self.key, self.node, self.detail = kind, key, node, detail
        self.expected, self.observed = expected, observed


def loops_with_offsets(fn):
    """[(loop, var, [AugAssign...])] for offset variables advanced in a for loop of fn's
    own scope; the owner loop of an increment is the innermost enclosing loop."""
    out = {}
    for n in pf._scope_nodes(fn):
        if isinstance(n, ast.AugAssign) and isinstance(n.op, ast.Add) and isinstance(n.target, ast.Name):
            p = n
            loop = None
            while p is not None and p is not fn:
                p = getattr(p, "_parent", None)
                if isinstance(p, (ast.For, ast.While)):
                    loop = p
                    break
            if isinstance(loop, ast.For):
                out.setdefault((id(loop), n.target.id), (loop, n.target.id, []))[2].append(n)
    return list(out.values())


def _used_as_offset(loop, var):
    for n in ast.walk(loop):
        if isinstance(n, ast.keyword) and n.arg and n.arg.startswith("offset") and var in pf.names_in(n.value):
            return True
        if isinstance(n, ast.Subscript) and isinstance(n.slice, ast.Slice) and n.slice.lower is not None \
                and var in pf.names_in(n.slice.lower):
            return True
        if isinstance(n, ast.Call) and pf.call_name(n) == "misc.symm" and len(n.args) >= 3 \
                and var in pf.names_in(n.args[2]):
            return True
        if isinstance(n, ast.Call) and isinstance(n.func, ast.Name) and n.func.id == "slice" and n.args \
                and var in pf.names_in(n.args[0]):
            return True
    return False


def _skipped_increment(loop, var, incs, lkey):
    """every iteration of a block walk advances the offset: no `continue` of this loop may run
    before the increment, and the increment is not nested under a condition"""
    last = max(a.lineno for a in incs)
    for n in ast.walk(loop):
        if isinstance(n, ast.Continue) and n.lineno < last:
            p = n
            owner = None
            while p is not None and p is not loop:
                p = getattr(p, "_parent", None)
                if isinstance(p, (ast.For, ast.While)):
                    owner = p
                    break
            if owner is loop:
                return Finding("violation", lkey + ":every iteration advances", n,
                               "a `continue` skips `%s += ..`: after such an iteration every later block is addressed at the previous block's offset" % var,
                               "the offset is advanced on every path through the loop body", "continue at line %d before the increment" % n.lineno)
    for a in incs:
        p = getattr(a, "_parent", None)
        if p is not loop:
            # allowed when every arm of the enclosing if/else chain advances the offset by the same stride
            q = a
            while getattr(q, "_parent", None) is not loop and getattr(q, "_parent", None) is not None:
                q = q._parent
            if isinstance(q, ast.If):
                arms = []
                cur = q
                complete = False
                while isinstance(cur, ast.If):
                    arms.append(cur.body)
                    if cur.orelse and not (len(cur.orelse) == 1 and isinstance(cur.orelse[0], ast.If)):
                        arms.append(cur.orelse)
                        complete = True
                        break
                    cur = cur.orelse[0] if cur.orelse else None
                ok = complete and all(any(isinstance(x, ast.AugAssign) and isinstance(x.target, ast.Name) and x.target.id == var
                                          for st_ in arm for x in ast.walk(st_)) for arm in arms)
                if not ok:
                    return Finding("violation", lkey + ":every iteration advances", a,
                                   "`%s += ..` only runs under a condition: iterations that skip it leave the offset behind" % var,
                                   "unconditional increment (or one in every arm)", pf.norm_expr(q.test)[:60])
    return Finding("ok", lkey + ":every iteration advances", incs[0], "increment on every path")


def _walk_start(fn, loop, var, env, lkey):
    """A walk over the 'q' / 's' blocks of a stacked cone vector whose offset is initialised,
    right before the loop, from `dims`: the start must be where the preceding blocks end
    ([mnl +] dims['l'] for 'q', [mnl +] dims['l'] + sum(dims['q']) for 's')."""
    it = pf.norm_expr(loop.iter)
    which = "s" if it in ("dims['s']",) else "q" if it in ("dims['q']",) else None
    if which is None:
        mm = None
        if isinstance(loop.iter, ast.Call) and pf.call_name(loop.iter) == "range" and len(loop.iter.args) == 1:
            mm = pf.norm_expr(loop.iter.args[0])
        which = "s" if mm == "len(dims['s'])" else "q" if mm == "len(dims['q'])" else None
    if which is None:
        return None
    par = getattr(loop, "_parent", None)
    blk = None
    for f_ in ("body", "orelse", "finalbody"):
        b_ = getattr(par, f_, None)
        if isinstance(b_, list) and any(x is loop for x in b_):
            blk = b_
    if blk is None:
        return None
    idx = [i for i, x in enumerate(blk) if x is loop][0]
    init = None
    for s_ in reversed(blk[:idx]):
        if any(isinstance(x, ast.Name) and x.id == var and isinstance(x.ctx, ast.Store) for x in ast.walk(s_)):
            if isinstance(s_, ast.Assign) and len(s_.targets) == 1 and isinstance(s_.targets[0], ast.Name) and s_.targets[0].id == var:
                init = s_
            break
    if init is None or "dims" not in pf.names_in(init.value):
        return None
    P = from_pyast(init.value, env)
    if P is None:
        return None
    base = Poly.sym("dims['l']") + (Poly.sym("sum(dims['q'])") if which == "s" else Poly.const(0))
    key = lkey + ":start"
    rest = P - base
    # anything that does not involve dims (mnl, an offset argument) may be added to the block end
    if not any("dims" in sname for sname in rest.symbols()):
        return Finding("ok", key, init, "walk over the '%s' blocks starts at %r" % (which, P))
    return Finding("violation", key, init,
                   "the walk over the '%s' blocks starts at `%s`, which is not where the preceding blocks of the stacked vector end"
                   % (which, pf.norm_expr(init.value)), "[mnl / offset +] %r" % base, pf.norm_expr(init.value))


def _alias_env(fn):
    """single-assignment integer aliases usable in polynomials: `ml = dims['l']` etc. are
    left symbolic; only names assigned exactly once from a Name/Subscript are unfolded."""
    return {}


def analyze(fn, mod, qual=None):
    """-> (findings, stats).  findings: Finding(kind in ok/violation/undecided)."""
    qual = qual or getattr(fn, "_qualname", fn.name)
    res = []
    env = _alias_env(fn)
    for loop, var, incs in loops_with_offsets(fn):
        if not _used_as_offset(loop, var):
            continue
        strides = []
        for a in incs:
            p = from_pyast(a.value, env)
            strides.append(p)
        lkey = "%s:for %s in %s:%s" % (qual, pf.norm_expr(loop.target), pf.norm_expr(loop.iter)[:50], var)
        if any(s is None for s in strides) or len({repr(s) for s in strides}) != 1:
            res.append(Finding("undecided", lkey + ":stride", incs[0],
                               "offset advanced by several/non-polynomial strides: %s" %
                               [ast.unparse(a.value) for a in incs]))
            continue
        S = strides[0]
        vs = Poly.sym(var)
        accesses = []
        for n in ast.walk(loop):
            if pf.enclosing_function(n) is not pf.enclosing_function(loop):
                continue
            if isinstance(n, ast.Call) and isinstance(n.func, ast.Name) and n.func.id == "slice" and len(n.args) == 2 \
                    and var in pf.names_in(n.args[0]):
                lo, hi = from_pyast(n.args[0], env), from_pyast(n.args[1], env)
                if lo is not None and hi is not None:
                    shift = lo - vs
                    E = hi - lo
                    if var not in shift.symbols() and var not in E.symbols():
                        accesses.append((n, "slice()", shift, E, None))
            elif isinstance(n, ast.Call):
                nm = pf.call_name(n)
                b = bind(n, nm) if nm else None
                if not b:
                    continue
                for kw, val in b.items():
                    if not (kw.startswith("offset")):
                        continue
                    if var not in pf.names_in(val):
                        continue
                    P = from_pyast(val, env)
                    if P is None:
                        continue
                    shift = P - vs
                    if var in shift.symbols():
                        accesses.append((n, kw, None, None, "offset is not of the form %s + c" % var))
                        continue
                    E = extent_of(nm, b, kw, env)
                    accesses.append((n, "%s(%s=)" % (nm, kw), shift, E,
                                     None if E is not None else "extent depends on an omitted n / unknown length"))
            elif isinstance(n, ast.Subscript) and isinstance(n.slice, ast.Slice):
                sl = n.slice
                if sl.lower is None or sl.upper is None:
                    continue
                if var not in pf.names_in(sl.lower):
                    continue
                lo, hi = from_pyast(sl.lower, env), from_pyast(sl.upper, env)
                if lo is None or hi is None:
                    continue
                shift = lo - vs
                if var in shift.symbols():
                    continue
                E = hi - lo
                if var in E.symbols():
                    accesses.append((n, "slice", None, None, "slice bounds not relative to %s" % var))
                    continue
                accesses.append((n, "slice[%s]" % pf.norm_expr(n.value)[:30], shift, E, None))
        # only variables that are used as offsets are offsets (not lists/strings/counters)
        if not accesses:
            continue
        st_ = _walk_start(fn, loop, var, env, lkey)
        if st_ is not None:
            res.append(st_)
        sk_ = _skipped_increment(loop, var, incs, lkey)
        if sk_ is not None:
            res.append(sk_)
        decided = []
        fills = []
        for node, what, shift, E, why in accesses:
            akey = lkey + ":" + what + ":" + pf.norm_expr(node)[:90]
            if E is None:
                res.append(Finding("undecided", akey, node, why or "extent unknown"))
                continue
            T = _drop_column_terms(shift) + E
            syms = (S.symbols() | T.symbols())
            inner = []
            q = getattr(node, "_parent", None)
            bad_inner = False
            while q is not None and q is not loop:
                if isinstance(q, ast.For):
                    rb = _range_bounds(q, env)
                    if rb is not None:
                        inner.insert(0, rb)
                        syms |= rb[1].symbols() | rb[2].symbols()
                q = getattr(q, "_parent", None)
            cmp_, wit = _grid_compare(S, T, syms, inner)
            if cmp_ == "?":
                res.append(Finding("undecided", akey, node, "cannot compare %r with %r" % (S, T)))
            elif cmp_ == "gt":
                res.append(Finding("violation", akey, node,
                                   "access at offset `%s` touches %r elements from %s but the offset is "
                                   "advanced by only %r per block: for block size %s the access overlaps "
                                   "the next block" % (var, T, var, S, wit),
                                   expected="extent <= stride %r" % S, observed="extent %r" % T))
                decided.append(("gt", node))
            else:
                res.append(Finding("ok", akey, node, "extent %r %s stride %r" % (T, "==" if cmp_ == "eq" else "<=", S)))
                decided.append((cmp_, node))
                fr = _fill_ratio(S, T, syms, inner)
                if fr is not None:
                    fills.append(fr)
        narrow = bool(fills) and all(2 * t < sv for t, sv in fills)
        if decided and not any(c in ("eq", "gt") for c, _ in decided) and narrow:
            res.append(Finding("violation", lkey + ":fills-block", incs[0],
                               "no access of this loop comes near filling the block: offset `%s` is advanced by "
                               "%r per block but the widest access at it covers less than half of that "
                               "(layout of the walked vector and the stride disagree)" % (var, S),
                               expected="widest access extent comparable to the stride",
                               observed="(max extent, stride) at block size 5: %s" % fills[:3]))
        elif decided and not any(c == "gt" for c, _ in decided):
            res.append(Finding("ok", lkey + ":fills-block", incs[0],
                               "stride %r is met (or more than half filled) by the widest access" % S))
    return res
