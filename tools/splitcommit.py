#!/usr/bin/env python3
"""usage: splitcommit.py <repo> <file> <regex of hunk text> <message>  -- commit only the hunks of <file> whose text matches"""
import re, subprocess, sys
repo, path, rx, msg = sys.argv[1:5]
d = subprocess.run(["git", "-C", repo, "diff", "-U3", "--", path], capture_output=True, text=True).stdout
head, *hunks = re.split(r"(?m)^(?=@@ )", d)
sel = [h for h in hunks if re.search(rx, h)]
assert sel, "no hunk matches"
patch = head + "".join(sel)
r = subprocess.run(["git", "-C", repo, "apply", "--cached", "--recount", "-"], input=patch, text=True, capture_output=True)
assert r.returncode == 0, r.stderr
subprocess.run(["git", "-C", repo, "commit", "-q", "-m", msg], check=True)
print(subprocess.run(["git", "-C", repo, "log", "--oneline", "-1"], capture_output=True, text=True).stdout.strip(), "| hunks:", len(sel), "of", len(hunks))
