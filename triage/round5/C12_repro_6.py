# max()/min() refuse documented argument lists when the constants come first
from cvxopt import matrix
from cvxopt.modeling import variable, max, min
x = variable(2)
c = matrix([1., 2.])
for name, fn in [('max(x, c, 0.0)', lambda: max(x, c, 0.0)),
                 ('max(c, x, 0.0)', lambda: max(c, x, 0.0)),
                 ('max(0.0, 1.0, x)', lambda: max(0.0, 1.0, x)),
                 ('max(c, 0.0, x)', lambda: max(c, 0.0, x)),
                 ('max(0.0, c, x)', lambda: max(0.0, c, x)),
                 ('max(c, c, x)', lambda: max(c, c, x)),
                 ('min(0.0, c, x)', lambda: min(0.0, c, x)),
                 ('max([0.0, c, x])', lambda: max([0.0, c, x]))]:
    try: print(name, '->', repr(fn()))
    except Exception as e: print(name, '->', type(e).__name__, e)
