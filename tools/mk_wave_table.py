import json, re, sys
log = open(sys.argv[1]).read().splitlines()
PFX = sys.argv[2] if len(sys.argv) > 2 else "w5"
res = {}
for l in log:
    m = re.match(r"(%s-C\d\d-\d)\s+(CAUGHT by (\S+)|missed)(.*)" % PFX, l)
    if not m: continue
    seed = m.group(1)
    rules = re.findall(r"\[(C\d\d) rc=1 (\S+)", m.group(4))
    res[seed] = (m.group(3), rules)
MISS = {
 "w7-C02-1": "a stale leading dimension handed to dsyevr in the C `max_step` (the assignment `ld = MAX(1,mk)` removed): misc_solvers kernels have no reference footprint (F-15); the same blind spot as w5-C01-2",
 "w7-C06-1": "`C + j*(n+1)` -> `C + j*n` in the beta scaling of `sp_dsyrk`: the diagonal offset of a packed triangle, a value-level index expression with no sibling to compare with",
 "w7-C06-2": "`offsetA = Gs.size[0]*p` -> `cdim_pckd*p` in `kkt_qr`: both are row counts of matrices in scope; which one is the leading dimension of Gs is a fact about an allocation 40 lines earlier that the offset rule does not connect",
 "w7-C06-3": "`hresy` -> `resy` in the dual infeasibility residual of conelp: both are residual norms in scope; the formula is documented in prose only and has a single site",
 "w7-C11-1": "the predicate of `sum()` that decides between scaling a term and building a `_sum_minmax` (`len(c) == 1` -> `type(c) is _sum_minmax or len(c._flist) == 1`): differs only for a max of several scalar functions",
 "w7-C11-3": "the dimension test of `_minmax.__init__` moved into the branch for functions, so constants of a wrong length are no longer refused: a refusal that still exists and still dominates one of the two kinds of argument",
 "w7-C12-3": "`a*c` -> `c*a` in `_lin._mul` (matrix product order for a column times a 1xn coefficient): operand order of a non-commutative product",
 "w7-C13-1": "`if c not in self._variables[v][key]` before the append in `addconstraint`: the lists become sets, so a constraint added twice is forgotten after one `delconstraint`; the abstract run of add/delconstraint adds every constraint once",
 "w7-C15-2": "`creal != 0 || cimag != 0` -> `&&` in `matrix_nonzero`: one boolean operator in a value test",
 "w7-C15-3": "`if (id > INT) break;` in the type scan of `Matrix_NewFromSequence`: a complex element after a float is no longer seen; an early exit from a scan loop whose purpose (maximum over all elements) is not modelled",
 "w7-C17-3": "the type pre-test of `number_from_pyobject` removed for the DOUBLE case (any object with `__float__` is accepted as alpha): a refusal deleted in a helper, not in a wrapper",
 "w7-C20-1": "the column loop of `spmatrix_get_J` rewritten as a single pass with `if` where `while` is needed (empty columns): loop-carried arithmetic",
 "w5-C01-2": "a stale leading dimension (`ld` keeps the workspace-query value) in the C `max_step`; misc_solvers kernels have no reference footprint (F-15)",
 "w5-C06-2": "`x[a:b] = sparse` writes only the stored nonzeros (stale entries stay): a value-level change inside one copy loop",
 "w5-C07-2": "two statements swapped in `compute_scaling` (copy before the triangle is zeroed): an order constraint between a copy and a loop that no typestate of ours tracks",
 "w5-C07-3": "a cache entry of the factory dict written in place through an alias; the factory-state rule tracks named work matrices, not dict entries",
 "w5-C08-2": "`sqrt(x0-a)*sqrt(x0+a)` replaced by `sqrt(jdot(x,x))`: numerically unsafe, algebraically equal",
 "w5-C08-3": "skip-zero shortcut in `symm` leaves stale entries: a data-dependent early `continue`",
 "w5-C15-2": "off-by-one in the scan loop of `matrix_sqrt` (`i < last` with last = LGT-1)",
 "w5-C15-3": "`MAT_LGT(other) != 1` weakened to `> 1`: differs only for empty operands",
 "w5-C19-2": "type test of `spmatrix.V = x` relaxed while the memcpy keeps the element size of self (sparse.c, C16 territory)",
 "w5-C20-2": "`Matrix_NewFromPyBuffer(V, MAX(id,DOUBLE), ..)`: a hard type request where -1 means 'take the buffer's type'",
}
out = ["| seed | change | caught by |", "|------|--------|-----------|"]
for seed in sorted(res):
    meta = json.load(open("/verif/seeded/%s/meta.json" % seed))
    summ = " ".join(str(meta.get("summary", "")).split())
    summ = summ.replace("|", "/")[:170]
    by, rules = res[seed]
    if by:
        rs = sorted({r.rstrip(",") for _, r in rules})
        out.append("| %s | %s | %s |" % (seed, summ, ", ".join(rs)[:90]))
    else:
        out.append("| %s | %s | **missed** - %s |" % (seed, summ, MISS.get(seed, "?")))
print("\n".join(out))
print("CAUGHT", sum(1 for s in res if res[s][0]), "of", len(res), file=sys.stderr)
idx = json.load(open("/verif/seeded/INDEX.json"))
for seed, (by, rules) in res.items():
    idx[seed] = sorted(by.split(",")) if by else []
json.dump(idx, open("/verif/seeded/INDEX.json", "w"), indent=1, sort_keys=True)
