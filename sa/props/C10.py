"""C10 - numerical failures inside a solve are contained and reported as documented.

Static rules (see DESIGN.md section 3, C10).  Decides the *structural* part: every KKT
factor/solve call site is protected, handlers end in the documented outcomes, the
exception vocabulary is closed, no accidental NameError/AttributeError/UnboundLocalError/
TypeError can leave a solver, the line search checks F's refusals."""
import ast

from .. import pyfront as pf
from .. import solvers_common as sc
from ..core import Check, AnalysisError
from ..defassign import Analyzer
from ..world import World, bind_call

SOLVER_MODULES = ["coneprog", "cvxprog", "misc"]


def flag_reach(cfg, src, dst, avoid):
    """Flag-sensitive reachability: is there a path src ->* dst avoiding `avoid`,
    where simple constant flags (`name = True/False/None/int/str` and tests `name`,
    `not name`) are tracked along the path."""
    start = (src, frozenset())
    seen = {start}
    st = [start]
    while st:
        node, envf = st.pop()
        if node == dst:
            return True
        env = dict(envf)
        s, kind = cfg.node_stmt[node], cfg.kind[node]
        if kind == "stmt" and isinstance(s, ast.Assign) and len(s.targets) == 1 \
                and isinstance(s.targets[0], ast.Name):
            if isinstance(s.value, ast.Constant):
                env[s.targets[0].id] = s.value.value
            else:
                env.pop(s.targets[0].id, None)
        elif s is not None:
            for nm in pf.stmt_defs(s, kind):
                env.pop(nm, None)
        allowed = None
        if kind == "test":
            t = s.test
            neg = False
            if isinstance(t, ast.UnaryOp) and isinstance(t.op, ast.Not):
                t, neg = t.operand, True
            if isinstance(t, ast.Name) and t.id in env:
                allowed = "true" if bool(env[t.id]) != neg else "false"
        for v in cfg.succ[node]:
            lab = cfg.edge_label.get((node, v))
            if allowed and lab in ("true", "false") and lab != allowed:
                continue
            if v in avoid:
                continue
            ns = (v, frozenset(env.items()))
            if ns not in seen:
                seen.add(ns)
                st.append(ns)
    return False


def none_guarded(sub, var, stop=None):
    """Is this load of `var[...]` evaluated only when var is not None?"""
    # short-circuit inside a boolean expression
    n = sub
    while n is not None and not isinstance(n, ast.stmt):
        p = getattr(n, "_parent", None)
        if isinstance(p, ast.BoolOp):
            idx = [i for i, v in enumerate(p.values) if v is n or pf._within(n, v)]
            if idx:
                before = p.values[:idx[0]]
                for b in before:
                    pr = pf.prop_of(b)
                    if isinstance(p.op, ast.Or) and repr(pr) == "(%s is None)" % var:
                        return True
                    if isinstance(p.op, ast.And) and repr(pr) == "!((%s is None))" % var:
                        return True
        if isinstance(p, ast.IfExp) and (n is p.body or n is p.orelse):
            pr = pf.prop_of(p.test)
            if n is p.orelse and repr(pr) == "(%s is None)" % var:
                return True
            if n is p.body and repr(pr) == "!((%s is None))" % var:
                return True
        n = p
    conds = pf.path_condition(sub)
    if not conds:
        return False
    prem = pf.P_and(*conds)
    return pf.implies(prem, pf.P_not(pf.P_atom("(%s is None)" % var))) is True


def build(tier, repo):
    chk = Check(
        "C10", tier, repo,
        explanation=(
            "Static analysis (Python ast, hand-built CFG, path-sensitive definite-assignment, "
            "name/attribute/call resolution across the package and the C method tables). "
            "Decides structural necessary conditions of C10: (R1) every call to the KKT solver, "
            "to a solve routine it returned, or to a nested helper that reaches one, made from "
            "conelp/coneqp/cpl, is inside try/except ArithmeticError; (R2) each such handler "
            "ends only in the documented ValueError (first iteration) or an 'unknown' result "
            "with the solver's full field set after the same symmetrise/max_step epilogue, or "
            "in cpl's protected retry - never 'optimal'; (R3) every raise in the solver modules "
            "resolves to TypeError/ValueError (ArithmeticError in misc); (R4) no unresolved "
            "name or module attribute, no possibly-unassigned local, no call that its resolved "
            "def rejects, in any solver-module function; (R5) F's refusals (None) are tested "
            "before the result is used in the line search. NOT decided: that s,z are "
            "numerically interior in the 'unknown' result."),
        trusted_base=["CPython ast", "clang 14 (PyMethodDef tables of the C modules)",
                      "sa/pyfront.py CFG + dataflow", "documented callback contracts"],
        assumptions=["user callbacks raise only ArithmeticError for numerical failure",
                     "no dynamic attribute injection beyond the static ones in __init__.py/solvers.py",
                     "mosek/glpk/dsdp attribute accesses are external and not resolved"])
    w = World(repo)
    mods = w.mods

    # ---------------------------------------------------------------- R1
    r1 = chk.rule("C10-R1", "every KKT factor/solve call site in conelp/coneqp/cpl is inside "
                  "try/except ArithmeticError",
                  "failure 'at any point of a solve' does not escape")
    r2 = chk.rule("C10-R2", "ArithmeticError handlers end in ValueError(first iteration) / "
                  "'unknown' result with full field set and epilogue / protected retry; never 'optimal'",
                  "reported as documented, never 'optimal' on its account")
    nfun = 0
    for mn, fnn in sc.SOLVERS:
        fn = w.func(mn, fnn)
        m = mods[mn]
        nfun += 1
        kkt, sites = sc.kkt_call_sites(fn)
        if len(sites) < 3:
            raise AnalysisError("%s.%s: only %d KKT call sites found" % (mn, fnn, len(sites)))
        tries = []
        for c in sites:
            key = "%s:%s" % (fnn, pf.norm_expr(c))
            t = sc.protecting_try(c, fn)
            if t is None:
                r1.violation(key, m.where(c, fn),
                             "KKT call is not inside try/except ArithmeticError: an "
                             "ArithmeticError raised by the factorisation/solve escapes the solver",
                             expected="enclosing try with `except ArithmeticError` (as the sibling call sites)",
                             observed="unprotected call `%s`" % m.seg(c))
            else:
                r1.ok(key, m.where(c, fn), "protected by try at line %d" % t.lineno)
                if t not in tries:
                    tries.append(t)
        # ------------------------------------------------------------ R2
        cfg = pf.CFG(fn)
        loop = sc.main_loop(fn)
        if loop is None:
            raise AnalysisError("%s.%s: main loop `for iters in range(...)` not found" % (mn, fnn))
        itn = loop.target.id
        rets = sc.returns_of(fn)
        rd_status = {}
        # the regular 'unknown' return (iteration limit): inside an `if` on iters == MAXITERS
        normal_unknown = None
        for r in rets:
            sv = sc.status_values(r, fn, cfg)
            if sv and "unknown" in sv and sc.protecting_try(r, fn) is None and \
                    not any(isinstance(p, ast.ExceptHandler) for p in _parents(r, fn)):
                normal_unknown = r
                break
        if normal_unknown is None:
            raise AnalysisError("%s.%s: iteration-limit 'unknown' return not found" % (mn, fnn))
        normal_keys = set(pf.dict_literal_items(normal_unknown.value))
        stop_if = _outermost_if_in_loop(normal_unknown, loop)
        normal_epi = sc.epilogue_calls(sc.preceding_in_blocks(normal_unknown, stop_if if stop_if else loop))
        normal_epi = [e for e in normal_epi]
        for t in tries:
            for h in t.handlers:
                if not sc.handler_catches(h, "ArithmeticError"):
                    continue
                in_loop = pf._within(t, loop)
                hkey = "%s:handler@try(%s)" % (fnn, pf.norm_expr(_first_call(t)))
                n_out = 0
                for node in _own_walk(h.body):
                    if isinstance(node, ast.Return):
                        n_out += 1
                        sv = sc.status_values(node, fn, cfg)
                        k = hkey + ":return"
                        if sv is None:
                            r2.violation(k, m.where(node, fn), "handler returns something that is not a "
                                         "result dictionary with a status", "dict with 'status': 'unknown'", m.seg(node)[:80])
                            continue
                        if sv != {"unknown"}:
                            r2.violation(k + ":status", m.where(node, fn),
                                         "a return inside the ArithmeticError handler can carry status %s" % sorted(sv),
                                         expected="{'unknown'}", observed=sorted(sv))
                        else:
                            r2.ok(k + ":status", m.where(node, fn), "status in {'unknown'}")
                        keys = set(pf.dict_literal_items(node.value))
                        if keys != normal_keys:
                            r2.violation(k + ":keys", m.where(node, fn),
                                         "result of the failure path has a different field set than the "
                                         "solver's regular 'unknown' result",
                                         expected=sorted(normal_keys), observed=sorted(keys))
                        else:
                            r2.ok(k + ":keys", m.where(node, fn), "%d keys" % len(keys))
                        epi = sc.epilogue_calls(sc.preceding_in_blocks(node, h))
                        missing = [e for e in normal_epi if e not in epi]
                        if missing:
                            r2.violation(k + ":epilogue", m.where(node, fn),
                                         "failure-path result is not finalised like the regular result "
                                         "(rescale / symmetrise 's' blocks / recompute slacks)",
                                         expected=normal_epi, observed=epi)
                        else:
                            r2.ok(k + ":epilogue", m.where(node, fn), epi)
                    elif isinstance(node, ast.Raise):
                        n_out += 1
                        k = hkey + ":raise"
                        tgt = node.exc.func if isinstance(node.exc, ast.Call) else node.exc
                        nm = tgt.id if isinstance(tgt, ast.Name) else None
                        if nm != "ValueError":
                            r2.violation(k + ":type", m.where(node, fn), "handler raises %s" % nm,
                                         "ValueError (documented rank message)", nm)
                            continue
                        if in_loop:
                            conds = pf.path_condition(node, stop=h)
                            prem = pf.P_and(*conds) if conds else pf.P_TRUE
                            atoms = ["(0 == %s)" % itn, "(%s == 0)" % itn]
                            goal = pf.P_atom(sorted(["0", itn])[0] and "(%s == %s)" % tuple(sorted(["0", itn])))
                            if pf.implies(prem, goal) is True:
                                r2.ok(k + ":first-iteration", m.where(node, fn), repr(prem))
                            else:
                                r2.violation(k + ":first-iteration", m.where(node, fn),
                                             "ValueError('Rank...') raised from the handler on a path that "
                                             "is not restricted to the first iteration",
                                             expected="path condition implies %s == 0" % itn, observed=repr(prem))
                        else:
                            r2.ok(k + ":startup", m.where(node, fn), "before the main loop")
                # fall-through: only through a (protected) KKT retry
                hnode = [n for n in cfg.nodes() if cfg.node_stmt[n] is h and cfg.kind[n] == "handler"]
                after = _first_node_after(cfg, t)
                if hnode and after is not None:
                    retry = {cfg.node_of(pf.enclosing_stmt(c)) for c in sites if pf._within(c, h)}
                    retry.discard(None)
                    if flag_reach(cfg, hnode[0], after, avoid=retry | {1, 2}):
                        r2.violation(hkey + ":fallthrough", m.where(h, fn),
                                     "the ArithmeticError handler can complete normally without a "
                                     "successful retry: the iteration continues with a failed factorisation",
                                     expected="every handler path ends in raise ValueError / return 'unknown' / protected retry",
                                     observed="path from handler to line %d" % getattr(cfg.node_stmt[after], "lineno", 0))
                    else:
                        r2.ok(hkey + ":fallthrough", m.where(h, fn), "no silent fall-through")
    r2b = chk.rule("C10-R2b", "block-offset discipline inside the ArithmeticError handlers (symmetrisation of the returned iterates)",
                   "'unknown' result carries symmetrised iterates inside the cone")
    from .. import rules_common as rc

    def in_handler(node):
        p = node
        while p is not None:
            if isinstance(p, ast.ExceptHandler):
                return True
            p = getattr(p, "_parent", None)
        return False
    rc.offsets_rule(r2b, w, [(mn, fnn) for mn, fnn in sc.SOLVERS], node_filter=in_handler)
    r2b.require(10)
    r1.require(12)
    r2.require(20)
    chk.note_analysed("solver_functions", nfun)

    # ---------------------------------------------------------------- R3
    r3 = chk.rule("C10-R3", "every raise in coneprog/cvxprog/misc resolves to TypeError/ValueError "
                  "(ArithmeticError only in misc)", "only TypeError/ValueError leave a solver")
    for mn in SOLVER_MODULES:
        m = mods[mn]
        allowed = {"TypeError", "ValueError"} | ({"ArithmeticError"} if mn == "misc" else set())
        for n in ast.walk(m.tree):
            if not isinstance(n, ast.Raise):
                continue
            fn = pf.enclosing_function(n)
            q = getattr(fn, "_qualname", "<module>")
            if n.exc is None:
                r3.ok("%s:%s:reraise" % (mn, q), m.where(n))
                continue
            tgt = n.exc.func if isinstance(n.exc, ast.Call) else n.exc
            key = "%s.%s:raise %s" % (mn, q, pf.norm_expr(tgt))
            if isinstance(tgt, ast.Name):
                kind, _ = pf.resolve_name(tgt, m)
                if kind == "unresolved":
                    r3.violation(key, m.where(n), "raise target '%s' does not resolve to any binding: "
                                 "executing this statement raises NameError instead" % tgt.id,
                                 expected="a builtin exception class", observed="unresolved name")
                elif kind == "builtin" and tgt.id in allowed:
                    r3.ok(key, m.where(n))
                else:
                    r3.violation(key, m.where(n), "solver module raises %s (%s)" % (tgt.id, kind),
                                 expected=sorted(allowed), observed=tgt.id)
            else:
                r3.undecided(key, m.where(n), "raise target is not a simple name")
    r3.require(100)

    # ---------------------------------------------------------------- R4
    r4a = chk.rule("C10-R4a", "every name and every cvxopt-module attribute used in the solver "
                   "modules resolves to a binding", "no NameError/AttributeError leaves a solver")
    scope_mods = SOLVER_MODULES + ["solvers"]
    n_names = 0
    for mn in scope_mods:
        m = mods[mn]
        for n in ast.walk(m.tree):
            if isinstance(n, ast.Name) and isinstance(n.ctx, ast.Load):
                par = getattr(n, "_parent", None)
                if isinstance(par, ast.Raise) or (isinstance(par, ast.Call) and isinstance(getattr(par, "_parent", None), ast.Raise) and par.func is n):
                    continue     # raise targets are R3's
                n_names += 1
                kind, _ = pf.resolve_name(n, m)
                if kind == "unresolved" and n.id not in ("__file__", "__name__", "__doc__"):
                    fn = pf.enclosing_function(n)
                    r4a.violation("%s.%s:name %s" % (mn, getattr(fn, "_qualname", "<module>"), n.id),
                                  m.where(n), "name '%s' is not bound in any enclosing scope, the module, "
                                  "or builtins (NameError when executed)" % n.id, "a binding", "none")
            elif isinstance(n, ast.Attribute):
                r = w.resolve_attr_chain(n, m)
                if r is None or r[2] is None:
                    continue
                fn = pf.enclosing_function(n)
                key = "%s.%s:attr %s.%s" % (mn, getattr(fn, "_qualname", "<module>"), r[0] or "cvxopt", r[1])
                if r[2]:
                    r4a.ok(key, m.where(n))
                else:
                    r4a.violation(key, m.where(n), "module cvxopt.%s has no attribute '%s' "
                                  "(AttributeError when executed)" % (r[0], r[1]),
                                  expected="an exported name of cvxopt.%s" % r[0], observed="not exported")
            elif isinstance(n, ast.ImportFrom) and n.module and n.module.split(".")[0] == "cvxopt" and n.level == 0:
                parts = n.module.split(".")
                sub = parts[1] if len(parts) > 1 else ""
                ex = w.exports(sub) if (sub == "" or sub in w.mods or sub in ("base", "blas", "lapack", "misc_solvers")) else None
                for a in n.names:
                    key = "%s:import %s.%s" % (mn, n.module, a.name)
                    if ex is None:
                        continue
                    if a.name in ex or a.name == "*":
                        r4a.ok(key, m.where(n))
                    else:
                        r4a.violation(key, m.where(n), "cannot import name '%s' from %s" % (a.name, n.module),
                                      "exported name", "missing")
    chk.note_analysed("name_loads_resolved", n_names)
    r4a.require(400)

    r4b = chk.rule("C10-R4b", "no local variable of a solver-module function can be read "
                   "before assignment on a feasible path (path-sensitive)",
                   "no UnboundLocalError leaves a solver")
    targets = []
    for mn in SOLVER_MODULES:
        for q, fn in mods[mn].funcs.items():
            targets.append((mn, q, fn))
    for q in ("op.solve",):
        targets.append(("modeling", q, w.func("modeling", q)))
    ncand = 0
    for mn, q, fn in targets:
        m = mods[mn]
        an = Analyzer(fn, m)
        cands = an.candidates()
        seen_keys = set()
        for var, node, u in cands:
            ncand += 1
            verdict, detail = an.classify(var, node)
            st = an.cfg.node_stmt[node]
            key = "%s.%s:%s@%s" % (mn, q, var, pf.norm_expr(st.test if an.cfg.kind[node] == "test" else
                                                             st.iter if an.cfg.kind[node] == "iter" else st)[:80]
                                  if not isinstance(st, (ast.FunctionDef, ast.ExceptHandler)) else getattr(st, "name", "handler"))
            if key in seen_keys:
                continue
            seen_keys.add(key)
            if verdict == "ok":
                r4b.ok(key, m.where(u, fn), "no feasible def-free path")
            elif verdict == "violation":
                r4b.violation(key, m.where(u, fn),
                              "local '%s' may be read before assignment: %s" % (var, detail),
                              expected="a definition on every feasible path", observed=detail)
            else:
                r4b.undecided(key, m.where(u, fn), detail)
        if not cands:
            r4b.ok("%s.%s:all-locals" % (mn, q), "src/python/%s.py:%s" % (mn, q), "no candidate")
    chk.note_analysed("functions_definite_assignment", len(targets))
    chk.note_analysed("definite_assignment_candidates", ncand)
    r4b.require(100)

    r4c = chk.rule("C10-R4c", "every call from a solver module to a resolved in-package Python "
                   "def (module function, nested def, or the nested def a kkt_* factory returns) "
                   "binds against that def's signature", "no accidental TypeError leaves a solver")
    for mn in ["coneprog", "cvxprog", "misc"]:
        m = mods[mn]
        for q, fn in m.funcs.items():
            _check_calls(w, m, fn, r4c)
    r4c.require(110)

    # ---------------------------------------------------------------- R5
    r5 = chk.rule("C10-R5", "line search in cpl: F(newx)'s refusal (None / (None, ..)) is tested "
                  "before the result is used; later evaluations are dominated by that test and "
                  "the step only shrinks in between; cp's F_e maps refusals to (None, None)",
                  "backtracks into the domain instead of failing")
    _check_domain(w, r5)
    r5.require(3)
    from .. import solver_rules as sr5
    r6 = chk.rule("C10-R6", "the validation of a supplied initial s and of a supplied initial z are mirror images (s<->z, primalstart<->dualstart)",
                  "argument errors (a starting point outside the cone) raise ValueError before the iteration; s, z stay interior")
    chk.note_analysed("start_validations", sr5.start_mirror_rule(r6, w, [("coneprog", "conelp"), ("coneprog", "coneqp")]))
    r6.require(1)
    return chk


def _parents(n, stop):
    p = getattr(n, "_parent", None)
    while p is not None and p is not stop:
        yield p
        p = getattr(p, "_parent", None)


def _own_walk(stmts):
    st = list(reversed(stmts))
    while st:
        n = st.pop()
        yield n
        if isinstance(n, (ast.FunctionDef, ast.ClassDef, ast.Lambda)):
            continue
        st.extend(reversed(list(ast.iter_child_nodes(n))))


def _first_call(t):
    for s in t.body:
        for n in ast.walk(s):
            if isinstance(n, ast.Call):
                return n
    return t.body[0]


def _outermost_if_in_loop(node, loop):
    last = None
    for p in _parents(node, loop):
        if isinstance(p, ast.If):
            last = p
    return last


def _first_node_after(cfg, t):
    """CFG node of the statement that follows try-statement t in its block."""
    p = t._parent
    for f in ("body", "orelse", "finalbody"):
        b = getattr(p, f, None)
        if isinstance(b, list) and any(x is t for x in b):
            i = [k for k, x in enumerate(b) if x is t][0]
            if i + 1 < len(b):
                return cfg.node_of(b[i + 1])
    if isinstance(p, ast.Try):
        for h in p.handlers:
            if any(x is t for x in h.body):
                i = [k for k, x in enumerate(h.body) if x is t][0]
                if i + 1 < len(h.body):
                    return cfg.node_of(h.body[i + 1])
    return None


def _factory_result(w, call, mod):
    """If call is `misc.kkt_X(...)` (or a module-level def) whose def returns a nested
    def by name on every return, give that nested FunctionDef."""
    f = call.func
    target = None
    if isinstance(f, ast.Attribute):
        r = w.resolve_attr_chain(f, mod)
        if r and r[2] and r[0] in w.mods:
            defs = w.py_def(r[0], r[1])
            if defs and len(defs) == 1:
                target = defs[0]
    elif isinstance(f, ast.Name):
        kind, scope = pf.resolve_name(f, mod)
        if kind == "global":
            defs = [b for b in mod.exports.get(f.id, []) if isinstance(b, ast.FunctionDef)]
            if len(defs) == 1 and len(mod.exports.get(f.id, [])) == 1:
                target = defs[0]
    if target is None:
        return None
    rets = [n for n in pf._scope_nodes(target) if isinstance(n, ast.Return)]
    res = set()
    for r in rets:
        if isinstance(r.value, ast.Name):
            inner = [n for n in target.body if isinstance(n, ast.FunctionDef) and n.name == r.value.id]
            if len(inner) == 1:
                res.add(inner[0])
                continue
        return None
    return res.pop() if len(res) == 1 else None


def _check_calls(w, m, fn, rule):
    mn = m.name
    q = fn._qualname
    binds = w.scope_bindings(fn, m)
    for c in pf._scope_nodes(fn):
        if not isinstance(c, ast.Call):
            continue
        f = c.func
        cands = []      # list of (FunctionDef, label)
        if isinstance(f, ast.Attribute):
            r = w.resolve_attr_chain(f, m)
            if r and r[2] and r[0] in w.mods:
                defs = w.py_def(r[0], r[1])
                if defs and len(defs) == len(w.mods[r[0]].exports.get(r[1], [])):
                    # switched names (if use_C: x = C.x else: def x) have a non-def binding: skipped
                    cands = [(d, "%s.%s" % (r[0], r[1])) for d in defs]
        elif isinstance(f, ast.Name):
            kind, scope = pf.resolve_name(f, m)
            if kind in ("local", "enclosing"):
                bl = w.scope_bindings(scope, m).get(f.id, [])
                if bl and all(isinstance(b, ast.FunctionDef) for b in bl):
                    cands = [(b, f.id) for b in bl]
                elif bl and all(isinstance(b, ast.Assign) and isinstance(b.value, ast.Call) for b in bl):
                    res = [_factory_result(w, b.value, m) for b in bl]
                    if all(x is not None for x in res):
                        cands = [(x, "%s<-%s" % (f.id, pf.call_name(b.value))) for x, b in zip(res, bl)]
            elif kind == "global":
                bl = m.exports.get(f.id, [])
                if bl and all(isinstance(b, ast.FunctionDef) for b in bl):
                    cands = [(b, f.id) for b in bl]
        for d, label in cands:
            ok, msg, _ = bind_call(c, d)
            key = "%s.%s:call %s as %s" % (mn, q, pf.norm_expr(c)[:70], label)
            if ok is None:
                rule.undecided(key, m.where(c, fn), msg)
            elif ok:
                rule.ok(key, m.where(c, fn))
            else:
                rule.violation(key, m.where(c, fn),
                               "call does not bind against def %s%s at line %d: %s (TypeError when executed)"
                               % (d.name, "(" + ", ".join(pf.arg_names(d)) + ")", d.lineno, msg),
                               expected="arguments accepted by the def", observed=m.seg(c)[:100])


def _check_domain(w, rule):
    m = w.mods["cvxprog"]
    fn = w.func("cvxprog", "cpl")
    loop = sc.main_loop(fn)
    if loop is None:
        raise AnalysisError("cpl main loop missing")
    sites = []
    for n in ast.walk(loop):
        if isinstance(n, ast.Call) and isinstance(n.func, ast.Name) and n.func.id == "F" \
                and len(n.args) == 1 and not n.keywords and pf.enclosing_function(n) is fn:
            sites.append(n)
    def is_trial_point(call):
        """the argument is a trial point: written by `xaxpy(<dir>, arg, alpha = step)` in
        the same loop body (x + step*dx), i.e. a point whose membership of dom F is unknown"""
        a = call.args[0]
        if not isinstance(a, ast.Name):
            return False
        reg = next((p for p in _parents(call, fn) if isinstance(p, (ast.While, ast.For))), None)
        if reg is loop:
            return False     # evaluation at the accepted iterate, not in the line search
        for n in ast.walk(reg) if reg is not None else []:
            if isinstance(n, ast.Call) and pf.call_name(n) == "xaxpy" and len(n.args) >= 2 \
                    and isinstance(n.args[1], ast.Name) and n.args[1].id == a.id \
                    and any(k.arg == "alpha" for k in n.keywords):
                return True
        return False
    sites = [c for c in sites if is_trial_point(c)]
    if len(sites) < 2:
        raise AnalysisError("cpl: expected the line-search F(newx) call sites, found %d" % len(sites))
    checked = []
    for c in sorted(sites, key=lambda x: x.lineno):
        st = pf.enclosing_stmt(c)
        key = "cpl:%s" % pf.norm_expr(st)
        ok = False
        why = ""
        if isinstance(st, ast.Assign) and len(st.targets) == 1 and isinstance(st.targets[0], ast.Name):
            t = st.targets[0].id
            wl = next((p for p in _parents(st, fn) if isinstance(p, ast.While)), None)
            region = wl if wl is not None else st._parent
            subs = [s for s in ast.walk(region) if isinstance(s, ast.Subscript) and isinstance(s.value, ast.Name)
                    and s.value.id == t and s.lineno >= st.lineno and pf.enclosing_function(s) is fn]
            unguarded = [s for s in subs if not none_guarded(s, t)]
            if subs and not unguarded and wl is not None:
                # the component newf = t[0] must be None-tested before the loop can stop
                firsts = set()
                for a in ast.walk(wl):
                    if isinstance(a, ast.Assign):
                        tg, vals = a.targets[0], a.value
                        pairs = list(zip(tg.elts, vals.elts)) if isinstance(tg, ast.Tuple) and isinstance(vals, ast.Tuple) else [(tg, vals)]
                        for x, v in pairs:
                            if isinstance(x, ast.Name) and isinstance(v, ast.Subscript) and isinstance(v.value, ast.Name) \
                                    and v.value.id == t and isinstance(v.slice, ast.Constant) and v.slice.value == 0:
                                firsts.add(x.id)
                flag = wl.test.id if isinstance(wl.test, ast.Name) else None
                exits = [a for a in ast.walk(wl) if isinstance(a, ast.Assign) and isinstance(a.targets[0], ast.Name)
                         and a.targets[0].id == flag and isinstance(a.value, ast.Constant) and a.value.value is False]
                good = bool(firsts) and bool(exits)
                for e in exits:
                    conds = pf.path_condition(e, stop=wl)
                    prem = pf.P_and(*conds) if conds else pf.P_TRUE
                    if not any(pf.implies(prem, pf.P_not(pf.P_atom("(%s is None)" % f0))) is True for f0 in firsts):
                        good = False
                        why = "loop can stop (`%s = False`) without %s being tested non-None" % (flag, "/".join(sorted(firsts)))
                if good:
                    ok = True
            elif unguarded:
                why = "result `%s` is subscripted without a None test" % t
        if ok:
            checked.append(c)
            rule.ok(key + ":none-tested", m.where(c, fn), "refusal tested in the backtracking loop")
        else:
            # must be dominated by a checked site in the same `for i` iteration
            dom = [k for k in checked if k.lineno < c.lineno and _same_inner_for(k, c, fn)]
            if dom:
                bad = _step_growth_between(dom[-1], c, fn)
                if bad:
                    rule.violation(key + ":dominated", m.where(c, fn),
                                   "F(newx) is evaluated without a refusal test after the step was changed "
                                   "by something other than a shrink", "step *= <const in (0,1)> only", bad)
                else:
                    rule.ok(key + ":dominated", m.where(c, fn),
                            "dominated by the tested evaluation at line %d; step only shrinks" % dom[-1].lineno)
            else:
                rule.violation(key + ":none-tested", m.where(c, fn),
                               "result of F(newx) is used without testing for a refusal (None): %s" % why,
                               "`if t is None` / `t[0] is None` handled before use, or domination by a tested evaluation",
                               m.seg(st)[:80])
    # cp.F_e
    fe = w.func("cvxprog", "cp.F_e")
    for n in pf._scope_nodes(fe):
        if isinstance(n, ast.Call) and isinstance(n.func, ast.Name) and n.func.id == "F" and len(n.args) == 1:
            st = pf.enclosing_stmt(n)
            if isinstance(st, ast.Assign) and isinstance(st.targets[0], ast.Name):
                t = st.targets[0].id
                subs = [s for s in pf._scope_nodes(fe) if isinstance(s, ast.Subscript) and isinstance(s.value, ast.Name)
                        and s.value.id == t]
                ung = [s for s in subs if not none_guarded(s, t)]
                # a refusal must produce (None, None)
                rets = [r for r in pf._scope_nodes(fe) if isinstance(r, ast.Return) and isinstance(r.value, ast.Tuple)
                        and all(isinstance(e, ast.Constant) and e.value is None for e in r.value.elts)]
                key = "cp.F_e:%s" % pf.norm_expr(st)
                # value uses of the first component must also exclude the (None, ..) refusal
                comp_bad = []
                for sb in subs:
                    if isinstance(sb.slice, ast.Constant) and sb.slice.value == 0 and not isinstance(sb._parent, ast.Compare):
                        conds = pf.path_condition(sb)
                        prem = pf.P_and(*conds) if conds else pf.P_TRUE
                        if pf.implies(prem, pf.P_not(pf.P_atom("(%s[0] is None)" % t))) is not True:
                            comp_bad.append(sb)
                if ung:
                    rule.violation(key, m.where(n, fe), "F's result subscripted without None test", "guarded", m.seg(ung[0]))
                elif comp_bad:
                    rule.violation(key + ":component", m.where(comp_bad[0], fe),
                                   "the first component of F's result is used as a value on a path that does not "
                                   "exclude the documented (None, None) refusal", "`%s[0] is None` handled before use" % t,
                                   m.seg(pf.enclosing_stmt(comp_bad[0]))[:80])
                elif not rets:
                    rule.violation(key, m.where(n, fe), "no `return None, None` for a refused point", "return None, None", "absent")
                else:
                    cond = pf.path_condition(rets[0])
                    rule.ok(key, m.where(n, fe), "refusal -> (None, None)")


def _same_inner_for(a, b, fn):
    fa = next((p for p in _parents(a, fn) if isinstance(p, ast.For)), None)
    fb = next((p for p in _parents(b, fn) if isinstance(p, ast.For)), None)
    return fa is not None and fa is fb


def _step_growth_between(a, b, fn):
    """Assignments to `step` lexically between call a and call b that are not shrinks."""
    forp = next((p for p in _parents(a, fn) if isinstance(p, ast.For)), None)
    consts = {}
    for s in fn.body:
        if isinstance(s, ast.Assign) and isinstance(s.value, ast.Constant) and isinstance(s.targets[0], ast.Name):
            consts[s.targets[0].id] = s.value.value
    bad = []
    for n in ast.walk(forp):
        if getattr(n, "lineno", 0) <= a.lineno or getattr(n, "lineno", 0) >= b.lineno:
            continue
        if isinstance(n, ast.AugAssign) and isinstance(n.target, ast.Name) and n.target.id == "step":
            v = n.value
            c = consts.get(v.id) if isinstance(v, ast.Name) else (v.value if isinstance(v, ast.Constant) else None)
            if not (isinstance(n.op, ast.Mult) and isinstance(c, (int, float)) and 0 < c < 1):
                bad.append("line %d: %s" % (n.lineno, ast.unparse(n)))
        elif isinstance(n, ast.Assign):
            for t in n.targets:
                names = [x.id for x in ast.walk(t) if isinstance(x, ast.Name) and isinstance(x.ctx, ast.Store)]
                if "step" in names:
                    src = ast.unparse(n.value)
                    if "step0" not in src:
                        bad.append("line %d: %s" % (n.lineno, ast.unparse(n)))
    return bad
