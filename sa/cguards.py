"""Guard-vs-footprint analysis of the BLAS wrappers (C17-R5 / C19-R1,R2): for every call
to a Fortran BLAS routine reached under a case, every array actual `BUF(X) + off` must
be covered by a dominating rejecting guard whose polynomial equals the reference
footprint of that parameter instantiated with the call's actuals:
        off + footprint <= len(X)      and   off >= 0,   ld >= max(1, rows)."""
from . import cexpr as cx
from . import cfront as cf
from . import cmodel as cm
from . import kb_blas as kb
from .poly import Poly

BUF_MACROS = {"MAT_BUFD": 1, "MAT_BUFZ": 1, "MAT_BUFI": 1, "MAT_BUF": 0, "SP_VALD": 1, "SP_VALZ": 1}


def simplify(e, case):
    """resolve ternaries / sub-conditions decidable under the case"""
    if not isinstance(e, tuple):
        return e
    k = e[0]
    if k == "tern":
        v = cm.peval(e[1], case)
        if v is True:
            return simplify(e[2], case)
        if v is False:
            return simplify(e[3], case)
        return ("tern", e[1], simplify(e[2], case), simplify(e[3], case))
    if k == "bin":
        return ("bin", e[1], simplify(e[2], case), simplify(e[3], case))
    if k == "un":
        return ("un", e[1], simplify(e[2], case))
    if k == "cast":
        return simplify(e[2], case)
    if k == "call":
        return ("call", e[1], [simplify(a, case) for a in e[2]])
    return e


def array_actual(e):
    """`MAT_BUFD(A) + oA` -> ('A', offset Poly, macro) ; None if not of that shape"""
    e = cx.strip_casts(e)
    if e[0] == "call" and e[1] in BUF_MACROS and len(e[2]) == 1 and e[2][0][0] == "id":
        return (e[2][0][1], Poly.const(0), e[1])
    if e[0] == "bin" and e[1] == "+":
        l, r = cx.strip_casts(e[2]), cx.strip_casts(e[3])
        if l[0] == "call" and l[1] in BUF_MACROS and len(l[2]) == 1 and l[2][0][0] == "id":
            off = cx.to_poly(r)
            if off is not None:
                return (l[2][0][1], off, l[1])
        if l[0] == "bin" and l[1] == "+":
            inner = array_actual(l)
            off = cx.to_poly(r)
            if inner and off is not None:
                return (inner[0], inner[1] + off, inner[2])
    return None


def scalar_var(e):
    """`&n` -> 'n' ; `&a.d` -> None"""
    e = cx.strip_casts(e)
    if e[0] == "un" and e[1] == "&" and e[2][0] == "id":
        return e[2][1]
    return None


def global_sign_facts(sim):
    """Unconditional top-level rejecting guards that are single comparisons with a
    constant: {var: set of relations established}  e.g. ix: {'>0'}, ox: {'>=0'}"""
    out = {}
    for st in sim.body.get("c", []):
        if st.get("k") != "IfStmt" or len(st.get("c", [])) < 2 or not cm.is_error_exit(st["c"][1]):
            continue
        c = sim.cond_of(st)
        if c is None:
            continue
        atoms = []

        def disj(e):
            if e[0] == "bin" and e[1] == "||":
                disj(e[2])
                disj(e[3])
            else:
                atoms.append(e)
        disj(c)
        for a in atoms:
            a = cx.strip_casts(a)
            if a[0] == "bin" and a[1] in cm.CMP:
                l, r = cx.strip_casts(a[2]), cx.strip_casts(a[3])
                if l[0] == "id" and r[0] == "num":
                    rel = None
                    if (a[1], r[1]) in (("<=", 0), ("<", 1)):
                        rel = ">0"
                    elif (a[1], r[1]) in (("<", 0), ("<=", -1)):
                        rel = ">=0"
                    elif (a[1], r[1]) == ("==", 0):
                        rel = "!=0"
                    if rel and len(atoms) == 1:
                        out.setdefault(l[1], set()).add(rel)
    return out


def check_site(site, sim, gfacts, exact=True):
    """-> list of (status, what, detail, expected, observed) for one call site.
    status: ok / violation / undecided"""
    res = []
    base = kb.lookup(site.callee)
    if base is None:
        return [("undecided", "routine %s" % site.callee, "no reference entry", None, None)]
    params = kb.ROUTINES[base]
    if len(params) != len(site.args):
        return [("undecided", "routine %s" % site.callee,
                 "argument count %d differs from the reference %d" % (len(site.args), len(params)), None, None)]
    case = site.case
    vals, flags, zero = {}, {}, set()
    arrays = {}
    for (pname, role), a in zip(params, site.args):
        if a is None:
            return [("undecided", "%s:%s" % (site.callee, pname), "argument text not parsed", None, None)]
        if role in ("dim", "ld", "inc"):
            v = scalar_var(a)
            if v is None:
                return [("undecided", "%s:%s" % (site.callee, pname), "scalar actual is not `&var`", None, cx.unparse(a))]
            vals[pname] = Poly.sym(v)
            if role == "dim" and case.signs.get(v) == 0:
                zero.add(pname)
            vals["#var:" + pname] = v
        elif role == "flag":
            v = scalar_var(a)
            if v is not None and v in case.flags:
                flags[pname] = case.flags[v]
            elif a[0] == "str" and len(a[1]) == 1:
                flags[pname] = a[1]
        elif isinstance(role, tuple):
            arrays[pname] = (role, a)
    # facts with ternaries resolved under the case
    fpolys = []
    for f in site.facts:
        if f.D is not None and not f.eq and not f.ne:
            fpolys.append((f.D, f.strict, f.text))
    # re-derive D after simplification of flag-dependent ternaries
    simp = []
    for f in site.facts:
        if "?" in f.text:
            try:
                e = simplify(cx.parse(f.text), case)
                if e[0] == "bin" and e[1] in cm.CMP:
                    g = cm.Fact(e[1], e[2], e[3], cx.unparse(e))
                    if g.D is not None:
                        simp.append((g.D, g.strict, g.text))
            except cx.ParseError:
                pass
    fpolys += simp

    def absnorm(p):
        """abs(v) -> v when v > 0 is established"""
        m = {}
        for s in p.symbols():
            if s.startswith("abs(") and s.endswith(")"):
                v = s[4:-1]
                if ">0" in gfacts.get(v, ()):
                    m[s] = Poly.sym(v)
        return p.subs(m) if m else p

    for pname, (role, a) in arrays.items():
        arr = array_actual(a)
        what = "%s(%s=%s)" % (site.callee, pname, cx.unparse(a))
        if arr is None:
            res.append(("undecided", what, "array actual is not of the form BUF(X) + offset", None, None))
            continue
        X, off, macro = arr
        fp, why, rows = kb.footprint(role, vals, flags, zero)
        if fp == "?":
            res.append(("undecided", what, why, None, None))
            continue
        if fp is None:
            res.append(("ok", what, "not referenced in this case (%s)" % why, None, None))
            continue
        # a complex matrix addressed through its double view: lengths count doubles
        u = 2 if (macro == "MAT_BUFD" and case.mid == "COMPLEX") else 1
        need = absnorm(Poly.const(u) * Poly.sym("len(%s)" % X) - off - fp)       # must be >= 0
        hit = None
        weaker = None
        for D, strict, text in fpolys:
            Dn = absnorm(D)
            if "len(%s)" % X not in Dn.symbols():
                continue
            diff = need - Poly.const(u) * Dn     # need = u*Dn + diff ; want diff >= 0
            if not diff.t or (u == 2 and diff.is_const() and 0 <= diff.const_value() <= 1):
                hit = ("exact", text)
                break
            if diff.is_const():
                c = diff.const_value()
                if strict and c == -1:
                    hit = ("exact", text)       # D > 0  <=>  D - 1 >= 0
                    break
                if c >= 0 or (strict and c >= -1):
                    weaker = ("stronger-by-%s" % c, text)
                else:
                    weaker = weaker or ("too-weak-by-%s" % (-c), text)
            else:
                weaker = weaker or ("different", text)
        exp = "guard  %s + (%r) <= len(%s)" % (repr(off), fp, X)
        if hit:
            res.append(("ok", what, "guard `%s` equals offset + reference footprint %r" % (hit[1], fp), None, None))
        elif weaker and weaker[0].startswith("stronger"):
            res.append(("violation-over", what,
                        "guard `%s` rejects more than the reference footprint requires (%s)" % (weaker[1], weaker[0]), exp, weaker[1]))
        elif weaker:
            res.append(("violation", what,
                        "no dominating guard covers the reference footprint of %s in case [%r]: nearest guard `%s` (%s)"
                        % (pname, case, weaker[1], weaker[0]), exp, weaker[1]))
        else:
            res.append(("violation", what, "no dominating rejecting guard on len(%s) in case [%r]" % (X, case), exp, "none"))
        # offset >= 0
        ovars = [s for s in off.symbols()]
        for ov in ovars:
            if ">=0" in gfacts.get(ov, ()) or ">0" in gfacts.get(ov, ()):
                res.append(("ok", what + ":offset %s >= 0" % ov, "", None, None))
            else:
                res.append(("violation", what + ":offset %s >= 0" % ov, "offset `%s` is not rejected when negative" % ov,
                            "if (%s < 0) error" % ov, "no such guard"))
        # leading dimension
        if role[0] in ("mat", "band") and rows is not None:
            ldv = vals.get("#var:" + role[3])
            want = absnorm(Poly.sym(ldv) - Poly.sym("MAX(1, %s)" % _txt(rows)))
            okld = False
            seen_ld = []
            rows_ge1 = rows.const_value() >= 1 and all(v >= 0 for v in rows.t.values())
            for D, strict, text in fpolys:
                if ldv in D.symbols() and ("len(" not in repr(D)):
                    seen_ld.append(text)
                    if not (D - want).t:
                        okld = True
                    elif rows_ge1 and not (D - (Poly.sym(ldv) - rows)).t:
                        okld = True          # rows >= 1 always: MAX(1, rows) == rows
            if okld:
                res.append(("ok", what + ":ld", "%s >= MAX(1, %s)" % (ldv, _txt(rows)), None, None))
            elif fp is not None:
                res.append(("violation", what + ":ld", "leading dimension `%s` is not checked against max(1, rows=%s) in case [%r]"
                            % (ldv, _txt(rows), case), "%s >= MAX(1, %s)" % (ldv, _txt(rows)), seen_ld[:2]))
    return res


def _txt(p):
    syms = sorted(p.symbols())
    if len(syms) == 1 and p == Poly.sym(syms[0]):
        return syms[0]
    return repr(p)
