"""Rule building blocks shared by several properties."""
import ast

from . import offsets
from . import pyfront as pf


def region_filter_all(node):
    return True


def offsets_rule(rule, w, funcs, node_filter=None):
    """Run the block-offset discipline over the given (module, qualname) functions and
    record the outcomes in `rule`.  node_filter(node) restricts to a region."""
    n = 0
    for mn, q in funcs:
        m = w.mods[mn]
        if q.endswith(".*"):
            fns = [(k, f) for k, f in m.funcs.items() if k == q[:-2] or k.startswith(q[:-2] + ".")]
        elif q == "*":
            fns = list(m.funcs.items())
        else:
            fns = [(q, w.func(mn, q))]
        for qq, fn in fns:
            n += 1
            for f in offsets.analyze(fn, m, qq):
                if node_filter is not None and not node_filter(f.node):
                    continue
                key = "%s.%s" % (mn, f.key)
                where = m.where(f.node, fn)
                if f.kind == "ok":
                    rule.ok(key, where, f.detail)
                elif f.kind == "violation":
                    rule.violation(key, where, f.detail, f.expected, f.observed)
                else:
                    rule.undecided(key, where, f.detail)
    return n


# ---------------------------------------------------------------------------------------
# cone-vector norm discipline
# ---------------------------------------------------------------------------------------
U_POS = {"misc.sdot": (0, 1), "misc.snrm2": (0,), "misc.symm": (0,), "misc.max_step": (0,),
         "misc.scale": (0,), "misc.scale2": (1,), "misc.sprod": (0, 1), "misc.sinv": (0, 1),
         "misc.compute_scaling": (0, 1), "misc.pack": (0,), "misc.unpack": (1,),
         "misc.trisc": (0,), "misc.triusc": (0,), "misc.sgemv": (2,)}


def norm_discipline(rule, w, mn, q):
    """Vectors that live in the product-cone space with unpacked 's' blocks (identified
    by being handed to a cone kernel of cvxopt.misc in such a position) must be reduced
    with the cone inner product (misc.sdot/misc.snrm2: lower triangle, off-diagonals
    counted twice), never with a whole-vector blas.nrm2/blas.dot/blas.asum, which also
    reads the unreferenced upper triangles."""
    m = w.mods[mn]
    fn = w.func(mn, q)
    utyped = {}
    for c in pf._scope_nodes(fn):
        if isinstance(c, ast.Call):
            nm = pf.call_name(c)
            if nm in U_POS:
                for i in U_POS[nm]:
                    if i < len(c.args) and isinstance(c.args[i], ast.Name):
                        utyped.setdefault(c.args[i].id, c)
    # the right-hand side h of the cone inequalities is a cone-space vector by its documented role
    params = pf.arg_names(fn)
    if "h" in params and "dims" in params and "h" not in utyped:
        utyped["h"] = fn
    n = 0
    for c in pf._scope_nodes(fn):
        if not isinstance(c, ast.Call):
            continue
        nm = pf.call_name(c)
        if nm not in ("blas.nrm2", "blas.dot", "blas.asum", "blas.dotu"):
            continue
        vec = [a for a in c.args[:2 if nm in ("blas.dot", "blas.dotu") else 1] if isinstance(a, ast.Name)]
        hit = [a.id for a in vec if a.id in utyped]
        if not hit:
            continue
        n += 1
        key = "%s.%s:%s" % (mn, q, pf.norm_expr(c))
        if any(k.arg in ("n", "offset", "offsetx", "offsety", "inc", "incx", "incy") for k in c.keywords) \
                or len(c.args) > (2 if nm in ("blas.dot", "blas.dotu") else 1):
            rule.ok(key, m.where(c, fn), "sub-vector form")
        else:
            rule.violation(key, m.where(c, fn),
                           "cone-space vector `%s` (used as such in `%s`) is reduced with a whole-vector %s: "
                           "the unreferenced upper triangles of its 's' blocks enter the result"
                           % (hit[0], pf.norm_expr(utyped[hit[0]])[:60] if not isinstance(utyped[hit[0]], ast.FunctionDef) else "documented argument h with dims", nm),
                           expected="misc.snrm2 / misc.sdot with dims", observed=m.seg(c))
    for v, c in utyped.items():
        rule.ok("%s.%s:cone-vector %s" % (mn, q, v), m.where(c, fn), "typed by " + (pf.norm_expr(c)[:60] if not isinstance(c, ast.FunctionDef) else "its documented role"))
    return n


def cone_product_rule(rule, w, mn, q):
    """In a solver that takes general cones (`dims`), the constraint matrix G - whose rows for
    the 's' blocks are stored in 'L' format - is multiplied only through misc.sgemv (which
    accounts for that storage), in both directions; never through base.gemv / blas.gemv."""
    m = w.mods[mn]
    fn = w.func(mn, q)
    n = 0
    for c in ast.walk(fn):
        if not isinstance(c, ast.Call):
            continue
        nm = pf.call_name(c) or ""
        if not nm.endswith("gemv") or not c.args or not (isinstance(c.args[0], ast.Name) and c.args[0].id == "G"):
            continue
        n += 1
        tr = next((pf.norm_expr(k.value) for k in c.keywords if k.arg == "trans"), "'N'")
        key = "%s.%s:product with G (trans=%s) @%s" % (mn, q, tr, pf.enclosing_function(c).name)
        if nm == "misc.sgemv":
            rule.ok(key, m.where(c, fn), "misc.sgemv")
        else:
            rule.violation(key, m.where(c, fn),
                           "G is multiplied with %s instead of misc.sgemv: for 's' blocks in 'L' storage the product with the strictly upper "
                           "triangular entries is lost (G'z) or spurious" % nm, "misc.sgemv(G, .., dims, ..)", pf.norm_expr(c)[:70])
    return n


def alias_resolved_assigns(fn, within_top_level_only=False):
    """{target text: value text} of the assignments of fn, with local names that are bound exactly
    once to a plain reference (`ineq = inequalities[0]`) replaced by what they stand for - so that
    `ineq.multiplier.value = sol['z']` reads `inequalities[0].multiplier.value = sol['z']`."""
    import ast as _ast
    from . import pyfront as _pf
    cnt, val = {}, {}
    for s in _pf.stmts_of(fn):
        if isinstance(s, _ast.Assign):
            for t in s.targets:
                for x in ([t] if not isinstance(t, _ast.Tuple) else t.elts):
                    if isinstance(x, _ast.Name):
                        cnt[x.id] = cnt.get(x.id, 0) + 1
                        if len(s.targets) == 1 and not isinstance(t, _ast.Tuple):
                            val[x.id] = s.value
        elif isinstance(s, (_ast.AugAssign, _ast.For)):
            for x in _pf.stores_in([s]):
                cnt[x] = cnt.get(x, 0) + 2
    alias = {k: _pf.norm_expr(v) for k, v in val.items() if cnt.get(k) == 1 and isinstance(v, (_ast.Subscript, _ast.Attribute, _ast.Name))
             and not any(isinstance(y, _ast.Call) for y in _ast.walk(v))}

    import re as _re

    def res_text(t):
        """replace the leading name of a reference text by what it stands for, repeatedly"""
        for _ in range(6):
            m_ = _re.match(r"[A-Za-z_]\w*", t)
            if not m_ or m_.group(0) not in alias or alias[m_.group(0)] == m_.group(0):
                break
            t = alias[m_.group(0)] + t[m_.end():]
        return t
    out = {}
    body = fn.body if within_top_level_only else list(_ast.walk(fn))
    for s in body:
        if isinstance(s, _ast.Assign) and len(s.targets) == 1:
            out[res_text(_pf.norm_expr(s.targets[0]))] = _pf.norm_expr(s.value)
    out["__resolve__"] = res_text
    return out
