#!/venv/bin/python
"""Generate /verif/MANIFEST.json from the table below (kept valid at all times)."""
import json, os
HERE = os.path.dirname(os.path.dirname(os.path.abspath(__file__)))
BASE = json.load(open("/root/.vp/BASELINE.json"))["cmd"] if os.path.exists("/root/.vp/BASELINE.json") else \
    "cd /repo && /venv/bin/python -m pytest -ra -q -p no:cacheprovider --timeout=900 --continue-on-collection-errors"

CLAIMED = {
 "C08": dict(
    technique="static analysis: cross-implementation agreement between the compiled kernels (clang AST + case-based abstract execution) and the pure-Python fallbacks (ast + constant propagation of flag parameters): interfaces, flag decision tables, offset/buffer pairing, write-set agreement of sibling arms, block-offset algebra",
    text="That either implementation computes the mathematical definition is NOT decided. Decided: the 12 switched kernels have the same parameter names, order, optionality and defaults in the compiled wrapper and in the Python fallback and both arms of every use_C switch are bound; for every combination of flag arguments the compiled kernel and the fallback call the same BLAS/LAPACK routines with the same side/uplo/trans/diag arguments; in the compiled kernels every offset variable added to a matrix buffer belongs to that matrix and the arms of each if/else-if chain write the same argument matrices; block walks of the Python kernels advance by exactly what they touch; sgemv undoes its temporary scaling.",
    note="Trusted: clang 14, CPython ast, sa/cmodel.py, sa/offsets.py; BLAS/LAPACK (C17/C18). The missing type/length guards of the compiled kernels are recorded findings of C19.",
    ref="DESIGN.md section 3, C08"),
 "C07": dict(
    technique="static analysis: key-vocabulary agreement between Python writers/readers and the C kernels' dictionary lookups, co-update rule for inverse pairs via the effect table, saved-counterpart pairing of cpl's save/restore copies, typestate rule 'clobbered by a failed in-place factorisation => rebuild before reuse', contribution-set agreement of the assembly sites, block-offset algebra",
    text="The linear-algebra identities of C07 are numerical and NOT decided. Decided structural necessary conditions: one key vocabulary for the scaling dictionary across coneprog/cvxprog/misc and misc_solvers.c and complete key sets at every creation site; inverse pairs d/di, dnl/dnli, r/rti co-updated in every function that writes one member; cpl's save/restore copies go between each object and its own saved counterpart; in the kkt_* factories a matrix whose in-place factorisation failed is rebuilt by an overwriting operation before it is read or accumulated into, and all assembly sites of one matrix add the same contributions; block-offset discipline in compute_scaling/update_scaling/kkt_*.",
    note="Trusted: CPython ast, sa/effects.py effect table, clang for the string literals in misc_solvers.c; BLAS/LAPACK/CHOLMOD.",
    ref="DESIGN.md section 3, C07"),
 "C11": dict(
    technique="static analysis: interprocedural alias/effect analysis through attributes and containers (operands not written), return-shape rules, CFG fall-through rule for refusal paths, lost-update (swap without temporary) rule, convex/concave mirror-symmetry of statements",
    text="Static over the expression classes of modeling.py: no operator or term-merging helper writes in place to an object reachable from an argument other than self; regular operators never return an operand and in-place forms return self; every path through an operator returns a value or raises; attributes recomputed from each other go through a temporary; the convex and concave sides of every method are mirror-image code (cvx<->ccv, max<->min). It does NOT decide that value() equals the formula or that len() follows the broadcasting rule.",
    note="Trusted: CPython ast, sa/effects.py, sa/pyfront.py; cvxopt matrix operators and two-argument indexing return new objects.",
    ref="DESIGN.md section 3, C11"),
 "C12": dict(
    technique="static analysis: block-offset partition algebra (slice()/running counters), sibling-loop isomorphism under renaming (G-block ~ A-block), allocated-row-count rule for linear indices, map-completeness and back-substitution shape rules, mirror-symmetry of sum/max/min",
    text="Static over constraint._aslinearineq, op._inmatrixform, op.solve: vslc/islc/eslc are exact partitions and c,G,h,A,b are allocated with their totals; the G-block and A-block assembly loops are identical up to renaming and linear indices use the allocated row count; vmap/mmap cover every original variable, linear inequality, PWL inequality (all pieces) and equality; solve copies status/x/z/y and back-substitutes; recursive epigraph results are fully consumed; sum/max/min and the expression methods treat convex and concave terms symmetrically (broadcast scaling). It does NOT decide that the assembled LP is equivalent to the PWL problem nor dual optimality of the multipliers.",
    note="Trusted: CPython ast, sa/offsets.py; solvers.lp (C01) and the expression operators (C11).",
    ref="DESIGN.md section 3, C12"),
 "C14": dict(
    technique="static analysis: width-interval abstract interpretation of the writer's string building against the fixed MPS field table, reader slice/vocabulary extraction, loop-domain rule for row labels, constant propagation through the reader's RANGES/BOUNDS decision code over a finite abstract input set",
    text="Static over op.tofile/op.fromfile: every name and number field of every record kind the writer emits sits exactly on a fixed-format MPS field and the reader slices exactly those fields; headers and row/bound codes written are handled by the reader and unknown codes raise; row labels in COLUMNS/RHS range over the rows of the constraint they label; constant propagation through the reader's RANGES and BOUNDS code gives, for every row type x sign of R and every bound type, exactly the interval the MPS format defines; tofile refuses non-LPs before opening the file. It does NOT decide 6-digit rounding, collisions of truncated names or equality of solve results.",
    note="Trusted: CPython ast, the fixed MPS field table and RANGES/BOUNDS semantics encoded in sa/props/C14.py.",
    ref="DESIGN.md section 3, C14"),
 "C06": dict(
    technique="static analysis: validate-before-use (statement order), dispatch-chain/validated-set equality, resolved call binding of every kkt_* factory arm, argument forwarding by call binding, block-offset extent algebra for start-point packing",
    text="Only the structural clauses of C06 are decided: each dispatching entry point (conelp, coneqp, cpl, cp) rejects an unsupported kktsolver name with ValueError in a statement preceding any use of the value, its defaults are accepted names, the dispatch chain handles exactly the validated names, every arm builds the matching misc.kkt_* factory with arguments its def accepts (rank pre-check raising ValueError first), lp/socp/sdp/qp/gp forward kktsolver unchanged, and the start-point packing follows the block layout. Equality of results across storage formats, KKT solvers, start points, re-encodings and back-ends is numerical and NOT decided.",
    note="Trusted: CPython ast, call binding in sa/world.py; the five KKT factorisations solve the same system (C07).",
    ref="DESIGN.md section 3, C06"),
 "C15": dict(
    technique="static analysis: clang AST branch analysis of the in-place/regular arithmetic paths (typestate: type guard before write, no field write, returns self), closed-writer-set query over all six C files, CWRAP/OUT_RNG/create_indexlist dimension pairing, integer-narrowing rule, fresh-return rule for the Python elementwise functions",
    text="Static and deliberately narrow: the equality of dense-matrix operations with a column-major reference model is a statement about run-time values and is NOT decided. Decided, exhaustively over dense.c/base.c/__init__.py: in-place arithmetic rejects a type change before touching the buffer, assigns no field of self, frees nothing derived from self and returns self; buffer/id/nrows/ncols of an existing matrix are written only by constructors and the guarded size setter, and a buffer is freed only on deallocation; regular operations return Matrix_New* results; every negative-index wrap uses the dimension its index was range-checked against and Python integer indices are not narrowed before the range test; max/min/mul/div return fresh matrices.",
    note="Trusted: clang 14, sa/cexpr.py, CPython ast; Matrix_New* allocate fresh objects.",
    ref="DESIGN.md section 3, C15"),
 "C20": dict(
    technique="static analysis: closed writer/free-set query, field-assignment table of getbuf with enclosing-condition analysis, structural agreement of __reduce__ state with constructor keyword lists, byte-count expression agreement of tofile/fromfile, stride-form rule over every read of the imported buffer",
    text="Static: value equality after a round trip is NOT decided. Decided: storage of an exported matrix is stable (closed writer/free set), getbuf hands out the matrix's own buffer, takes a reference, counts the export and unconditionally refreshes shape/strides from the current size, relbuf uncounts; __reduce__ returns (type, (values, size, tc)) matching the constructor's parameters with len(matrix) items of the matrix's own type; tofile/fromfile use one byte-count expression and fromfile checks the bytes read; buffer import reads every element through both strides as byte offsets with the source format's C type and shares the format table with export; matrix(x), +x and slicing build new objects.",
    note="Trusted: clang 14, the Python buffer protocol; several sub-rules compare whitespace-insensitive source forms of small fixed idioms (state tuple, byte counts).",
    ref="DESIGN.md section 3, C20"),
 "C18": dict(
    technique="static analysis: clang AST + case-based abstract execution; event-order rule for info (call -> test -> return), flag pass-through comparison per case, stride algebra of the private-copy loops, allocation/cast type pairing, sibling-arm isomorphism, parse/keyword/manual table agreement",
    text="Static, exhaustive over the 60 wrappers of lapack.c and their cases: the info value of every LAPACK call is tested (err_lapack: <0 ValueError, >0 ArithmeticError) on every path to a normal return; without the optional pivot/factor argument the routine works on a private column-by-column copy of A whose source stride is A's leading dimension and whose destination stride is the leading dimension passed with the copy; validated flag characters reach the complex routine unchanged; workspace arrays are allocated with the element type they are passed as and select callbacks run under the GIL; real/complex arms identical up to precision; keyword/format/address tables, naming convention and manual signatures agree. Guard/footprint agreement is decided under C19. It does NOT decide residuals, orthogonality or ordering of the numerical results.",
    note="Trusted: clang 14, sa/cmodel.py abstract execution, sa/kb_lapack.py parameter lists, LAPACK itself.",
    ref="DESIGN.md section 3, C18"),
 "C19": dict(
    technique="static analysis: clang AST + case-based abstract execution of every wrapper; dominating-guard facts compared as polynomials with netlib BLAS/LAPACK footprints, bounded concrete counter-example search when forms differ; type-check-before-use, parse-format/storage and macro-vocabulary rules",
    text="Static, exhaustive over the wrappers of blas.c and lapack.c (every type arm x flag x zero/positive dimension x optional-argument case), misc_solvers.c, and every PyArg_Parse* call of the six C files: each matrix buffer handed to BLAS/LAPACK is covered by dominating rejecting guards >= offset + reference footprint (exact for BLAS and 49 LAPACK routines, variable-set rule otherwise), offsets rejected when negative, leading dimensions checked, local arrays large enough; guards do not over-reject; misc_solvers kernels check type and length of matrix arguments (19 recorded findings); format units stored into matching C types; length/index macros have their reference definitions. It does NOT decide overflow of the int arithmetic inside the guards near 2^31, the internals of BLAS/LAPACK/SuiteSparse, nor sparse.c's index arithmetic.",
    note="Trusted: clang 14, sa/kb_blas.py and sa/kb_lapack.py (netlib reference footprints), the abstract execution sa/cmodel.py, LP64 Linux configuration. Known findings (misc_solvers unguarded kernels, over-strict guards of the Q routines) are listed in known_findings.json with witnesses.",
    ref="DESIGN.md section 3, C19"),
 "C17": dict(
    technique="static analysis: clang AST + case-based abstract execution of each wrapper (type arm x flags x zero/positive dimensions), polynomial comparison of rejecting guards with reference BLAS footprints, sibling-arm isomorphism, parse-table/signature/default agreement",
    text="Static, exhaustive over the 34 wrappers of blas.c and all their cases: real/complex arms argument-wise identical up to precision; keyword list, parse format, address arguments and C types agree, naming convention, manual signature prefix, documented defaults equal C initialisers / default statements; early return only where the reference operation leaves the output untouched; for every array handed to BLAS the rejecting guard equals offset + reference footprint in every case (not weaker, not stronger), offsets rejected when negative, leading dimensions checked; complex dot products composed correctly. It does NOT decide the numerical result of the BLAS routine.",
    note="Trusted: clang 14, the reference footprint table sa/kb_blas.py (netlib BLAS definitions), the abstract execution in sa/cmodel.py. Linux build configuration. Integer overflow inside guard arithmetic is outside this check.",
    ref="DESIGN.md section 3, C17"),
 "C13": dict(
    technique="static analysis: derived-state completeness rules over op's mutators (sibling-arm agreement of the insert-or-create idiom, delete-inside-loop, reaching definitions for loop variables), fresh-return rule for accessors, effect ordering in delconstraint",
    text="Static, exhaustive over the methods of modeling.op that edit objective/_inequalities/_equalities: every insert-or-create site of the derived table _variables has both arms, touches the list matching the constraint type and creates well-formed entries; entries are deleted per variable inside the loop and only when 'o','i','e' are all empty; an objective change clears 'o' on survivors and sets it on the new objective's variables; accessors return fresh lists; delconstraint removes from the source list first, under try/except ValueError; no loop variable is read after its loop. It does NOT decide equality of solve results with a freshly built op.",
    note="Trusted: CPython ast; variables()/type() of constraints report what the constraint contains (C11).",
    ref="DESIGN.md section 3, C13"),
 "C09": dict(
    technique="static analysis: interprocedural effect/alias analysis (flow-insensitive may-alias refined by reaching definitions at each sink) with an effect table for the kernels and callback contracts; scope analysis of the options binding; validation-before-loop and loop-shape rules",
    text="Static, exhaustive over the ten entry points and the kkt_* factories: options is a local bound from kwargs before any use and forwarded to every wrapped entry point (op.solve forwards **kwargs); the option values are read once and validated with ValueError before the main loop with agreeing defaults; the main loops are bounded by maxiters; no in-place write (item/attribute store, augmented assignment, mutating method, kernel/callback output position) can reach an object that may share storage with an argument, the options dictionaries or F()'s results; no global/nonlocal writes and no module-level mutable state besides the options dictionaries. Bit-identical repeatability and thread independence are not decided as such - the absence of shared mutable state in the Python layer is.",
    note="Trusted: the effect table in sa/effects.py (which argument positions BLAS/LAPACK/base/misc kernels and user callbacks write), cvxopt's copy semantics for slicing/arithmetic/constructors, CPython ast. C-level statics are outside this check.",
    ref="DESIGN.md section 3, C09"),
 "C02": dict(
    technique="static analysis: guard-dominance of certificate returns (truth-table implication), structural equality of the residual's divisor with the reciprocal scaling factor of the returned vectors, documented-field table check, ordered finalisation, propagation through wrappers",
    text="Static, exhaustive over conelp's certificate branches and their propagation (lp/socp/sdp/op.solve): a certificate status is returned only under `res is not None and res <= feastol` for the residual it reports; that residual is divided by the same quantity whose reciprocal scales the returned vectors, under that quantity's sign test; the other half and the documented fields are None and the fixed objective is +-1; the returned cone vector is symmetrised and its slack recomputed and reported; wrappers test for None before slicing and op.solve copies status and values. It does NOT decide that the scaled vectors numerically satisfy h'z+b'y=-1 or the residual bound.",
    note="Trusted: CPython ast, sa/pyfront.py implication engine, the documented field table of coneprog.rst as encoded in sa/props/C02.py.",
    ref="DESIGN.md section 3, C02"),
 "C03": dict(
    technique="static analysis: guard-dominance of 'optimal' returns, loop-shape bound, ordered finalisation, block-offset extent algebra, who-may-read rule for P (lower-triangle access only), argument forwarding by resolved call binding",
    text="Static, exhaustive over coneqp/qp: 'optimal' from the main loop is dominated by the documented stop test on the reported variables, the no-inequality shortcut only under cdim == 0 with computed infeasibility fields; iterations <= maxiters by loop shape; 's' blocks symmetrised and slacks recomputed/reported; block walks advance by what they touch; P is read only through base.symv(uplo 'L'), validation and the KKT factory; qp forwards by name. It does NOT decide the numerical KKT residuals.",
    note="Trusted: CPython ast, sa/pyfront.py, sa/offsets.py footprints; base.symv/sp symv touch only the selected triangle (C side).",
    ref="DESIGN.md section 3, C03"),
 "C04": dict(
    technique="static analysis: guard-dominance, normaliser pairing (def-use), ordered finalisation, must-evaluate-F-at-returned-x rule, straight-line epigraph stripping in cp, block-offset extent algebra",
    text="Static, exhaustive over cpl/cp/gp: 'optimal' dominated by the stop test on the reported normalised residuals, each residual divided by its own iteration-0 normaliser; loop bound; sl/zl symmetrised, slacks recomputed/reported; F evaluated and unpacked at the returned x within the iteration with no later write; cp strips the epigraph components on its single path, F_e forms f0 - t on both branches, gp forwards by name; block-offset discipline. It does NOT decide the residual formulas or cross-solver agreement.",
    note="Trusted: CPython ast, sa/pyfront.py, sa/offsets.py; callbacks obey their documented contracts.",
    ref="DESIGN.md section 3, C04"),
 "C01": dict(
    technique="static analysis: guard-dominance of 'optimal' returns by truth-table implication over path conditions, reported==tested binding through the result dictionary, ordered result-finalisation (typestate), block-offset extent algebra, definite assignment",
    text="Static, exhaustive over conelp/lp/socp/sdp: decides structural necessary conditions of C01 - each 'optimal' return is dominated by the documented stop test on exactly the variables the result reports (start-up shortcut only under its exact justifying conditions incl. kktreg is None), tolerances bound once from options, iterations <= maxiters by loop shape, results rescaled by 1/tau then symmetrised and slacks recomputed and reported, socp/sdp pieces are an exact partition of s and z behind the None test, every block walk advances its offset by exactly what it touches, external-solver branches resolve and assign everything they report, cone-space vectors normed with the cone inner product. It does NOT decide that the residual/gap formulas are numerically right nor convergence.",
    note="Trusted: CPython ast, the implication/path-condition engine (sa/pyfront.py), the footprint table in sa/offsets.py, the stop criteria as documented in coneprog.rst. BLAS/LAPACK/misc kernels are assumed to compute their documented operation (C07/C08/C17/C18).",
    ref="DESIGN.md section 3, C01"),
 "C10": dict(
    technique="static analysis: Python ast + hand-built CFG; protected-call-site (who-must-wrap) rule, handler typestate, path-sensitive definite assignment, cross-module name/attribute/call-signature resolution",
    text="Static, exhaustive over the source: decides structural necessary conditions of C10 on every path of conelp/coneqp/cpl/cp - every KKT factor/solve call site is inside try/except ArithmeticError; every handler path ends in the documented ValueError (first iteration only), an 'unknown' result with the full field set after the regular symmetrise/max_step epilogue, or cpl's protected retry, never 'optimal'; every raise resolves to TypeError/ValueError; no unresolved name/module attribute, possibly-unassigned local or unbindable call in any solver-module function; F's refusals are tested in the line search. It does NOT decide the numerical clause (s, z strictly interior in the 'unknown' result).",
    note="Trusted: CPython's ast, clang 14 (method tables of the C modules), the CFG/dataflow in sa/pyfront.py, the documented contract of user callbacks (numerical failure = ArithmeticError). mosek/glpk/dsdp attributes are external and unresolved. Undecided instances (correlated guards) are listed in the evidence and never reported as violations.",
    ref="DESIGN.md section 3, C10"),
}

# clauses added after the second wave of seeded changes (appended to the level text)
ADDED = {
 'C01': ' Added: the relative gap divides by the quantity its guard made positive; every residual norm inside pres/dres/pinfres/dinfres is divided by its own reference norm; the glpk and mosek branches of lp assign each documented quantity by the same expression; block walks initialised from dims start where the preceding blocks end. Wave 3: block walks advance their offset on every path (no continue before the increment); G is multiplied only through misc.sgemv.',
 'C02': " Added: residual/normaliser pairing inside pinfres/dinfres. Wave 3: the normalising scalings of a certificate run under exactly the return's path condition; misc.max_step with a sigma argument is never applied to a returned vector.",
 'C03': " Added: relgap and residual pairing; the KKT factories symmetrise after the last lower-triangular contribution (P in 'L' storage) and fully redefine their persistent work matrices; base.gemv's zero-dimension fallback scales by the caller's beta. Wave 3: h is a cone vector by its role (norm discipline); G only through misc.sgemv; additive contributions of the KKT factories are never in alternative arms.",
 'C04': " Added: relgap pairing; 's'-block walks initialised from dims start at dims['l'] + sum(dims['q']) (+ mnl). Wave 3: in cpl and cp the matrix G is multiplied only through misc.sgemv in both directions.",
 'C06': ' Added: the factories behind the solver names symmetrise after the last lower-triangular contribution and fully redefine their work matrices per factorisation; start-point walks begin where the preceding blocks end. Wave 3: paired kernel calls of the factories agree (tbmv/tbsv blocks, geqrf/ormqr addressing, scaling order); different additive contributions never sit in alternative arms.',
 'C07': ' Added: all copies of one save/restore block go the same direction (one named exception); persistent work matrices of the factories are fully defined before their first read in factor(); triangle typestate lower -> symm -> two-sided ormqr. Wave 3: tbmv/tbsv pairs address the same block; ormqr uses the offset/count of its geqrf; one order of double scalings per factory; exclusive-contribution rule; direction rule covers scalar state.',
 'C08': " Added: running index variables seeded from an offset address only that offset's matrix; trisc/triusc run under the same path condition; the compiled kernels special-case a cone block only on size zero, like the Python reference. Wave 3: every parsed variable of a compiled kernel is read before it is overwritten and every parameter of a Python kernel is read; if/else arms applying an operation and its inverse have identical argument lists.",
 'C09': ' Added: no file-scope or static variable of the six C files is written outside module initialisation (the gees/gges callback slots are a named exception). Wave 3: module-level state of the back-ends (glpk.options) is a protected root of the effect analysis.',
 'C11': ' Added: negated terms change between the convex and the concave list, copied terms do not. Wave 3: the path condition of every raise is satisfiable (no dead refusal). Round 4: a read-modify-write through an alias still names the written object; every argument filed into a max/min is tested for the matching curvature on its path; an in-place operator replaces all components of self or none; the first entry of a constant term is a zero test only under its length-1 test; no in-place +=/-= of a non-sparse operand on a possibly sparse coefficient (contract of the spmatrix slots read off sparse.c).',
 'C12': ' Wave 3: results are written back whatever the solver returned; G/A assembly loops are alpha-equivalent.',
 'C13': ' Added: solve, _inmatrixform, tofile and the accessors write nothing reachable from the op except the documented results (effect analysis with self protected). Wave 3: no shared mutable per-variable record (dict.fromkeys with a mutable value); varlist accumulators are only extended in place.',
 'C14': ' Wave 3: bound values of exactly 0.0 are values, not absent; no record group is skipped on the first element of a vector.',
 'C15': ' Added: INT/DOUBLE/COMPLEX arms of every typed switch in dense.c/base.c are identical up to the element type; typecode ids are compared with the -1 sentinel by >= 0 / < 0 only; the dense and sparse block constructors refuse the same conversions. Wave 3: Py_BuildValue units have the C width of their arguments; in-place number slots pass the in-place flag.',
 'C17': " Added: the default of an omitted n in the level-1 wrappers equals the number of elements addressed (expression evaluated on a grid); zero-dimension fallbacks of gemv/gbmv/base.gemv scale the same y by the same beta as the main call. Wave 3: every parsed variable is read before it is overwritten; the arms call the routine of the wrapper's own name.",
 'C18': " Added: the info test rejects every nonzero value (one-sided tests are violations); the two arms write the same hand-written results back; 32-bit pivot scratch arrays are copied in the direction the routine uses them. Wave 3: parsed variables are read before being overwritten and arguments are parsed once; the arms call the routine of the wrapper's own name; hand-written subscripts of a matrix with an offset parameter use that offset.",
 'C19': " Added: base.c's calls through the per-type function-pointer tables are covered by the footprint rule; no integer division/modulo by a divisor that a dominating test does not exclude from zero (8 hand-confirmed data invariants with re-checked preconditions); real and complex sparse kernels use the same subscript expressions. Wave 3: parse targets are read before overwritten, one parse call per wrapper; a value that may be Py_NotImplemented is tested before use; calls through per-type dispatch tables exclude NULL entries; hand-written loops over locally allocated arrays are bounded by the allocation; elements of index lists are wrapped before they address anything; sibling sparse kernels are compared semantically (bounded interpretation).",
 'C20': ' Added: the size element of the reduced state is applied by the constructor whenever it is given (also (0,0)). Wave 3: Py_BuildValue units match argument widths; the typecode parameter reaches every constructor call.',
}

NOT_APPLICABLE = {
 "C05": "classification/termination within the iteration budget and agreement of objectives across solver paths are properties of the iterates of a numerical method; no dataflow/typestate/call-graph fact bounds them (its 'no undocumented exception' clause is decided under C10)",
 "C16": "dense-image equality and CCS validity after arbitrary operation histories are invariants over run-time index arrays kept by ~4000 lines of merge loops; establishing them needs loop invariants over array contents (VC generation / symbolic reasoning), outside this family; the memory-safety face is decided under C19",
}
PENDING = "checker for this property is not built yet in this round (static rules designed in DESIGN.md section 3); not claimed until it runs clean"

def main():
    props = [json.loads(l) for l in open(os.path.join(HERE, "properties.jsonl"))]
    checks, na = [], []
    for p in props:
        pid = p["id"]
        if pid in CLAIMED:
            c = CLAIMED[pid]
            checks.append({
                "property_id": pid,
                "quick_cmd": "./check %s --tier quick" % pid,
                "thorough_cmd": "./check %s --tier thorough" % pid,
                "evidence_file": "/verif/evidence/%s.json" % pid,
                "replay_cmd_template": "./check %s --replay {path}" % pid,
                "engine": "sa",
                "level_claimed": {"category": "other", "text": c["text"] + ADDED.get(pid, ""), "design_ref": c["ref"]},
                "level_note": c["note"],
                "technique": c["technique"],
            })
        else:
            na.append({"property_id": pid, "reason": NOT_APPLICABLE.get(pid, PENDING)})
    man = {
        "version": 1,
        "setup_cmd": "./check --warm",
        "hooks": {
            "guard": "CVXOPT_VERIF",
            "enable": "n/a - static analysis reads /repo's sources; no hook or instrumentation exists in /repo",
            "baseline_off_cmd": BASE,
            "source_commits": [],
            "add_only": True,
        },
        "engines": [{"name": "sa", "path": "/verif/sa", "serves_properties": sorted(CLAIMED),
                     "kind_free_text": "repository-specific static analysers: Python ast/CFG/dataflow (sa/pyfront.py, sa/defassign.py), clang JSON AST + guard algebra for the C extensions (sa/cfront.py), one rule set per property (sa/props/)"}],
        "checks": checks,
        "notes": "All checks are static: they parse /repo's current working tree on every run and execute nothing from it. Exit 0 ok / 1 VIOLATION / 2 ANALYSIS-ERROR. Known findings: /verif/known_findings.json.",
        "not_applicable": na,
    }
    json.dump(man, open(os.path.join(HERE, "MANIFEST.json"), "w"), indent=1)
    print("claimed:", sorted(CLAIMED), "not claimed:", [x["property_id"] for x in na])

if __name__ == "__main__":
    main()
