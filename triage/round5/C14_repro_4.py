# V4: a second N (free) row that has entries in COLUMNS/RHS is refused
from cvxopt.modeling import op
open('/var/tmp/fz/r4.mps','w').write('''NAME          TWON
ROWS
 N  COST
 N  FREEROW
 L  R1
COLUMNS
    X         COST                 1   R1                   1
    X         FREEROW              5
RHS
    RHS       R1                   4
ENDATA
''')
lp = op()
try:
    lp.fromfile('/var/tmp/fz/r4.mps'); print(lp)
except Exception as e: print('fromfile raised', type(e).__name__, e)
