"""Round-5 rules over coneprog.py / cvxprog.py / misc.py (each built for a wave-5 seed that the
existing rules missed; all are silent on the repaired tree)."""
import ast
import re

from . import pyfront as pf


def _single_defs(fn):
    """name -> value expr for locals assigned exactly once by a plain `v = expr`"""
    cnt, val = {}, {}
    for s in pf.stmts_of(fn):
        if isinstance(s, ast.Assign) and len(s.targets) == 1 and isinstance(s.targets[0], ast.Name):
            cnt[s.targets[0].id] = cnt.get(s.targets[0].id, 0) + 1
            val[s.targets[0].id] = s.value
        elif isinstance(s, (ast.AugAssign, ast.For)):
            for x in pf.stores_in([s]):
                cnt[x] = cnt.get(x, 0) + 2
    return {k: v for k, v in val.items() if cnt.get(k) == 1}


def _expand(e, defs, depth=3):
    t = ast.unparse(e)
    for _ in range(depth):
        changed = False
        for k, v in defs.items():
            if re.search(r"\b%s\b" % re.escape(k), t) and isinstance(v, ast.Call):
                t2 = re.sub(r"(?<![\w.'\"])%s\b(?!\s*=)" % re.escape(k), "(" + ast.unparse(v) + ")", t)
                if t2 != t:
                    t, changed = t2, True
        if not changed:
            break
    return " ".join(t.split())


SWAP = {"z": "s", "s": "z", "tz": "ts", "ts": "tz", "dualstart": "primalstart", "primalstart": "dualstart"}


def _swap(t):
    return re.sub(r"\b(z|s|tz|ts|dualstart|primalstart)\b", lambda m_: SWAP[m_.group(1)], t)


def start_mirror_rule(rule, w, sites):
    """A supplied starting point is validated for s and for z by mirror-image tests:
    `raise ValueError("initial s is not positive")` and `.. z ..` are guarded by conditions that
    are equal under s<->z, ts<->tz, primalstart<->dualstart (locals expanded to their defining
    call).  A copy-paste slip (the z test guarded by `primalstart`, computed from `s`, or with
    `>` for `>=`) breaks the symmetry."""
    n = 0
    for mn, fq in sites:
        m = w.mods[mn]
        fn = m.funcs.get(fq)
        if fn is None:
            continue
        defs = _single_defs(fn)
        found = {}
        for r in [x for x in pf._scope_nodes(fn) if isinstance(x, ast.Raise)]:
            msg = ast.unparse(r.exc) if r.exc is not None else ""
            mm = re.search(r"initial (s|z) is not positive", msg)
            if not mm:
                continue
            p = getattr(r, "_parent", None)
            if not isinstance(p, ast.If):
                continue
            outer = []
            q_ = p
            while getattr(q_, "_parent", None) is not None and q_._parent is not fn:
                par = q_._parent
                if isinstance(par, ast.If):
                    outer.append(("" if any(x is q_ for x in par.body) else "not ") + _expand(par.test, defs))
                q_ = par
            found.setdefault(mm.group(1), []).append((r, _expand(p.test, defs), sorted(outer)))
        for (rs, cs_, os_), (rz, cz, oz) in zip(found.get("s", []), found.get("z", [])):
            n += 1
            key = "%s.%s:validation of the initial s and z are mirror images" % (mn, fq)
            want = _swap(cz)
            want_outer = sorted(_swap(x) for x in oz)
            if want == cs_ and want_outer == os_:
                rule.ok(key, m.where(rz, fn), cz[:80])
            else:
                rule.violation(key, m.where(rz, fn),
                               "the test that refuses a non-positive initial z, `%s`%s, is not the mirror image of the one for s, `%s`%s: a starting z outside "
                               "the cone can pass (or a valid one be refused)" % (cz[:80], " under " + "; ".join(oz)[:60] if oz else "", cs_[:80],
                                                                                   " under " + "; ".join(os_)[:60] if os_ else ""),
                               _swap(cs_)[:100], cz[:100])
        if len(found.get("s", [])) != len(found.get("z", [])):
            n += 1
            rule.violation("%s.%s:initial s and z are both validated" % (mn, fq), m.where(fn, fn),
                           "%d refusals for s, %d for z" % (len(found.get("s", [])), len(found.get("z", []))), "one each", found.keys())
    return n


def validation_dominates_returns_rule(rule, w, sites, options):
    """Every value read from the options dict with a documented domain is validated (a `raise
    ValueError` naming the option, guarded by a test of the bound local) before *any* result is
    returned: the validating `if` statement dominates every `return {..}` of the solver - including
    the early exits that bypass the main loop."""
    n = 0
    for mn, fq in sites:
        m = w.mods[mn]
        fn = m.funcs.get(fq)
        if fn is None:
            continue
        cfg = pf.CFG(fn)
        dom = cfg.dominators()
        rets = [x for x in pf._scope_nodes(fn) if isinstance(x, ast.Return) and isinstance(x.value, ast.Dict)]
        for opt in options:
            raises = [x for x in pf._scope_nodes(fn) if isinstance(x, ast.Raise) and x.exc is not None and ("'%s'" % opt) in ast.unparse(x.exc)]
            if not raises:
                continue
            tests = []
            for r in raises:
                p = getattr(r, "_parent", None)
                while p is not None and not isinstance(p, ast.If):
                    p = getattr(p, "_parent", None)
                # the head of the if / elif chain the raise belongs to
                while p is not None and isinstance(getattr(p, "_parent", None), ast.If) and len(p._parent.orelse) == 1 and p._parent.orelse[0] is p:
                    p = p._parent
                # a validation in the `else:` of `try: v = options[..]` is entered through the try statement
                if p is not None and isinstance(getattr(p, "_parent", None), ast.Try) and any(x is p for x in p._parent.orelse):
                    p = p._parent.body[0]
                if p is not None:
                    tests.append(p)
            tn = [cfg.node_of(t_) for t_ in tests if cfg.node_of(t_) is not None]
            for rt in rets:
                rn = cfg.node_of(rt)
                if rn is None or rn not in cfg.reachable():
                    continue
                n += 1
                key = "%s.%s:option '%s' validated before the return at line +%d" % (mn, fq, opt, rt.lineno - fn.lineno)
                if any(t_ in dom.get(rn, set()) for t_ in tn):
                    rule.ok(key, m.where(rt, fn))
                else:
                    rule.violation(key, m.where(rt, fn),
                                   "this result is returned on a path that never executes the validation of options['%s'] (line %d): an invalid value is "
                                   "accepted silently on that path" % (opt, tests[0].lineno if tests else 0),
                                   "validation before every return", "return not dominated")
    return n


def closure_forwards_parameters_rule(rule, w, sites, params=("alpha", "beta")):
    """The operator wrappers cp()/cpl() build (`A_e(u, v, alpha, beta, trans)`, `G_e` ..) pass
    the solver's alpha and beta on to the wrapped operator.  Inside one closure that has these
    parameters, every call of the same callee forwards the same subset of them: a branch that
    calls `A(u[0], v, alpha=alpha)` next to `A(u, v[0], alpha=alpha, beta=beta, trans=trans)`
    runs the operator with its default beta = 0 on that branch."""
    n = 0
    for mn, fq in sites:
        m = w.mods[mn]
        outer = m.funcs.get(fq)
        if outer is None:
            continue
        for fn in [x for x in ast.walk(outer) if isinstance(x, ast.FunctionDef) and x is not outer]:
            ps = [p for p in pf.arg_names(fn) if p in params]
            if len(ps) < 2:
                continue
            calls = {}
            for c in [x for x in pf._scope_nodes(fn) if isinstance(x, ast.Call)]:
                kws = {k.arg for k in c.keywords if k.arg in params and isinstance(k.value, ast.Name) and k.value.id == k.arg}
                if not kws and not any(k.arg in params for k in c.keywords):
                    # positional forwarding / unrelated call: only calls that forward at least one parameter somewhere count
                    pass
                calls.setdefault(pf.norm_expr(c.func), []).append((c, kws))
            for callee, lst in calls.items():
                if not any(k for _, k in lst) or len(lst) < 2:
                    continue
                full = set().union(*[k for _, k in lst])
                for c, kws in lst:
                    n += 1
                    key = "%s.%s.%s:call %s forwards %s" % (mn, fq, fn.name, pf.norm_expr(c)[:40], "/".join(sorted(full)))
                    if kws == full:
                        rule.ok(key, m.where(c, fn))
                    else:
                        rule.violation(key, m.where(c, fn),
                                       "this call of `%s` does not forward %s although the other call(s) of the same operator in `%s` do: on this branch "
                                       "the operator runs with its own default" % (callee, ", ".join(sorted(full - kws)), fn.name),
                                       ", ".join("%s=%s" % (p, p) for p in sorted(full)), pf.norm_expr(c)[:80])
    return n


def block_loop_rule(rule, w, modules=("misc", "coneprog", "cvxprog")):
    """In a loop over the 's' blocks (`for xk, yk in zip(x, y)` / `for k in range(len(x))`) the
    block order passed to BLAS (`n=`, `incx=`, `ldA=` ..) belongs to the *current* block: a name
    used for it inside the loop must not be defined before the loop from element [0] of the
    sequence being iterated (hoisting `n = x[0].size[0]` out of the loop is only right when all
    blocks have the same order)."""
    n = 0
    for mn in modules:
        m = w.mods.get(mn)
        if m is None:
            continue
        for q, fn in m.funcs.items():
            for lp in [x for x in pf._scope_nodes(fn) if isinstance(x, ast.For)]:
                seqs = set()
                it = lp.iter
                if isinstance(it, ast.Call) and isinstance(it.func, ast.Name) and it.func.id == "zip":
                    seqs = {pf.norm_expr(a) for a in it.args if isinstance(a, (ast.Name, ast.Attribute))}
                elif isinstance(it, ast.Call) and isinstance(it.func, ast.Name) and it.func.id == "range" and len(it.args) == 1 \
                        and isinstance(it.args[0], ast.Call) and pf.norm_expr(it.args[0].func) == "len":
                    seqs = {pf.norm_expr(it.args[0].args[0])}
                elif isinstance(it, (ast.Name, ast.Attribute)):
                    seqs = {pf.norm_expr(it)}
                if not seqs:
                    continue
                used = {x.id for x in ast.walk(lp) if isinstance(x, ast.Name) and isinstance(x.ctx, ast.Load)}
                for a in pf.stmts_of(fn):
                    if not (isinstance(a, ast.Assign) and len(a.targets) == 1 and isinstance(a.targets[0], ast.Name) and a.lineno < lp.lineno):
                        continue
                    v = a.targets[0].id
                    if v not in used or v in pf.stores_in([lp]):
                        continue
                    firsts = [x for x in ast.walk(a.value) if isinstance(x, ast.Subscript) and isinstance(x.slice, ast.Constant) and x.slice.value == 0
                              and pf.norm_expr(x.value) in seqs]
                    if not firsts:
                        continue
                    n += 1
                    key = "%s.%s:`%s` used in the loop over %s is not taken from its first element" % (mn, q, v, "/".join(sorted(seqs)))
                    rule.violation(key, m.where(a, fn),
                                   "`%s = %s` is computed once from the first block and used for every block of the loop at line %d: blocks of another "
                                   "order are read with the wrong size/stride" % (v, pf.norm_expr(a.value)[:50], lp.lineno),
                                   "compute %s from the current block inside the loop" % v, pf.norm_expr(a)[:80])
                # positive instances: block loops that take the order from the loop's own block
                inner = [a for a in pf.stmts_of(fn) if isinstance(a, ast.Assign) and pf._within(a, lp) and len(a.targets) == 1
                         and isinstance(a.targets[0], ast.Name) and ".size[0]" in ast.unparse(a.value)]
                for a in inner[:1]:
                    n += 1
                    rule.ok("%s.%s:block order `%s` taken inside the loop at line +%d" % (mn, q, a.targets[0].id, lp.lineno - fn.lineno), m.where(a, fn))
    return n


def objective_contribution_rule(rule, w, sites=(("coneprog", "coneqp"),), buf="rx", obj_call="xdot"):
    """coneqp evaluates the primal objective as 0.5*(x'rx + x'q) while `rx` holds q + P*x, before
    A'y and G'z are accumulated into it.  At every statement that reads `xdot(x, rx)` for the
    objective, the calls that have written `rx` since it was last overwritten (`xcopy(q, rx)`)
    are the same at all sites - an accumulation moved in front of the read changes the reported
    objective but neither x nor the residuals."""
    n = 0
    for mn, fq in sites:
        m = w.mods[mn]
        fn = m.funcs.get(fq)
        if fn is None:
            continue
        found = []
        for blk in _blocks_of(fn):
            for i, st in enumerate(blk):
                if not (isinstance(st, ast.Assign) and any(isinstance(x, ast.Call) and pf.norm_expr(x.func) == obj_call and len(x.args) == 2
                                                          and pf.norm_expr(x.args[1]) == buf and pf.norm_expr(x.args[0]) != buf
                                                          for x in ast.walk(st.value))):
                    continue
                contrib = []
                for prev in reversed(blk[:i]):
                    # `rx = xnewcopy(q)` / `xcopy(q, rx)`: rx is overwritten with q
                    if isinstance(prev, ast.Assign) and len(prev.targets) == 1 and pf.norm_expr(prev.targets[0]) == buf and isinstance(prev.value, ast.Call) \
                            and prev.value.args:
                        contrib.append("copy(%s)" % pf.norm_expr(prev.value.args[0]))
                        break
                    if not (isinstance(prev, ast.Expr) and isinstance(prev.value, ast.Call)):
                        continue
                    c = prev.value
                    if len(c.args) >= 2 and pf.norm_expr(c.args[1]) == buf:
                        if pf.norm_expr(c.func) in ("xcopy", "blas.copy"):
                            contrib.append("copy(%s)" % pf.norm_expr(c.args[0]))
                            break
                        contrib.append(pf.norm_expr(c.func))
                found.append((st, list(reversed(contrib))))
        ref = None
        for st, contrib in sorted(found, key=lambda t_: -t_[0].lineno):
            n += 1
            key = "%s.%s:objective at line +%d read from %s = %s" % (mn, fq, st.lineno - fn.lineno, buf, " + ".join(contrib) or "?")
            if ref is None:
                ref = contrib              # the main-loop site (last in the source) is the reference
                rule.ok(key, m.where(st, fn), "reference site")
            elif contrib == ref:
                rule.ok(key, m.where(st, fn))
            else:
                rule.violation(key, m.where(st, fn),
                               "`%s` has been written by %s when the objective is read here, but by %s at the main-loop site: the objective reported "
                               "on this path includes a term it should not" % (buf, contrib, ref), ref, contrib)
    return n


def _blocks_of(fn):
    out = []

    def walk(stmts):
        out.append(stmts)
        for s in stmts:
            if isinstance(s, (ast.FunctionDef, ast.ClassDef)):
                continue
            for f in ("body", "orelse", "finalbody"):
                b = getattr(s, f, None)
                if isinstance(b, list) and b:
                    walk(b)
            if isinstance(s, ast.Try):
                for h in s.handlers:
                    walk(h.body)
    walk(fn.body)
    return out


def loop_bound_domain_rule(rule, w, functions=(("modeling", "constraint._aslinearineq"), ("modeling", "op._inmatrixform"))):
    """In the epigraph expansion every `for k in range(len(X))` loop that subscripts sequences
    with k subscripts X itself: the bound belongs to the sequence whose pieces the loop visits."""
    n = 0
    for mn, fq in functions:
        m = w.mods[mn]
        fn = m.funcs.get(fq)
        if fn is None:
            continue
        for lp in [x for x in pf._scope_nodes(fn) if isinstance(x, ast.For)]:
            it = lp.iter
            if not (isinstance(it, ast.Call) and isinstance(it.func, ast.Name) and it.func.id == "range" and len(it.args) == 1
                    and isinstance(it.args[0], ast.Call) and pf.norm_expr(it.args[0].func) == "len" and isinstance(lp.target, ast.Name)):
                continue
            X, k = pf.norm_expr(it.args[0].args[0]), lp.target.id
            idx = {pf.norm_expr(s.value) for s in ast.walk(lp) if isinstance(s, ast.Subscript) and isinstance(s.slice, ast.Name) and s.slice.id == k}
            if not idx:
                continue
            n += 1
            key = "%s.%s:loop `for %s in range(len(%s))` at line +%d subscripts %s" % (mn, fq, k, X, lp.lineno - fn.lineno, X)
            if X in idx:
                rule.ok(key, m.where(lp, fn), sorted(idx))
            else:
                rule.violation(key, m.where(lp, fn),
                               "the loop runs over the length of `%s` but subscripts %s with its index: pieces beyond len(%s) are never visited (or the "
                               "index runs past the end)" % (X, ", ".join(sorted(idx)), X), "range(len(%s))" % sorted(idx)[0], "range(len(%s))" % X)
    return n
