"""Triage: base.gemm does not check the dimensions of a dense C (writes past the buffer).
Runs the call in a child process; reports whether it was accepted."""
import subprocess, sys
code = r'''
from cvxopt import matrix, base
A = matrix(1.0, (2,2)); B = matrix(1.0, (2,3)); C = matrix(0.0, (2,1))
try:
    base.gemm(A, B, C)
    print("accepted: C is 2x1 but the product is 2x3")
except (TypeError, ValueError) as e:
    print("rejected:", e)
'''
r = subprocess.run([sys.executable, "-c", code], capture_output=True, text=True)
print(r.stdout.strip(), "| rc", r.returncode, r.stderr.strip()[-100:])
print("PASS" if "rejected" in r.stdout else "FAIL")
