#!/venv/bin/python
"""Calibrate per-rule floors on the current (reference) tree: 40% of the decided count, rounded down (a rule must not pass vacuously; consolidating refactorings may halve instance counts; a rule with one or two instances gets no floor - zero-instance rules carry an embedded positive example instead)."""
import json, os, re, subprocess
HERE = os.path.dirname(os.path.dirname(os.path.abspath(__file__)))
props = [c["property_id"] for c in json.load(open(os.path.join(HERE, "MANIFEST.json")))["checks"]]
floors = {}
for p in props:
    out = subprocess.run([os.path.join(HERE, "check"), p], capture_output=True, text=True,
                         env=dict(os.environ, VERIF_CALIBRATE="1", VERIF_NO_EVIDENCE="1")).stdout
    for m in re.finditer(r"^RULE (\S+)\s+obligations=(\d+) ok=(\d+) violations=(\d+)", out, re.M):
        decided = int(m.group(3)) + int(m.group(4))
        floors[m.group(1)] = int(decided * 0.4)   # 0 for rules with fewer than 3 instances: a refactoring may legitimately remove the only instance
json.dump(floors, open(os.path.join(HERE, "floors.json"), "w"), indent=1, sort_keys=True)
print(len(floors), "rules calibrated")
