#!/bin/bash
# usage: tools/run_on_commit.sh <commit> <PID>...   - run checks on a historical /repo commit (scratch export, removed afterwards)
set -e
C=$1; shift
D=$(mktemp -d /var/tmp/oncommit-XXXX)
git -C /repo archive $C src doc | tar -x -C $D
for p in "$@"; do VERIF_NO_EVIDENCE=1 /verif/check $p --repo $D 2>&1 | grep -E "^  FAIL|^SUMMARY|^ANALYSIS" | cut -c1-220; done
rm -rf $D
