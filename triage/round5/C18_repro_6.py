# gees/gges keep the select callback in a static C global: a nested call replaces the outer callback;
# a non-integer return value surfaces as SystemError
from cvxopt import matrix, lapack
A = matrix([[1.0,2.0,0.5,1],[-3.0,1.0,0.2,2],[0.3,0.1,-2.0,-1],[0.5,0.5,0.5,3.0]])
calls = []
def inner(s): calls.append('inner'); return False
def outer(s):
    calls.append('outer')
    if calls.count('outer') == 1:
        lapack.gees(matrix([[5.0,1.0],[0.0,6.0]]), select=inner)   # unrelated nested factorization
    return s.real > 0
w = matrix(0j,(4,1))
sdim = lapack.gees(+A, w, select=outer)
print("sdim =", sdim, " eigenvalues with Re>0:", sum(1 for x in w if x.real > 0), list(w))
print("callback trace:", calls)
w2 = matrix(0j,(4,1)); print("reference (no nesting): sdim =", lapack.gees(+A, w2, select=lambda s: s.real > 0), list(w2))
try: lapack.gees(+A, select=lambda s: 1.0)
except Exception as e: print("select returning 1.0 ->", type(e).__name__, str(e)[:80])
