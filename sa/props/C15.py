"""C15 - dense matrices behave like the documented column-major arrays (narrow structural
claim: in-place operators, closed writer set of the matrix fields, fresh vs in-place
results, index/dimension pairing, fresh results of the Python-level elementwise functions)."""
import ast
import re

from .. import cdense as cd
from .. import cexpr as cx
from .. import cfront as cf
from .. import cmodel as cm
from .. import pyfront as pf
from ..core import Check, AnalysisError

INPLACE_GENERIC = ["matrix_add_generic", "matrix_sub_generic", "matrix_mul_generic", "matrix_div_generic",
                   "matrix_rem_generic"]


def inplace_branches(c, fn):
    """[(is_inplace_branch, stmt)] for the branches of `if (!inplace)` / `if (inplace)`"""
    sim = cm.Simulator(c, fn)
    out = []
    for st in cf.walk(sim.body):
        if st.get("k") != "IfStmt":
            continue
        ce = sim.cond_of(st)
        if ce is None:
            continue
        kids = st.get("c", [])
        if ce == ("un", "!", ("id", "inplace")):
            out.append((False, kids[1]))
            if len(kids) > 2:
                out.append((True, kids[2]))
        elif ce == ("id", "inplace"):
            out.append((True, kids[1]))
            if len(kids) > 2:
                out.append((False, kids[2]))
    return out, sim


def build(tier, repo):
    chk = Check(
        "C15", tier, repo,
        explanation=(
            "Static analysis of dense.c/base.c/__init__.py. The equality with a reference column-major "
            "model is NOT decided (values, promotion table, slicing semantics are run-time facts). Decided "
            "structural clauses: (R1) in every in-place arithmetic path a type change is rejected before the "
            "buffer is touched, no field of self is assigned and no buffer is freed, and self is returned; "
            "(R2) the fields buffer/id/nrows/ncols of an existing matrix have a closed writer set "
            "(constructors, size setter guarded by m*n == length and m,n >= 0, deallocation); (R3) "
            "non-in-place paths return an object obtained from a Matrix_New* constructor in the same "
            "function; (R4) every negative-index wrap CWRAP(i, D) uses the dimension D the index was "
            "range-checked against, and Python integer indices are not narrowed before the range test; "
            "(R5) the Python-level max/min/mul/div return fresh matrices."),
        trusted_base=["clang 14 AST", "sa/cexpr.py", "CPython ast"],
        assumptions=["Matrix_New* return freshly allocated objects"])
    cs = cf.load_c(repo, files=["dense.c", "base.c", "sparse.c", "blas.c", "lapack.c", "misc_solvers.c"])
    c = cs["dense.c"]

    r1 = chk.rule("C15-R1", "in-place arithmetic: type change rejected before any write; no field of self assigned, no free; returns self",
                  "in-place operators allowed exactly when the type would not change; modify in place")
    r3 = chk.rule("C15-R3", "non-in-place arithmetic returns an object created by a Matrix_New* constructor in the same function",
                  "regular operations create new objects")
    for fn in INPLACE_GENERIC:
        if fn not in c.funcs:
            raise AnalysisError("dense.c: %s not found" % fn)
        branches, sim = inplace_branches(c, fn)
        inpl = [b for flag, b in branches if flag]
        other = [b for flag, b in branches if not flag]
        where = "src/C/dense.c:%s" % fn
        if not inpl:
            r1.undecided("%s:inplace branch" % fn, where, "no `if (!inplace)` split found")
            continue
        for bi, b in enumerate(inpl):
            btxt = c.text(b["b"], b["e"]) if b.get("b") is not None and b.get("e") else ""
            key = "%s:inplace branch %d" % (fn, bi)
            # (a) type guard
            has_guard = False
            for st in cf.walk(b):
                if st.get("k") == "IfStmt" and len(st.get("c", [])) > 1 and cm.is_error_exit(st["c"][1]):
                    ce = sim.cond_of(st)
                    if ce is not None and {"id", "id_self"} <= cx.idents(ce) and "!=" in cx.unparse(ce):
                        has_guard = True
            # the guard may also precede the split (dominating it)
            if not has_guard:
                for st in sim.body.get("c", []):
                    if st.get("k") == "IfStmt" and len(st.get("c", [])) > 1 and cm.is_error_exit(st["c"][1]):
                        ce = sim.cond_of(st)
                        if ce is not None and {"id", "id_self", "inplace"} <= cx.idents(ce):
                            has_guard = True
            # (b) no writes to fields / frees / conversions of self
            bad = []
            for n in cf.walk(b):
                if n.get("k") in ("BinaryOperator",) and n.get("op") == "=" and n.get("c"):
                    l = cf.strip(n["c"][0])
                    if l.get("k") == "MemberExpr" and l.get("n") in cd.FIELDS:
                        bad.append("assignment to ->%s" % l["n"])
                if n.get("k") == "CallExpr" and cf.callee_name(n) in ("free", "convert_mtx_alloc", "realloc") and not n.get("bm"):
                    sp = c.paren_after(n["b"])
                    atxt = c.text(sp[0] + 1, sp[1]) if sp else ""
                    # temporaries made from the *other* operand may be freed; anything derived from self may not
                    if re.search(r"\bself\b", atxt):
                        bad.append("%s(%s)" % (cf.callee_name(n), " ".join(atxt.split())[:40]))
            if re.search(r"free_convert_mtx_alloc\s*\(", btxt):
                bad.append("free_convert_mtx_alloc (swaps buffer and id)")
            # (c) returns self
            rets = [n for n in cf.walk(b) if n.get("k") == "ReturnStmt"]
            ret_self = any(cf.strip(r_["c"][0]).get("ref") == "self" for r_ in rets if r_.get("c"))
            if not has_guard:
                r1.violation(key + ":type-guard", where, "in-place path has no `id != id_self` rejection: the matrix can be retyped in place",
                             "if (id != id_self) error", "absent")
            elif bad:
                r1.violation(key + ":storage", where, "in-place path changes the storage of self: %s" % sorted(set(bad)),
                             "buffer contents only", sorted(set(bad)))
            elif not ret_self:
                r1.violation(key + ":returns-self", where, "in-place path does not return self", "return self", "other")
            else:
                r1.ok(key, where, "type guard, contents-only writes, returns self")
        for bi, b in enumerate(other):
            key = "%s:regular branch %d" % (fn, bi)
            rets = [n for n in cf.walk(b) if n.get("k") == "ReturnStmt" and n.get("c")]
            fresh_vars = set()
            for n in cf.walk(b):
                if n.get("k") == "VarDecl" and n.get("c"):
                    if any(x.get("k") == "CallExpr" and (cf.callee_name(x) or "").startswith("Matrix_New") for x in cf.walk(n)):
                        fresh_vars.add(n.get("n"))
                if n.get("k") == "BinaryOperator" and n.get("op") == "=" and n.get("c"):
                    if any(x.get("k") == "CallExpr" and (cf.callee_name(x) or "").startswith("Matrix_New") for x in cf.walk(n["c"][1])):
                        fresh_vars.add(cf.strip(n["c"][0]).get("ref"))
            bad = []
            for r_ in rets:
                v = cf.strip(r_["c"][0])
                if v.get("k") == "DeclRefExpr" and v.get("ref") in ("self", "other"):
                    bad.append(v.get("ref"))
            if bad:
                r3.violation(key, where, "a regular (non in-place) operation returns its operand `%s`" % bad[0], "a Matrix_New* result", bad[0])
            elif fresh_vars:
                r3.ok(key, where, "returns %s" % sorted(v for v in fresh_vars if v))
            else:
                r3.undecided(key, where, "result construction not recognised")
    # unary plus / neg / abs create new objects
    for fn in ("matrix_pos", "matrix_neg", "matrix_abs", "matrix_transpose", "matrix_ctranspose"):
        if fn not in c.funcs:
            continue
        node = c.funcs[fn]
        made = any(n.get("k") == "CallExpr" and (cf.callee_name(n) or "").startswith("Matrix_New") for n in cf.walk(node))
        ret_self = any(n.get("k") == "ReturnStmt" and n.get("c") and cf.strip(n["c"][0]).get("ref") == "self" for n in cf.walk(node))
        if made and not ret_self:
            r3.ok("%s:fresh result" % fn, "src/C/dense.c:%s" % fn)
        else:
            r3.violation("%s:fresh result" % fn, "src/C/dense.c:%s" % fn, "unary operation does not build a new matrix", "Matrix_New*", "self returned" if ret_self else "no constructor call")
    r1.require(5)
    r3.require(8)

    r2 = chk.rule("C15-R2", "closed writer set of matrix.buffer/id/nrows/ncols; size setter guarded",
                  "type and storage of an existing matrix never change behind aliased references")
    nw, nf = cd.writer_rule(r2, cs)
    chk.note_analysed("field_writes", nw)
    sim = cm.Simulator(c, "matrix_set_size")
    conds = [cx.unparse(sim.cond_of(st)) for st in sim.body.get("c", []) if st.get("k") == "IfStmt" and sim.cond_of(st) is not None
             and len(st.get("c", [])) > 1 and cm.is_error_exit(st["c"][1])]
    joined = " ".join(conds)
    # the names stored into nrows / ncols are read off the stores themselves
    node = c.funcs["matrix_set_size"]
    body_txt = cx.strip_pp(c.text(node["b"], node["e"])) if hasattr(cx, "strip_pp") else c.text(node["b"], node["e"])
    mr = re.search(r"(?:MAT_NROWS\(self\)|self->nrows)\s*=\s*(?:\(\s*int\s*\)\s*)?(\w+)\s*;", body_txt)
    mc = re.search(r"(?:MAT_NCOLS\(self\)|self->ncols)\s*=\s*(?:\(\s*int\s*\)\s*)?(\w+)\s*;", body_txt)
    if not mr or not mc:
        raise AnalysisError("matrix_set_size: stores to nrows/ncols not found")
    vr, vc = re.escape(mr.group(1)), re.escape(mc.group(1))
    prod = r"\((%s \* %s|%s \* %s)\) != (MAT_LGT\(self\)|len\(self\)|\(self->nrows \* self->ncols\))" % (vr, vc, vc, vr)
    if re.search(prod, joined) and re.search(r"\b%s < 0" % vr, joined) and re.search(r"\b%s < 0" % vc, joined):
        r2.ok("matrix_set_size:guards", "src/C/dense.c:matrix_set_size", "%s, %s >= 0 and %s*%s == length" % (mr.group(1), mc.group(1), mr.group(1), mc.group(1)))
    else:
        r2.violation("matrix_set_size:guards", "src/C/dense.c:matrix_set_size", "size can be reassigned without preserving the element count",
                     "%s < 0 || %s < 0 rejected; %s*%s != MAT_LGT(self) rejected" % (mr.group(1), mc.group(1), mr.group(1), mc.group(1)), conds)
    r2.require(6)

    r4 = chk.rule("C15-R4", "negative-index wrap uses the dimension the index was range-checked against; indices not narrowed before the check",
                  "indexing raises IndexError exactly where the model has no answer and addresses the right element otherwise")
    # every function of dense.c that wraps an index (not a list of names: a renamed or split function stays covered)
    n = cd.index_pairing_rule(r4, c, list(c.order))
    cd.narrowing_rule(r4, c, list(c.order))
    chk.note_analysed("CWRAP_sites", n)
    r4.require(10)

    r6 = chk.rule("C15-R6", "INT / DOUBLE / COMPLEX arms of element-wise switches are identical up to the element type",
                  "results agree with exact element-wise arithmetic for all three typecodes")
    from .. import cwrap_rules as cw
    nsw = 0
    for fname in ("dense.c", "base.c"):
        cc = cs[fname] if fname in cs else None
        if cc is None:
            continue
        nsw += cw.typed_arm_rule(r6, cc, cc.order, exceptions={
            "Matrix_NewFromPyBuffer": "the arms convert from different source element types by design (outer switch on the target type, inner on the source type)"})
    chk.note_analysed("typed_switches", nsw)
    r6.require(10)

    r7 = chk.rule("C15-R7", "typecode ids are tested against the 'absent' sentinel -1 with >= 0 / < 0 (INT is id 0), never with > 0 / <= 0",
                  "the typecode follows the documented promotion i < d < z; an explicit tc='i' is honoured")
    nid = 0
    for fname in ("dense.c", "sparse.c", "base.c"):
        cc = cs[fname]
        for fn in cc.order:
            node = cc.funcs[fn]
            txt = cx.strip_pp(cc.text(node["b"], node["e"]))
            for m_ in re.finditer(r"\b(id|id_\w+|\w+_id)\s*(>=|<=|>|<)\s*(0|1|-1)\b(?!\.)", txt):
                v, op, k = m_.group(1), m_.group(2), m_.group(3)
                nid += 1
                key = "%s:%s:%s %s %s" % (fname, fn, v, op, k)
                where = "src/C/%s:%s:%d" % (fname, fn, cc.line_of(node["b"]) + txt[:m_.start()].count("\n"))
                if (op, k) in ((">=", "0"), ("<", "0"), (">", "-1"), ("<=", "-1")):
                    r7.ok(key, where, "sentinel test")
                else:
                    r7.violation(key, where, "`%s %s %s` treats the typecode id 0 (INT, tc='i') like the 'absent' sentinel -1" % (v, op, k),
                                 "%s >= 0 / %s < 0" % (v, v), "%s %s %s" % (v, op, k))
    # the dense and the sparse block constructors refuse the same conversions
    def _conv_guard(cc, fn):
        sim_ = cm.Simulator(cc, fn)
        for st in cf.walk(sim_.body):
            if st.get("k") == "IfStmt" and len(st.get("c", [])) > 1 and st.get("b") is not None:
                t_ = cc.text(st["b"], st["b"] + 200)
                if "illegal type conversion" in t_.split(";")[0] + t_.split(";")[1 if ";" in t_ else 0]:
                    ce_ = sim_.cond_of(st)
                    return cx.unparse(ce_) if ce_ is not None else None
        return None
    gd, gs = _conv_guard(cs["dense.c"], "dense_concat"), _conv_guard(cs["sparse.c"], "sparse_concat")
    if gd is None or gs is None:
        r7.undecided("dense_concat~sparse_concat:conversion guard", "src/C/dense.c:dense_concat", "guard of 'illegal type conversion' not found")
    elif gd == gs:
        r7.ok("dense_concat~sparse_concat:conversion guard", "src/C/dense.c:dense_concat", gd)
    else:
        r7.violation("dense_concat~sparse_concat:conversion guard", "src/C/dense.c:dense_concat",
                     "the dense and the sparse block constructors refuse different type conversions", gs, gd)
    chk.note_analysed("id_sentinel_tests", nid)
    r7.require(3)

    r9 = chk.rule("C15-R9", "the in-place number slots call the shared arithmetic with the in-place flag set, the regular slots with it cleared",
                  "in-place operators modify the same object seen through every alias; regular ones create new objects")
    cden = cs["dense.c"]
    nfl = 0
    for fn in cden.order:
        txt = cx.strip_pp(cden.text(cden.funcs[fn]["b"], cden.funcs[fn]["e"]))
        for m_ in re.finditer(r"\b(matrix_(\w+)_generic)\s*\(\s*self\s*,\s*other\s*,\s*(\w+)\s*\)", txt):
            op, flag = m_.group(2), m_.group(3)
            if fn == "matrix_i" + op:
                want = "1"
            elif fn == "matrix_" + op:
                want = "0"
            else:
                continue
            nfl += 1
            key = "%s:%s(self, other, inplace)" % (fn, m_.group(1))
            where = "src/C/dense.c:%s" % fn
            if flag == want:
                r9.ok(key, where, "inplace = %s" % flag)
            else:
                r9.violation(key, where, "%s passes inplace = %s to %s: %s" % (fn, flag, m_.group(1),
                             "the in-place operator builds a new matrix and rebinds the name - other references and exported views keep the old values"
                             if want == "1" else "the regular operator modifies its left operand"), "inplace = %s" % want, flag)
    chk.note_analysed("inplace_flag_calls", nfl)
    r9.require(8)

    r8 = chk.rule("C15-R8", "Py_BuildValue units have the C width of their arguments (64-bit int_t results are not read as int)",
                  "'i' results are exact for all 64-bit values")
    nb = 0
    for fname in ("dense.c", "base.c", "sparse.c"):
        nb += cw.buildvalue_rule(r8, cs[fname], cs[fname].order)
    chk.note_analysed("buildvalue_calls", nb)
    r8.require(20)

    r5 = chk.rule("C15-R5", "Python-level max/min/mul/div return fresh matrices", "regular operations create new objects")
    path = repo + "/src/python/__init__.py"
    try:
        tree = ast.parse(open(path).read())
    except Exception as e:
        raise AnalysisError("cannot parse %s: %s" % (path, e))
    pf.attach_parents(tree)
    for fdef in [n for n in tree.body if isinstance(n, ast.FunctionDef) and n.name in ("max", "min", "mul", "div")]:
        for r_ in [n for n in ast.walk(fdef) if isinstance(n, ast.Return) and n.value is not None]:
            v = r_.value
            key = "__init__.%s:return %s" % (fdef.name, pf.norm_expr(v)[:60])
            where = "src/python/__init__.py:%s:%d" % (fdef.name, r_.lineno)
            calls_reduce = any(isinstance(x, ast.Call) and pf.call_name(x) == "reduce" for x in ast.walk(v))
            if not calls_reduce:
                r5.ok(key, where, "not a reduction of matrix arguments")
                continue
            if isinstance(v, ast.UnaryOp) and isinstance(v.op, ast.UAdd):
                r5.ok(key, where, "copied with unary +")
            else:
                r5.violation(key, where,
                             "the reduction of a one-element sequence returns the argument itself: the result aliases the operand",
                             "+reduce(...)", pf.norm_expr(v)[:60])
    r5.require(8)
    from .. import cmisc_rules as mr5
    r10 = chk.rule("C15-R10", "binary number slots test the type of `self` before reading it as a matrix (reflected calls pass any object)",
                   "TypeError is raised exactly where the model has no answer; no memory of a foreign object is read as a matrix")
    chk.note_analysed("binary_slots", mr5.operand_guard_rule(r10, cs["dense.c"], cs["dense.c"].order) + mr5.operand_guard_rule(r10, cs["sparse.c"], cs["sparse.c"].order))
    r10.require(5)
    r11 = chk.rule("C15-R11", "dimensions taken from Python ints stay in a wide integer until range-checked (size setters)",
                   "size reassignment raises TypeError where the model has no answer (no truncation of 2**32+k, no wrapped product)")
    chk.note_analysed("python_int_locals", mr5.int_narrowing_size_rule(r11, cs["dense.c"], cs["dense.c"].order) + mr5.int_narrowing_size_rule(r11, cs["sparse.c"], cs["sparse.c"].order))
    r11.require(4)
    r12 = chk.rule("C15-R12", "a subscript uses the leading dimension of its own array (integer product kernel and the other hand-written kernels)",
                   "arithmetic on 'i' matrices returns what the model computes for non-square operands too")
    chk.note_analysed("ld_subscripts", mr5.ld_subscript_rule(r12, cs, ["base.c", "dense.c", "sparse.c", "misc_solvers.c"]))
    r12.require(1)
    return chk
