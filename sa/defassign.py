"""Path-sensitive definite-assignment check for Python functions.

Stage 1: classic may-be-unassigned dataflow on the CFG (candidates).
Stage 2: for each candidate (variable, use) a targeted search for a *feasible*
def-free path ENTRY ->* use, where feasibility is judged against the boolean atoms of
the `if`/`while` tests that lexically enclose the variable's definitions or the use
("relevant atoms"), with these idioms modelled exactly:
  * `for X in range(N + c)` (N validated >= 1 earlier, or c >= 1 with N >= 0): non-empty,
    first iteration has X == 0, later iterations X != 0;
  * `for X in [c0, c1, ...]` literal lists: unrolled, X == ck known in iteration k;
  * atoms are invalidated when a name they mention is re-bound.
A candidate for which no feasible path exists is discharged.  The rest are returned
with a witness path (list of line numbers and branch decisions)."""
import ast

from . import pyfront as pf


def atom_table(e, out=None):
    """{atom string: set of names mentioned} for the atoms prop_of(e) would create."""
    out = {} if out is None else out
    if isinstance(e, ast.BoolOp):
        for v in e.values:
            atom_table(v, out)
    elif isinstance(e, ast.UnaryOp) and isinstance(e.op, ast.Not):
        atom_table(e.operand, out)
    elif isinstance(e, ast.Compare) and len(e.ops) > 1:
        left = e.left
        for op, right in zip(e.ops, e.comparators):
            atom_table(ast.Compare(left=left, ops=[op], comparators=[right]), out)
            left = right
    else:
        p = pf.prop_of(e)
        for a in p.atoms():
            out.setdefault(a, set()).update(pf.names_in(e))
    return out


def _range_nonempty(for_stmt, fn):
    it = for_stmt.iter
    if isinstance(it, (ast.List, ast.Tuple)) and it.elts:
        return True
    if isinstance(it, ast.Call) and isinstance(it.func, ast.Name) and it.func.id == "range" \
            and len(it.args) == 1:
        a = it.args[0]
        if isinstance(a, ast.Constant) and isinstance(a.value, int) and a.value > 0:
            return True
        if isinstance(a, ast.BinOp) and isinstance(a.op, ast.Add):
            l, r = a.left, a.right
            if isinstance(l, ast.Constant):
                l, r = r, l
            if isinstance(r, ast.Constant) and isinstance(r.value, int) and r.value >= 1 \
                    and isinstance(l, ast.Name):
                # N + c with N validated: look for `if ... N < 1 ...: raise` before
                for s in pf.stmts_of(fn):
                    if isinstance(s, ast.If) and pf.always_exits(s.body) and s.lineno < for_stmt.lineno:
                        ats = pf.prop_of(s.test).atoms()
                        if "(%s < 1)" % l.id in ats or "(%s <= 0)" % l.id in ats \
                                or "(%s < 0)" % l.id in ats:
                            return True
    return False


def _range_starts_at_zero(for_stmt):
    it = for_stmt.iter
    return isinstance(it, ast.Call) and isinstance(it.func, ast.Name) and it.func.id == "range" \
        and len(it.args) == 1 and isinstance(for_stmt.target, ast.Name)


def _literal_consts(for_stmt):
    it = for_stmt.iter
    if isinstance(it, (ast.List, ast.Tuple)) and it.elts and isinstance(for_stmt.target, ast.Name) \
            and all(isinstance(x, ast.Constant) for x in it.elts):
        return [x.value for x in it.elts]
    return None


def _eval3(p, val, tracked):
    """Possible truth values of Prop p under partial valuation `val`; atoms not in
    `tracked` are free.  Returns set of bools."""
    free = sorted(a for a in p.atoms() if a not in val)
    res = set()
    import itertools
    if len(free) > 12:
        return {True, False}
    for vs in itertools.product((False, True), repeat=len(free)):
        env = dict(val)
        env.update(zip(free, vs))
        res.add(p.ev(env))
        if len(res) == 2:
            break
    return res


class Analyzer:
    def __init__(self, fn, mod):
        self.fn = fn
        self.mod = mod
        self.cfg = pf.CFG(fn)
        self.defs = {n: pf.stmt_defs(self.cfg.node_stmt[n], self.cfg.kind[n])
                     for n in self.cfg.nodes()}
        self._stmts = pf.stmts_of(fn)
        self._nonempty = {}

    def candidates(self):
        IN = pf.maybe_unassigned(self.cfg, self.fn)
        reach = self.cfg.reachable()
        out = []
        seen = set()
        for n in sorted(reach):
            for u in pf.node_uses(self.cfg, n):
                if u.id in IN[n]:
                    kind, sc = pf.resolve_name(u, self.mod)
                    if kind == "local" and sc is self.fn and (u.id, n) not in seen:
                        seen.add((u.id, n))
                        out.append((u.id, n, u))
        return out

    def relevant_atoms(self, var, use_node):
        """Atoms of tests lexically enclosing a def of var or the use."""
        tbl = {}
        sites = [self.cfg.node_stmt[n] for n in self.cfg.nodes() if var in self.defs[n]]
        sites.append(self.cfg.node_stmt[use_node])
        for s in sites:
            p = s
            while p is not None and p is not self.fn:
                q = getattr(p, "_parent", None)
                if isinstance(q, (ast.If, ast.While)):
                    atom_table(q.test, tbl)
                    # preceding sibling early exits in the same block
                p = q
            # the use's own test (when the use is in an if-test) is not a guard
        return tbl

    def feasible_unassigned_path(self, var, use_node, max_states=200000):
        cfg = self.cfg
        tbl = self.relevant_atoms(var, use_node)
        tracked = set(tbl)
        # loop-target atoms
        names_of = dict(tbl)
        start = (0, frozenset())
        stack = [(start, None)]
        parent = {start: None}
        nstates = 0
        while stack:
            state, _ = stack.pop()
            node, valf = state
            nstates += 1
            if nstates > max_states:
                return ("undecided", "state budget exceeded")
            val = dict(valf)
            if node == use_node:
                # reached the use with var unassigned along this path
                return ("path", self._trace(parent, state))
            kills = var in self.defs[node] and node != 0
            stmt, kind = cfg.node_stmt[node], cfg.kind[node]
            # invalidate atoms whose names are re-bound here
            rebound = self.defs[node]
            if rebound:
                for a in list(val):
                    if isinstance(a, str) and names_of.get(a, set()) & rebound:
                        del val[a]
            succs = []
            if kind == "test":
                p = pf.prop_of(stmt.test)
                relevant = [a for a in p.atoms() if a in tracked and a not in val]
                import itertools
                for vs in itertools.product((False, True), repeat=len(relevant)):
                    v2 = dict(val)
                    v2.update(zip(relevant, vs))
                    outcomes = _eval3(p, v2, tracked)
                    for v in cfg.succ[node]:
                        lab = cfg.edge_label.get((node, v))
                        if lab == "true" and True in outcomes:
                            succs.append((v, v2, lab))
                        elif lab == "false" and False in outcomes:
                            succs.append((v, v2, lab))
                        elif lab not in ("true", "false"):
                            succs.append((v, v2, lab))
            elif kind == "iter":
                consts = _literal_consts(stmt)
                poskey = ("#pos", id(stmt))
                inkey = ("#in", id(stmt))
                came_from_body = bool(val.get(inkey))
                tname = stmt.target.id if isinstance(stmt.target, ast.Name) else None
                if consts is not None:
                    pos = val.get(poskey, -1) + 1 if came_from_body else 0
                    v2 = dict(val)
                    v2[poskey] = pos
                    for v in cfg.succ[node]:
                        lab = cfg.edge_label.get((node, v))
                        if lab == "iter" and pos < len(consts):
                            v3 = self._enter(v2, stmt)
                            for a in tracked:
                                c = self._eq_const(a, tname)
                                if c is not None:
                                    v3[a] = (c[0] == consts[pos])
                            succs.append((v, v3, lab))
                        elif lab == "done" and pos >= len(consts):
                            v3 = {k: x for k, x in v2.items() if k not in (poskey, inkey)}
                            succs.append((v, v3, lab))
                        elif lab not in ("iter", "done"):
                            succs.append((v, v2, lab))
                else:
                    nonempty = self._nonempty.get(id(stmt))
                    if nonempty is None:
                        nonempty = _range_nonempty(stmt, self.fn)
                        self._nonempty[id(stmt)] = nonempty
                    zero = _range_starts_at_zero(stmt)
                    for v in cfg.succ[node]:
                        lab = cfg.edge_label.get((node, v))
                        if lab == "iter":
                            v3 = self._enter(val, stmt)
                            it_atom = pf.norm_expr(stmt.iter)
                            if it_atom in tracked:
                                if val.get(it_atom) is False:
                                    continue            # iterable known empty: no body
                                v3[it_atom] = True      # body runs => iterable is truthy
                            if zero and tname:
                                for a in tracked:
                                    c = self._eq_const(a, tname)
                                    if c is not None and c[0] == 0:
                                        v3[a] = not came_from_body
                                    elif c is not None and came_from_body is False:
                                        v3[a] = (c[0] == 0)
                            succs.append((v, v3, lab))
                        elif lab == "done":
                            if not came_from_body and val.get(pf.norm_expr(stmt.iter)) is True \
                                    and pf.norm_expr(stmt.iter) in tracked:
                                continue                # iterable known non-empty
                            if came_from_body or not nonempty:
                                succs.append((v, {k: x for k, x in val.items() if k != inkey}, lab))
                        else:
                            succs.append((v, dict(val), lab))
            else:
                for v in cfg.succ[node]:
                    succs.append((v, val, cfg.edge_label.get((node, v))))
            for v, v2, lab in succs:
                if kills and lab != "exc":
                    continue
                if not self._consistent(v2):
                    continue
                if v in (1, 2):
                    continue
                ns = (v, frozenset(v2.items()))
                if ns not in parent:
                    parent[ns] = state
                    stack.append((ns, None))
        return ("none", None)

    def _consistent(self, val):
        import re
        for a, tv in val.items():
            if tv is True and isinstance(a, str):
                m = re.match(r"^\(type\((\w+)\) is (\w+)\)$", a) or \
                    re.match(r"^isinstance\((\w+), ", a)
                if m and val.get("(%s is None)" % m.group(1)) is True:
                    return False
        return True

    def classify(self, var, use_node):
        """-> (verdict, detail): 'ok' | 'violation' | 'undecided'."""
        r = self.feasible_unassigned_path(var, use_node)
        if r[0] == "none":
            return ("ok", None)
        if r[0] == "undecided":
            return ("undecided", r[1])
        cfg = self.cfg
        rd = pf.reaching_defs(cfg, self.fn, [var])
        if rd[use_node][var] <= {0}:
            return ("violation", "no definition of '%s' reaches this use on any path; "
                    "witness: %s" % (var, " ".join(r[1][-8:])))
        use_stmt = cfg.node_stmt[use_node]
        def_stmts = [cfg.node_stmt[n] for n in cfg.nodes() if var in self.defs[n] and n != 0]
        ug = self._guards(use_stmt)
        dgs = [self._guards(d) for d in def_stmts]
        common = set(ug)
        for d in dgs:
            common &= set(d)
        U = [g for g in ug if g not in common]
        D = [g for d in dgs for g in d if g not in common]
        if not U:
            return ("violation", "use is not guarded beyond what guards every definition; "
                    "def-free feasible path: %s" % " ".join(r[1][-10:]))
        un = self._closure(set().union(*[self._gnames(g) for g in U]))
        dn = self._closure(set().union(*[self._gnames(g) for g in D])) if D else set()
        if un & dn:
            return ("undecided", "use guards and definition guards share data (%s): "
                    "correlation not tracked" % ", ".join(sorted(un & dn)[:6]))
        return ("violation", "def-free feasible path with independent guards: %s"
                % " ".join(r[1][-10:]))

    def _guards(self, stmt):
        """Control constructs (If/While/For nodes) lexically enclosing stmt."""
        out = []
        p = stmt
        while p is not None and p is not self.fn:
            q = getattr(p, "_parent", None)
            if isinstance(q, (ast.If, ast.While, ast.For)) and q is not stmt:
                branch = "orelse" if any(p is x for x in q.orelse) else "body"
                out.append((q, branch))
            p = q
        return out

    def _gnames(self, g):
        g = g[0]
        e = g.iter if isinstance(g, ast.For) else g.test
        return pf.names_in(e)

    def _closure(self, names):
        """names plus everything they are locally computed from (assignments in fn)."""
        if not hasattr(self, "_dep"):
            dep = {}
            for s in self._stmts:
                if isinstance(s, (ast.Assign, ast.AugAssign, ast.AnnAssign)) and getattr(s, "value", None) is not None:
                    tg = s.targets if isinstance(s, ast.Assign) else [s.target]
                    src = pf.names_in(s.value)
                    for t in tg:
                        for n in ast.walk(t):
                            if isinstance(n, ast.Name) and isinstance(n.ctx, ast.Store):
                                dep.setdefault(n.id, set()).update(src)
                elif isinstance(s, ast.For):
                    for n in ast.walk(s.target):
                        if isinstance(n, ast.Name):
                            dep.setdefault(n.id, set()).update(pf.names_in(s.iter))
            self._dep = dep
        out = set(names)
        work = list(names)
        while work:
            x = work.pop()
            for y in self._dep.get(x, ()):
                if y not in out:
                    out.add(y)
                    work.append(y)
        # also: anything computed *from* these names (forward), one closure
        changed = True
        fwd = set(names)
        while changed:
            changed = False
            for a, srcs in self._dep.items():
                if a not in fwd and srcs & fwd:
                    fwd.add(a)
                    changed = True
        return out | fwd

    def _enter(self, val, loop_stmt):
        """valuation after taking the iter edge of loop_stmt: mark it entered and forget
        the markers/positions of loops nested inside it (they start afresh)."""
        inner = {id(x) for x in ast.walk(loop_stmt) if isinstance(x, (ast.For, ast.While)) and x is not loop_stmt}
        v = {k: x for k, x in val.items()
             if not (isinstance(k, tuple) and k[0] in ("#in", "#pos") and k[1] in inner)}
        v[("#in", id(loop_stmt))] = True
        return v

    def _eq_const(self, atom, tname):
        """If atom is `(C == tname)` (normalised form sorts operands) return (C,)."""
        if tname is None or not atom.startswith("(") or " == " not in atom:
            return None
        a, b = atom[1:-1].split(" == ", 1)
        other = b if a == tname else a if b == tname else None
        if other is None:
            return None
        try:
            return (ast.literal_eval(other),)
        except Exception:
            return None

    def _in_body(self, node, loop_stmt):
        s = self.cfg.node_stmt.get(node)
        if s is None:
            return False
        if s is loop_stmt:
            return False
        p = s
        while p is not None and p is not self.fn:
            q = getattr(p, "_parent", None)
            if q is loop_stmt:
                # inside body (not orelse)?
                return any(p is x for x in loop_stmt.body)
            p = q
        return False

    def _trace(self, parent, state):
        path = []
        s = state
        while s is not None:
            n = s[0]
            st = self.cfg.node_stmt.get(n)
            if st is not None:
                path.append((getattr(st, "lineno", 0), self.cfg.kind[n]))
            s = parent.get(s)
        path.reverse()
        # compress: keep branch points and ends
        out = []
        for i, (ln, k) in enumerate(path):
            if k in ("test", "iter", "handler") or i in (0, len(path) - 1):
                out.append("%d%s" % (ln, {"test": "?", "iter": "@", "handler": "!"}.get(k, "")))
        return out
