"""C18 - LAPACK wrappers return results that satisfy their defining equations
(structural part: info discipline, A preserved without ipiv, flags passed through,
workspace pairing, callbacks under the GIL, sibling arms, parse/keyword tables)."""
import os
import re

from .. import cexpr as cx
from .. import cfront as cf
from .. import cguards as cg
from .. import cmodel as cm
from .. import cwrap_rules as cw
from .. import kb_lapack as kbl
from ..core import Check, AnalysisError


class InfoSim(cm.Simulator):
    """Simulator that additionally records, per run, the order of: library calls that
    take &info, tests of info that lead to the error exit, non-error returns."""

    def run(self, case, externs):
        self.events = []
        return super().run(case, externs)

    def _call(self, call, facts, in_threads, path):
        nm = cf.callee_name(call)
        if nm in self.externs:
            args = self.call_args(call) or []
            if any(a.replace(" ", "") == "&info" for a in args):
                self.events.append(("call", nm, call))
        super()._call(call, facts, in_threads, path)

    def _stmt(self, st, facts, in_threads, path):
        k = st.get("k")
        if k == "IfStmt":
            ce = self.cond_of(st)
            kids = st.get("c", [])
            if ce is not None and "info" in cx.idents(ce) and len(kids) > 1 and \
                    (cm.is_error_exit(kids[1]) or (len(kids) > 2 and cm.is_error_exit(kids[2]))):
                miss = _info_values_not_rejected(ce, then_is_error=cm.is_error_exit(kids[1]))
                if miss:
                    self.events.append(("weak-check", miss, st))
                else:
                    self.events.append(("check", None, st))
        elif k == "ReturnStmt" and not cm.is_error_exit(st):
            txt = self.c.text(st["b"], st["b"] + 24) if st.get("b") is not None else ""
            if not re.match(r"return\s+NULL\b", txt):       # `return NULL` is the error convention
                self.events.append(("return", None, st))
        return super()._stmt(st, facts, in_threads, path)


def _cval(e, info):
    k = e[0]
    if k == "num":
        return e[1]
    if k == "id":
        return info if e[1] == "info" else None
    if k == "cast":
        return _cval(e[2], info)
    if k == "un":
        v = _cval(e[2], info)
        if v is None:
            return None
        return {"!": int(not v), "-": -v, "+": v}.get(e[1])
    if k == "bin":
        a, b = _cval(e[2], info), _cval(e[3], info)
        if e[1] == "&&":
            return None if a is None or b is None else int(bool(a) and bool(b))
        if e[1] == "||":
            return None if a is None or b is None else int(bool(a) or bool(b))
        if a is None or b is None:
            return None
        ops = {"<": a < b, ">": a > b, "<=": a <= b, ">=": a >= b, "==": a == b, "!=": a != b}
        if e[1] in ops:
            return int(ops[e[1]])
        if e[1] in ("+", "-", "*"):
            return a + b if e[1] == "+" else a - b if e[1] == "-" else a * b
    return None


def _info_values_not_rejected(ce, then_is_error):
    """nonzero info values for which the test does not take its error exit (only when the
    condition depends on info alone; otherwise [] = not decided here)"""
    if cx.idents(ce) != {"info"}:
        return []
    out = []
    for v in (-3, -1, 1, 2, 7):
        r = _cval(ce, v)
        if r is None:
            return []
        if bool(r) != then_is_error:
            out.append(v)
    return out


_WC = {}


def _case_worker(args):
    repo, fn = args
    c = _WC.get(repo)
    if c is None:
        c = cf.load_c(repo, files=["lapack.c"])["lapack.c"]
        _WC[repo] = c
    ext = set(c.externs)
    sim = InfoSim(c, fn)
    sim.sign_vars = [v for v in sim.sign_vars if v != "info"]
    bad_info = None
    n_info_calls = 0
    flag_bad = None
    gil_bad = None
    ncase = 0
    for case in sim.cases():
        ncase += 1
        sites, end = sim.run(case, ext)
        pending = None
        for ev, nm, node in sim.events:
            if ev == "call":
                pending = (nm, node)
                n_info_calls += 1
            elif ev == "check":
                pending = None
            elif ev == "weak-check" and pending is not None and bad_info is None:
                bad_info = (pending[0] + " for info in %s (one-sided test)" % (nm,), repr(case), c.line_of(node.get("b")))
            elif ev == "return" and pending is not None and bad_info is None:
                bad_info = (pending[0], repr(case), c.line_of(node.get("b")))
        for s in sites:
            base = kbl.lookup(s.callee)
            if base and s.case.mid == "COMPLEX":
                for (pname, role), a in zip(kbl.ROUTINES[base], s.args):
                    if role == "flag" and a is not None:
                        v = cg.scalar_var(a)
                        if v and v in case.flags and s.case.flags.get(v) != case.flags[v] and flag_bad is None:
                            flag_bad = (s.callee, v, case.flags[v], s.case.flags.get(v), c.line_of(s.node.get("b")))
            if any("select" in t or "fselect" in t for t in s.args_text) and s.in_threads and gil_bad is None:
                gil_bad = (s.callee, c.line_of(s.node.get("b")))
    return fn, bad_info, n_info_calls, flag_bad, gil_bad, dict(sim.flag_vars), ncase


def build(tier, repo):
    chk = Check(
        "C18", tier, repo,
        explanation=(
            "Static analysis of src/C/lapack.c (clang AST + case-based abstract execution). Decides: "
            "(R1) the info value of every LAPACK call is tested (-> ArithmeticError/ValueError via "
            "err_lapack) on every path to a normal return, and err_lapack maps info<0/ >0 as documented; "
            "(R2) when the optional pivot/factor argument is omitted the routine gets a private copy of A "
            "made by a column loop whose source stride is A's leading dimension, destination stride the "
            "leading dimension passed for the copy, and column height the order, and A's own buffer "
            "otherwise; (R3) flag characters reach the complex routine exactly as validated (the "
            "'C'->'T' rewrite is confined to the real arm); (R4) workspace arrays are allocated with the "
            "element type they are passed as; select callbacks are never invoked without the GIL; (R5) "
            "real/complex arms are argument-wise identical up to precision and extra real work arrays; "
            "(R6) keyword/format/address tables agree, auxiliary arguments follow the naming convention, "
            "the manual's signatures are prefixes of the keyword lists. Footprint/guard agreement is "
            "decided under C19. NOT decided: residuals, orthogonality, ordering of results."),
        trusted_base=["clang 14 AST", "sa/cmodel.py abstract execution", "sa/kb_lapack.py parameter lists"],
        assumptions=["LAPACK routines compute what netlib documents", "Linux/LP64 configuration"])
    c = cf.load_c(repo, files=["lapack.c"])["lapack.c"]
    tabs = cf.method_table(c)
    if "lapack_functions" not in tabs:
        raise AnalysisError("lapack_functions table not found")
    table = tabs["lapack_functions"]
    wrappers = [fn for _, fn in table if fn in c.funcs]
    ext = set(c.externs)
    chk.note_analysed("wrappers", len(wrappers))

    r1 = chk.rule("C18-R1", "info of every LAPACK call is tested before a normal return; err_lapack maps the sign as documented",
                  "singular / non-positive-definite inputs raise ArithmeticError; illegal arguments ValueError")
    r3 = chk.rule("C18-R3", "validated flag characters reach the complex routine unchanged",
                  "the documented system (A, A^T or A^H) is the one solved")
    r4 = chk.rule("C18-R4", "workspace element types match; select callbacks run under the GIL",
                  "workspace handling / Schur select callbacks")
    ncase = 0
    from concurrent.futures import ProcessPoolExecutor
    with ProcessPoolExecutor(max_workers=12) as ex:
        results = list(ex.map(_case_worker, [(repo, fn) for fn in wrappers]))
    for fn, bad_info, n_info_calls, flag_bad, gil_bad, flag_vars, nc in results:
        ncase += nc
        where = "src/C/lapack.c:%s" % fn

        class _S:
            pass
        sim = _S()
        sim.flag_vars = flag_vars
        if n_info_calls:
            if bad_info:
                r1.violation("%s:info tested" % fn, where + ":%d" % bad_info[2],
                             "the wrapper can return normally without testing the info value of %s (case [%s]): a singular / "
                             "indefinite input or an illegal argument goes unreported" % (bad_info[0], bad_info[1]),
                             "if (info) err_lapack on every path after the call", "return without test")
            else:
                r1.ok("%s:info tested" % fn, where, "every call with &info is followed by a test on all paths")
        if flag_bad:
            r3.violation("%s:flag %s" % (fn, flag_bad[1]), where + ":%d" % flag_bad[4],
                         "the complex routine %s receives %s='%s' although the caller passed '%s': for complex data the "
                         "transposed and the conjugate-transposed system differ" % (flag_bad[0], flag_bad[1], flag_bad[3], flag_bad[2]),
                         "flag passed as validated", "'%s' -> '%s'" % (flag_bad[2], flag_bad[3]))
        elif sim.flag_vars:
            r3.ok("%s:flags" % fn, where, sorted(sim.flag_vars))
        if gil_bad:
            r4.violation("%s:select under GIL" % fn, where + ":%d" % gil_bad[1],
                         "a routine that calls back into Python (select) is invoked inside Py_BEGIN_ALLOW_THREADS",
                         "call with the GIL held", gil_bad[0])
    chk.note_analysed("cases", ncase)
    # the macro itself
    src = c.srcb.decode(errors="replace").replace("\\\n", " ")
    m = re.search(r"#define\s+err_lapack\s+(.*)", src)
    body = " ".join(m.group(1).split()) if m else ""
    if re.search(r"\(\s*info\s*<\s*0\s*\)\s*\?\s*PyExc_ValueError\s*:\s*PyExc_ArithmeticError", body) and "return NULL" in body:
        r1.ok("err_lapack macro", "src/C/lapack.c", "info<0 -> ValueError, info>0 -> ArithmeticError, returns NULL")
    else:
        r1.violation("err_lapack macro", "src/C/lapack.c", "err_lapack does not map the sign of info as documented",
                     "(info < 0) ? PyExc_ValueError : PyExc_ArithmeticError; return NULL", body[:120])
    r1.require(50)
    r3.require(30)

    # ---- R4 workspace element types ----------------------------------------------------
    for fn in wrappers:
        node = c.funcs[fn]
        arms = cw.arm_calls(c, node, ext)
        where = "src/C/lapack.c:%s" % fn
        # allocations per arm: text scan inside the arm statements
        sim = cm.Simulator(c, fn)
        for sw in [n for n in cf.walk(node) if n.get("k") == "SwitchStmt"]:
            ce = sim.cond_of(sw)
            if ce is None or not cm.is_type_id_expr(c, node, ce):
                continue
            for labels, stmts in sim._switch_arms(sw["c"][-1]):
                lab = labels[0]
                if lab not in ("DOUBLE", "COMPLEX"):
                    continue
                if not stmts or stmts[0].get("b") is None:
                    continue
                b0 = min(s.get("b") for s in stmts if s.get("b") is not None)
                e0 = max((s.get("e") or s.get("b")) for s in stmts if s.get("b") is not None)
                txt = c.text(b0, e0 + 400)
                cut = re.search(r"\n\s*case\s+\w+\s*:|\n\s*default\s*:", txt)
                if cut:
                    txt = txt[:cut.start()]
                allocs = dict((m_.group(1), m_.group(2)) for m_ in
                              re.finditer(r"(\w+)\s*=\s*\([^()]*\)\s*calloc\s*\([^;]*?sizeof\s*\(\s*(\w+)\s*\)", txt))
                for m_ in re.finditer(r"\(\s*(double|complex_t|int)\s*\*\s*\)\s*(\w+)\b(?!\s*\+\s*k)", txt):
                    ty, var = m_.group(1), m_.group(2)
                    if var in allocs:
                        key = "%s:%s arm:%s" % (fn, lab, var)
                        if allocs[var] == ty:
                            r4.ok(key, where, "calloc(.., sizeof(%s)) passed as (%s *)" % (ty, ty))
                        elif allocs[var] == "complex_t" and ty == "double":
                            r4.observe("%s: %s allocated as complex_t but passed as double* (over-allocation, harmless)" % (fn, var))
                        else:
                            r4.violation(key, where, "array `%s` is allocated with sizeof(%s) elements but handed over as (%s *): "
                                         "the routine addresses a different number of bytes" % (var, allocs[var], ty),
                                         "sizeof(%s)" % ty, "sizeof(%s)" % allocs[var])
    r4.require(40)

    # ---- R2 copy of A -----------------------------------------------------------------
    r2 = chk.rule("C18-R2", "without the optional pivot/factor argument the routine works on a private column-by-column copy of A with consistent strides",
                  "a driver called without ipiv leaves A unmodified and still solves the documented system")
    ncopy = 0
    for fn in wrappers:
        node = c.funcs[fn]
        where = "src/C/lapack.c:%s" % fn
        for f in [n for n in cf.walk(node) if n.get("k") == "ForStmt"]:
            mems = [n for n in cf.walk(f) if n.get("k") == "CallExpr" and cf.callee_name(n) == "memcpy" and not n.get("bm")]
            if len(mems) != 1:
                continue
            span = c.paren_after(mems[0]["b"])
            args = cf.split_top(c.text(span[0] + 1, span[1]))
            if len(args) != 3:
                continue
            try:
                dst, srcx, cnt = [cx.parse(a) for a in args]
            except cx.ParseError:
                continue
            sarr = cg.array_actual(srcx)
            if sarr is None:
                continue
            ncopy += 1
            X, soff, macro = sarr
            # loop variable from the for header text
            hdr = c.text(f["b"], f["b"] + 80)
            lv = re.search(r"for\s*\(\s*(\w+)\s*=", hdr)
            lv = lv.group(1) if lv else "k"
            from ..poly import Poly
            # source stride: coefficient of the loop variable in the source offset
            sstride = _coeff(soff, lv)
            dpoly = _dest_offset(dst)
            dstride = _coeff(dpoly, lv) if dpoly is not None else None
            key = "%s:copy of %s (%s)" % (fn, X, macro)
            ldname = "ld" + X
            want_src = Poly.sym(ldname)
            if sstride is None or dstride is None:
                r2.undecided(key, where, "copy loop strides not recognised")
                continue
            # the ld handed to the routine together with the copy: find the extern call in the same arm that takes the dest pointer
            dname = _dest_name(dst)
            ldpassed = None
            for call in [n for n in cf.walk(node) if n.get("k") == "CallExpr" and cf.callee_name(n) in ext and not n.get("bm")]:
                sp = c.paren_after(call["b"])
                a = cf.split_top(c.text(sp[0] + 1, sp[1]))
                for i, t in enumerate(a):
                    if re.fullmatch(r"\(\s*\w+\s*\*\s*\)\s*%s" % re.escape(dname or "?"), t.strip()) and i + 1 < len(a):
                        m2 = re.fullmatch(r"&\s*(\w+)", a[i + 1].strip())
                        if m2 and abs((call.get("b") or 0) - (mems[0].get("b") or 0)) < 1500:
                            ldpassed = m2.group(1)
            problems = []
            if sstride != want_src:
                problems.append("source stride %r (expected %s: A's leading dimension)" % (sstride, ldname))
            if ldpassed is not None:
                # `ldA = 2*kl+ku+1;` style re-assignment: compare symbolically through the text of the assignment
                if not (dstride == Poly.sym(ldpassed) or _assigned_equal(c, node, ldpassed, dstride)):
                    problems.append("destination stride %r differs from the leading dimension `%s` passed with the copy" % (dstride, ldpassed))
            if problems:
                r2.violation(key, where + ":%d" % c.line_of(mems[0]["b"]),
                             "the private copy of %s is not made column by column with consistent strides: %s" % (X, "; ".join(problems)),
                             "memcpy(copy + k*ld_copy, BUF(%s) + o%s + k*%s, rows*sizeof(T))" % (X, X, ldname), " ".join(args)[:120])
            else:
                r2.ok(key, where, "src stride %s, dst stride %r (= ld passed: %s)" % (ldname, dstride, ldpassed))
    chk.note_analysed("copy_loops", ncopy)
    r2.require(8)

    r5 = chk.rule("C18-R5", "real/complex sibling arms identical up to precision and extra real work arrays", "for real and complex data")
    cw.sibling_rule(r5, c, wrappers, pair_exceptions={
        "gees": "real Schur form returns eigenvalues in (wr, wi), complex in w: different argument lists by definition",
        "gges": "generalised real Schur form returns (alphar, alphai, beta): different argument lists by definition",
        "pttrs": "zpttrs takes an extra uplo argument"})
    cw.routine_name_rule(r5, c, wrappers)
    cw.subscript_offset_rule(r5, c, wrappers)
    nst = cw.arm_store_rule(r5, c, wrappers)
    chk.note_analysed("arm_store_sets", nst)
    r5.require(35)

    r7 = chk.rule("C18-R7", "32-bit pivot scratch arrays are copied from / back into the caller's integer matrix in the direction the routine uses them",
                  "pivots returned by a factorisation are the ones a later solve reads")
    # file-local helpers that do the element-wise transfer (classified by interpreting them: which of their
    # pointer parameters they write and which they read, sa/ckernel.py)
    from .. import ckernel as ck
    helpers_back, helpers_in = {}, {}
    for hf in c.order:
        if hf in wrappers:
            continue
        hn = c.funcs[hf]
        ptrs = [(i_, x_.get("n"), x_.get("t") or "") for i_, x_ in enumerate([y for y in hn.get("c", []) if y.get("k") == "ParmVarDecl"])]
        if not (2 <= len(ptrs) <= 4) or not any("matrix" in t_ for _, _, t_ in ptrs) or not any(re.search(r"\bint\s*\*", t_) for _, _, t_ in ptrs):
            continue
        try:
            ke = ck.KernelEval(c, hf)
            env = {nm: 2 for _, nm, t_ in ptrs if "*" not in t_}
            env.update({("loop", 1): 1, "seed": 0})
            acc = ke.run(env)
        except Exception:
            continue
        mat = next(nm for _, nm, t_ in ptrs if "matrix" in t_)
        iarr = next((i_, nm) for i_, nm, t_ in ptrs if re.search(r"\bint\s*\*", t_))
        wrote = {a_[0] for a_ in acc if a_[2] == "w"}
        read = {a_[0] for a_ in acc if a_[2] == "r"}
        mre = re.compile(r"MAT_BUF\w?\(%s\)$" % re.escape(mat))
        if any(mre.match(x_) for x_ in wrote) and iarr[1] in read:
            helpers_back[hf] = iarr[0]
        if iarr[1] in wrote and any(mre.match(x_) for x_ in read):
            helpers_in[hf] = iarr[0]

    def _helper_calls(txt_, table, P_):
        n_ = 0
        for hname, pos in table.items():
            for m2 in re.finditer(r"\b%s\s*\(" % re.escape(hname), txt_):
                i2, d2 = m2.end(), 1
                while i2 < len(txt_) and d2:
                    if txt_[i2] == "(":
                        d2 += 1
                    elif txt_[i2] == ")":
                        d2 -= 1
                    i2 += 1
                args2 = [a2.strip() for a2 in cf.split_top(txt_[m2.end():i2 - 1])]
                if pos < len(args2) and args2[pos] == P_:
                    n_ += 1
        return n_
    for fn in wrappers:
        node = c.funcs[fn]
        txt = cx.strip_pp(c.text(node["b"], node["e"]))
        allocs = re.findall(r"\b(\w+)\s*=\s*(?:\(\s*int\s*\*\s*\)\s*)?(?:malloc|calloc)\s*\([^;]*sizeof\s*\(\s*int\s*\)", txt)
        for P in sorted(set(allocs)):
            back = len(re.findall(r"MAT_BUFI\s*\(\s*\w+\s*\)\s*\[[^\]]*\]\s*=\s*%s\s*\[" % re.escape(P), txt)) + _helper_calls(txt, helpers_back, P)
            into = len(re.findall(r"\b%s\s*\[[^\]]*\]\s*=\s*(?:\(int\)\s*)?MAT_BUFI\s*\(" % re.escape(P), txt)) + _helper_calls(txt, helpers_in, P)
            # the same transfers written with walking pointers: `int *dst = P; const int_t *src = MAT_BUFI(X); .. *dst++ = *src++;`
            pal = set(re.findall(r"\*\s*(\w+)\s*=\s*%s\s*[;,]" % re.escape(P), txt))
            mal = set(re.findall(r"\*\s*(\w+)\s*=\s*MAT_BUFI\s*\(\s*\w+\s*\)\s*[;,]", txt))
            for d_ in pal:
                for s_ in mal:
                    into += len(re.findall(r"\*\s*%s\s*(?:\+\+)?\s*=\s*(?:\(int\)\s*)?\*\s*%s\b" % (re.escape(d_), re.escape(s_)), txt))
                    back += len(re.findall(r"\*\s*%s\s*(?:\+\+)?\s*=\s*(?:\(int_t\)\s*)?\*\s*%s\b" % (re.escape(s_), re.escape(d_)), txt))
            routines = sorted({m_.group(1) for m_ in re.finditer(r"\b([dz]\w+)_\s*\([^;]*\b%s\b" % re.escape(P), txt)})
            if not routines:
                continue
            base = kbl.lookup(routines[0] + "_") or routines[0][1:]
            # is P handed over in a pivot position at all (and not as integer work space)?
            if not re.search(r"piv|jpvt", P):
                continue
            out_kind = bool(re.search(r"(trf|sv|qp3)$", base))
            in_kind = bool(re.search(r"(trs|tri|qp3)$", base)) or fn in ("sysv", "hesv")
            key = "%s:%s" % (fn, P)
            where = "src/C/lapack.c:%s" % fn
            miss = []
            if out_kind and back < 1:
                miss.append("copied back into MAT_BUFI(..) after %s" % routines[0])
            if in_kind and not out_kind and into < 1:
                miss.append("filled from MAT_BUFI(..) before %s" % routines[0])
            # pivots that are pure *input* (solve / inverse after a factorisation) come from the caller: each entry is range-tested
            # before LAPACK uses it to interchange rows
            if in_kind and not out_kind and re.search(r"(trs|tri)$", base) and into >= 1:
                loop = re.search(r"for\s*\([^)]*\)\s*\{(?:[^{}]|\{[^{}]*\})*\b%s\s*\[[^\]]*\]\s*=\s*(?:\(int\)\s*)?MAT_BUFI\s*\(\s*(\w+)\s*\)" % re.escape(P), txt)
                tested = loop is not None and re.search(r"if\s*\([^;{]*MAT_BUFI\s*\(\s*%s\s*\)\s*\[[^\]]*\]\s*(?:<|>|==)" % re.escape(loop.group(1)), loop.group(0)) \
                    and re.search(r"PY_ERR|err_|return", loop.group(0))
                if not tested:
                    # the same loop with walking pointers: `while (src < end) { if (*src < 1 || *src > n) <error>; *dst++ = *src++; }`
                    for d_ in pal:
                        for s_ in mal:
                            lp2 = re.search(r"(?:while|for)\s*\([^)]*\)\s*\{(?:[^{}]|\{[^{}]*\})*\*\s*%s\s*(?:\+\+)?\s*=\s*(?:\(int\)\s*)?\*\s*%s\b" % (re.escape(d_), re.escape(s_)), txt)
                            if lp2 and re.search(r"if\s*\([^;{]*\*\s*%s\s*(?:<|>|==)" % re.escape(s_), lp2.group(0)) and re.search(r"PY_ERR|err_|return", lp2.group(0)):
                                tested = True
                k2 = "%s:%s entries are range-tested before %s" % (fn, P, routines[0])
                if tested:
                    r7.ok(k2, where)
                else:
                    r7.violation(k2, where,
                                 "the caller's pivot vector is copied into `%s` and handed to %s without a test that its entries are row numbers: LAPACK "
                                 "interchanges rows outside the matrices for a never-factored or corrupted ipiv (heap corruption)" % (P, routines[0]),
                                 "if (MAT_BUFI(ipiv)[i] < 1 || > n) -> ValueError inside the copy loop", "no range test")
            if miss:
                r7.violation(key, where, "the scratch pivot array `%s` is never %s: on LP64 the caller's integer matrix and the "
                             "array LAPACK used hold different pivots" % (P, " / ".join(miss)), "element-wise copy loop", "absent")
            else:
                r7.ok(key, where, "%s: %d copy-back, %d copy-in" % (base, back, into))
    r7.require(12)

    r6 = chk.rule("C18-R6", "keyword/format/address tables agree; naming convention of auxiliary arguments; manual signatures are prefixes of the keyword lists",
                  "size-inconsistent arguments raise TypeError/ValueError; documented keywords are accepted")
    cw.signature_rule(r6, c, wrappers)
    cw.parse_target_rule(r6, c, wrappers)
    cw.naming_rule(r6, c, wrappers)
    rst_path = os.path.join(repo, "doc", "source", "lapack.rst")
    rst = open(rst_path).read() if os.path.exists(rst_path) else ""
    for py, fn in table:
        if fn not in c.funcs:
            continue
        w = cm.Wrapper(c, fn)
        pp = w.py_params()
        if not pp:
            continue
        kws = [p[0] for p in pp]
        mm = re.search(r"^\.\. function:: cvxopt\.lapack\.%s\((.*)\)\s*$" % re.escape(py), rst, re.M)
        if mm:
            sig = re.sub(r"[\[\]{}()]", "", mm.group(1))
            names = [p.split("=")[0].strip() for p in cf.split_top(sig) if p.strip()]
            if names == kws[:len(names)]:
                r6.ok("%s:rst prefix" % fn, "doc/source/lapack.rst:%s" % py, names)
            else:
                r6.violation("%s:rst prefix" % fn, "doc/source/lapack.rst:%s" % py, "manual signature is not a prefix of the keyword list",
                             kws[:len(names)], names)
    from .. import cmisc_rules as mr5
    from .. import crefusal
    r8 = chk.rule("C18-R8", "no refusal of a wrapper is dead (repeats a test its block has already made)",
                  "size-inconsistent arguments raise TypeError/ValueError: the check a message announces exists")
    chk.note_analysed("refusals_checked", crefusal.dead_refusal_rule(r8, c, wrappers))
    r8.require(300)
    r9 = chk.rule("C18-R9", "free() is applied to local work arrays only, never to a Python object argument",
                  "arguments are left intact on every exit, including allocation failures")
    chk.note_analysed("frees_checked", mr5.free_local_rule(r9, {"lapack.c": c}, ["lapack.c"]))
    r9.require(20)
    r10 = chk.rule("C18-R10", "work arrays have the same element count in the real and the complex arm; scratch pivot copies cover every allocated element",
                   "documented outputs (pivot vectors) are complete; no routine writes past its work space")
    chk.note_analysed("arm_allocations", mr5.arm_alloc_rule(r10, c, wrappers))
    chk.note_analysed("scratch_copy_loops", mr5.scratch_copy_bound_rule(r10, c, wrappers))
    r10.require(20)
    r6.require(150)
    from .. import w7_rules as w7
    r11 = chk.rule("C18-R11", "the default of ld<X> comes from X itself; every matrix read in a typed arm is tied to the switch subject by an id test; "
                   "callback slots are saved, set and restored around the call; real/complex siblings return early under the same conditions",
                   "size- and type-inconsistent arguments are refused; nested calls from a select callback keep the outer callback")
    chk.note_analysed("ld_defaults", w7.ld_default_rule(r11, c, "lapack.c", wrappers))
    chk.note_analysed("typed_arm_reads", w7.id_agreement_rule(r11, c, "lapack.c", wrappers))
    chk.note_analysed("callback_slot_sets", w7.callback_restore_rule(r11, c, "lapack.c"))
    chk.note_analysed("sibling_pairs", w7.sibling_return_rule(r11, c, "lapack.c", wrappers))
    r11.require(200)
    return chk


def _coeff(p, var):
    """polynomial coefficient of `var` (degree 1) in p, as a Poly"""
    from ..poly import Poly
    out = {}
    for mono, cval in p.t.items():
        d = dict(mono)
        if d.get(var, 0) == 1:
            d.pop(var)
            out[tuple(sorted(d.items()))] = cval
        elif d.get(var, 0) > 1:
            return None
    return Poly(out)


def _dest_offset(e):
    e = cx.strip_casts(e)
    if e[0] == "bin" and e[1] == "+":
        l = cx.strip_casts(e[2])
        if l[0] == "id" or (l[0] == "bin" and l[1] == "+"):
            inner = _dest_offset(e[2]) if l[0] == "bin" else None
            off = cx.to_poly(e[3])
            if off is None:
                return None
            from ..poly import Poly
            return (inner or Poly.const(0)) + off
    if e[0] == "id":
        from ..poly import Poly
        return Poly.const(0)
    return None


def _dest_name(e):
    e = cx.strip_casts(e)
    while e[0] == "bin" and e[1] == "+":
        e = cx.strip_casts(e[2])
    return e[1] if e[0] == "id" else None


def _assigned_equal(c, node, var, poly):
    """is there an assignment `var = E` in the function with E == poly?"""
    for n in cf.walk(node):
        if n.get("k") == "BinaryOperator" and n.get("op") == "=" and not n.get("bm") and n.get("c"):
            t = cf.strip(n["c"][0])
            if t.get("k") == "DeclRefExpr" and t.get("ref") == var:
                txt = c.stmt_text_until_semicolon(n["b"])
                try:
                    e = cx.parse(txt)
                except cx.ParseError:
                    continue
                if e[0] == "assign":
                    p = cx.to_poly(e[3])
                    if p is not None and p == poly:
                        return True
    return False
