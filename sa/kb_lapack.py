"""Reference parameter lists of the LAPACK routines wrapped by src/C/lapack.c (netlib
LAPACK documentation), in the format of kb_blas.ROUTINES.  Array roles:
  M(rows, cols, ld)   general/triangular/symmetric matrix stored column-major
  V1(len)             contiguous vector
  'work' / 'local'    workspace or locally allocated array (checked by the allocation rule)
Specs: a dim name, an int, ('min',a,b), ('max',a,b), ('sum',a,b,..), ('sd',flag,a,b),
('tr',flag,a,b), ('job', flag, {'A': spec, 'S': spec, ...})."""
from .kb_blas import M, V


def V1(n):
    return ("vec1", n)


def P(*items):
    out = []
    for it in items:
        if isinstance(it, tuple):
            out.append(it)
        else:
            out.append((it, {"n": "dim", "m": "dim", "k": "dim", "nrhs": "dim", "kl": "dim", "ku": "dim", "kd": "dim",
                             "lda": "ld", "ldb": "ld", "ldc": "ld", "ldab": "ld", "ldz": "ld", "ldu": "ld", "ldvt": "ld",
                             "ldvs": "ld", "ldvsl": "ld", "ldvsr": "ld",
                             "uplo": "flag", "trans": "flag", "diag": "flag", "side": "flag", "jobz": "flag",
                             "range": "flag", "jobu": "flag", "jobvt": "flag", "jobvs": "flag", "sort": "flag",
                             "jobvsl": "flag", "jobvsr": "flag",
                             "info": "info", "work": "work", "lwork": "scalar", "rwork": "work", "iwork": "work",
                             "liwork": "scalar", "lrwork": "scalar", "bwork": "work"}.get(it, "scalar")))
    return out


MN = ("min", "m", "n")
ROUTINES = {
    "getrf": P("m", "n", ("A", M("m", "n", "lda")), "lda", ("ipiv", V1(MN)), "info"),
    "getrs": P("trans", "n", "nrhs", ("A", M("n", "n", "lda")), "lda", ("ipiv", V1("n")), ("B", M("n", "nrhs", "ldb")), "ldb", "info"),
    "getri": P("n", ("A", M("n", "n", "lda")), "lda", ("ipiv", V1("n")), "work", "lwork", "info"),
    "gesv": P("n", "nrhs", ("A", M("n", "n", "lda")), "lda", ("ipiv", V1("n")), ("B", M("n", "nrhs", "ldb")), "ldb", "info"),
    "gbtrf": P("m", "n", "kl", "ku", ("A", M(("sum", "kl", "kl", "ku", 1), "n", "ldab")), "ldab", ("ipiv", V1(MN)), "info"),
    "gbtrs": P("trans", "n", "kl", "ku", "nrhs", ("A", M(("sum", "kl", "kl", "ku", 1), "n", "ldab")), "ldab", ("ipiv", V1("n")),
               ("B", M("n", "nrhs", "ldb")), "ldb", "info"),
    "gbsv": P("n", "kl", "ku", "nrhs", ("A", M(("sum", "kl", "kl", "ku", 1), "n", "ldab")), "ldab", ("ipiv", V1("n")),
              ("B", M("n", "nrhs", "ldb")), "ldb", "info"),
    "gttrf": P("n", ("dl", V1(("sum", "n", -1))), ("d", V1("n")), ("du", V1(("sum", "n", -1))), ("du2", V1(("sum", "n", -2))),
               ("ipiv", V1("n")), "info"),
    "gttrs": P("trans", "n", "nrhs", ("dl", V1(("sum", "n", -1))), ("d", V1("n")), ("du", V1(("sum", "n", -1))),
               ("du2", V1(("sum", "n", -2))), ("ipiv", V1("n")), ("B", M("n", "nrhs", "ldb")), "ldb", "info"),
    "gtsv": P("n", "nrhs", ("dl", V1(("sum", "n", -1))), ("d", V1("n")), ("du", V1(("sum", "n", -1))), ("B", M("n", "nrhs", "ldb")), "ldb", "info"),
    "potrf": P("uplo", "n", ("A", M("n", "n", "lda")), "lda", "info"),
    "potrs": P("uplo", "n", "nrhs", ("A", M("n", "n", "lda")), "lda", ("B", M("n", "nrhs", "ldb")), "ldb", "info"),
    "potri": P("uplo", "n", ("A", M("n", "n", "lda")), "lda", "info"),
    "posv": P("uplo", "n", "nrhs", ("A", M("n", "n", "lda")), "lda", ("B", M("n", "nrhs", "ldb")), "ldb", "info"),
    "pbtrf": P("uplo", "n", "kd", ("A", M(("sum", "kd", 1), "n", "ldab")), "ldab", "info"),
    "pbtrs": P("uplo", "n", "kd", "nrhs", ("A", M(("sum", "kd", 1), "n", "ldab")), "ldab", ("B", M("n", "nrhs", "ldb")), "ldb", "info"),
    "pbsv": P("uplo", "n", "kd", "nrhs", ("A", M(("sum", "kd", 1), "n", "ldab")), "ldab", ("B", M("n", "nrhs", "ldb")), "ldb", "info"),
    "pttrf": P("n", ("d", V1("n")), ("e", V1(("sum", "n", -1))), "info"),
    "dpttrs": P("n", "nrhs", ("d", V1("n")), ("e", V1(("sum", "n", -1))), ("B", M("n", "nrhs", "ldb")), "ldb", "info"),
    "zpttrs": P("uplo", "n", "nrhs", ("d", V1("n")), ("e", V1(("sum", "n", -1))), ("B", M("n", "nrhs", "ldb")), "ldb", "info"),
    "ptsv": P("n", "nrhs", ("d", V1("n")), ("e", V1(("sum", "n", -1))), ("B", M("n", "nrhs", "ldb")), "ldb", "info"),
    "sytrf": P("uplo", "n", ("A", M("n", "n", "lda")), "lda", ("ipiv", V1("n")), "work", "lwork", "info"),
    "sytrs": P("uplo", "n", "nrhs", ("A", M("n", "n", "lda")), "lda", ("ipiv", V1("n")), ("B", M("n", "nrhs", "ldb")), "ldb", "info"),
    "sytri": P("uplo", "n", ("A", M("n", "n", "lda")), "lda", ("ipiv", V1("n")), "work", "info"),
    "sysv": P("uplo", "n", "nrhs", ("A", M("n", "n", "lda")), "lda", ("ipiv", V1("n")), ("B", M("n", "nrhs", "ldb")), "ldb", "work", "lwork", "info"),
    "trtrs": P("uplo", "trans", "diag", "n", "nrhs", ("A", M("n", "n", "lda")), "lda", ("B", M("n", "nrhs", "ldb")), "ldb", "info"),
    "trtri": P("uplo", "diag", "n", ("A", M("n", "n", "lda")), "lda", "info"),
    "tbtrs": P("uplo", "trans", "diag", "n", "kd", "nrhs", ("A", M(("sum", "kd", 1), "n", "ldab")), "ldab", ("B", M("n", "nrhs", "ldb")), "ldb", "info"),
    "gels": P("trans", "m", "n", "nrhs", ("A", M("m", "n", "lda")), "lda", ("B", M(("max", "m", "n"), "nrhs", "ldb")), "ldb", "work", "lwork", "info"),
    "geqrf": P("m", "n", ("A", M("m", "n", "lda")), "lda", ("tau", V1(MN)), "work", "lwork", "info"),
    "gelqf": P("m", "n", ("A", M("m", "n", "lda")), "lda", ("tau", V1(MN)), "work", "lwork", "info"),
    "ormqr": P("side", "trans", "m", "n", "k", ("A", M(("sd", "side", "m", "n"), "k", "lda")), "lda", ("tau", V1("k")),
               ("C", M("m", "n", "ldc")), "ldc", "work", "lwork", "info"),
    "ormlq": P("side", "trans", "m", "n", "k", ("A", M("k", ("sd", "side", "m", "n"), "lda")), "lda", ("tau", V1("k")),
               ("C", M("m", "n", "ldc")), "ldc", "work", "lwork", "info"),
    "orgqr": P("m", "n", "k", ("A", M("m", "n", "lda")), "lda", ("tau", V1("k")), "work", "lwork", "info"),
    "orglq": P("m", "n", "k", ("A", M("m", "n", "lda")), "lda", ("tau", V1("k")), "work", "lwork", "info"),
    "syev": P("jobz", "uplo", "n", ("A", M("n", "n", "lda")), "lda", ("W", V1("n")), "work", "lwork", "info"),
    "heev": P("jobz", "uplo", "n", ("A", M("n", "n", "lda")), "lda", ("W", V1("n")), "work", "lwork", "rwork", "info"),
    "syevd": P("jobz", "uplo", "n", ("A", M("n", "n", "lda")), "lda", ("W", V1("n")), "work", "lwork", "iwork", "liwork", "info"),
    "heevd": P("jobz", "uplo", "n", ("A", M("n", "n", "lda")), "lda", ("W", V1("n")), "work", "lwork", "rwork", "lrwork", "iwork", "liwork", "info"),
    "sygv": P("itype", "jobz", "uplo", "n", ("A", M("n", "n", "lda")), "lda", ("B", M("n", "n", "ldb")), "ldb", ("W", V1("n")), "work", "lwork", "info"),
    "hegv": P("itype", "jobz", "uplo", "n", ("A", M("n", "n", "lda")), "lda", ("B", M("n", "n", "ldb")), "ldb", ("W", V1("n")), "work", "lwork", "rwork", "info"),
    "lacpy": P("uplo", "m", "n", ("A", M("m", "n", "lda")), "lda", ("B", M("m", "n", "ldb")), "ldb"),
    "geqp3": P("m", "n", ("A", M("m", "n", "lda")), "lda", ("jpvt", V1("n")), ("tau", V1(MN)), "work", "lwork", "info"),
    "zgeqp3": P("m", "n", ("A", M("m", "n", "lda")), "lda", ("jpvt", V1("n")), ("tau", V1(MN)), "work", "lwork", "rwork", "info"),
}
ALIASES = {"hetrf": "sytrf", "hetrs": "sytrs", "hetri": "sytri", "hesv": "sysv", "unmqr": "ormqr", "unmlq": "ormlq",
           "ungqr": "orgqr", "unglq": "orglq"}


def lookup(sym):
    s = sym.rstrip("_")
    if s in ROUTINES:
        return s
    if s[:1] in ("d", "z"):
        b = s[1:]
        b = ALIASES.get(b, b)
        if s in ROUTINES:
            return s
        if b in ROUTINES:
            return b
    return None
