# pivot vectors are passed to LAPACK unchecked: a fresh (all-zero) or out-of-range ipiv corrupts the heap / segfaults
import subprocess, sys
code = r'''
from cvxopt import matrix, lapack
A = matrix([[4.0,1.0,0.0],[1.0,4.0,1.0],[0.0,1.0,4.0]]); B = matrix([1.0,2.0,3.0])
ipiv = matrix(%s, (3,1), 'i')
try:
    %s
    print("returned normally", list(B))
except Exception as e:
    print(type(e).__name__, e)
'''
for ip, call in (("0", "lapack.getrs(A, ipiv, B)   # forgot getrf"),
                 ("10**8", "lapack.getrs(A, ipiv, B)"),
                 ("10**8", "lapack.getri(A, ipiv)"),
                 ("10**8", "lapack.sytrs(A, ipiv, B)"),
                 ("2**32+2", "lapack.getrs(A, ipiv, B)   # 64-bit entries silently truncated to int")):
    r = subprocess.run([sys.executable, "-c", code % (ip, call)], capture_output=True, text=True)
    print("ipiv=%-8s %-62s rc=%d %s %s" % (ip, call, r.returncode, r.stdout.strip(), r.stderr.strip().splitlines()[-1] if r.stderr.strip() else ""))
