# V5: rows without nonzero coefficients are dropped (row count changes) or make the file unreadable
from cvxopt import solvers; solvers.options['show_progress'] = False
from cvxopt import matrix
from cvxopt.modeling import variable, op
x = variable(2, 'x')
A = matrix([[1., 0.], [1., 0.]])        # second row is zero
lp = op(x[0], [A*x <= 1, x >= 0])
lp.tofile('/var/tmp/fz/r5a.mps')
lp2 = op(); lp2.fromfile('/var/tmp/fz/r5a.mps')
print(lp, '->', lp2)
lp = op(x[0], [A*x <= -1, x >= 0])      # 0 <= -1 : an infeasible LP
lp.tofile('/var/tmp/fz/r5b.mps')
try:
    lp2 = op(); lp2.fromfile('/var/tmp/fz/r5b.mps'); print(lp2)
except Exception as e: print('fromfile raised', type(e).__name__, e)
lp.solve(); print('original status:', lp.status)
