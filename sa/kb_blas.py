"""Reference semantics of the BLAS routines wrapped by src/C/blas.c (netlib reference
BLAS documentation): parameter lists with roles and, for every array parameter, its
footprint (number of elements touched, counted from the pointer passed) as a polynomial
in the routine's own scalar parameters, per flag case.  This table is the outside
oracle of C17/C19 and part of the trusted base.

Each entry: name (without precision prefix / underscore) ->
  params: list of (pname, role) with role in
     flag, dim, scalar, inc, ld, vec:<len-spec>:<inc-pname>, mat:<rows>:<cols>:<ld-pname>,
     band:<cols>:<band-height-expr>:<ld>, out-scalar
Length/rows/cols specs are small expressions over dims evaluated with flags:
  'n', 'm', 'k', or a conditional written  flag=='X'?a:b
"""
from .poly import Poly

ONE = Poly.const(1)


def V(nlen, inc):
    return ("vec", nlen, inc)


def M(rows, cols, ld):
    return ("mat", rows, cols, ld)


def B(cols, height, ld):
    return ("band", cols, height, ld)


def side(flag, a, b):
    """rows spec chosen by a flag: ('cond', flagname, {'L': a, 'R': b})"""
    return ("cond", flag, a, b)


ROUTINES = {
    # level 1
    "swap": [("n", "dim"), ("x", V("n", "incx")), ("incx", "inc"), ("y", V("n", "incy")), ("incy", "inc")],
    "scal": [("n", "dim"), ("alpha", "scalar"), ("x", V("n", "incx")), ("incx", "inc")],
    "copy": [("n", "dim"), ("x", V("n", "incx")), ("incx", "inc"), ("y", V("n", "incy")), ("incy", "inc")],
    "axpy": [("n", "dim"), ("alpha", "scalar"), ("x", V("n", "incx")), ("incx", "inc"), ("y", V("n", "incy")), ("incy", "inc")],
    "dot": [("n", "dim"), ("x", V("n", "incx")), ("incx", "inc"), ("y", V("n", "incy")), ("incy", "inc")],
    "nrm2": [("n", "dim"), ("x", V("n", "incx")), ("incx", "inc")],
    "asum": [("n", "dim"), ("x", V("n", "incx")), ("incx", "inc")],
    "amax": [("n", "dim"), ("x", V("n", "incx")), ("incx", "inc")],
    # level 2
    "gemv": [("trans", "flag"), ("m", "dim"), ("n", "dim"), ("alpha", "scalar"), ("A", M("m", "n", "lda")), ("lda", "ld"),
             ("x", V(("tr", "trans", "n", "m"), "incx")), ("incx", "inc"), ("beta", "scalar"),
             ("y", V(("tr", "trans", "m", "n"), "incy")), ("incy", "inc")],
    "gbmv": [("trans", "flag"), ("m", "dim"), ("n", "dim"), ("kl", "dim"), ("ku", "dim"), ("alpha", "scalar"),
             ("A", B("n", ("sum", "kl", "ku", 1), "lda")), ("lda", "ld"),
             ("x", V(("tr", "trans", "n", "m"), "incx")), ("incx", "inc"), ("beta", "scalar"),
             ("y", V(("tr", "trans", "m", "n"), "incy")), ("incy", "inc")],
    "symv": [("uplo", "flag"), ("n", "dim"), ("alpha", "scalar"), ("A", M("n", "n", "lda")), ("lda", "ld"),
             ("x", V("n", "incx")), ("incx", "inc"), ("beta", "scalar"), ("y", V("n", "incy")), ("incy", "inc")],
    "sbmv": [("uplo", "flag"), ("n", "dim"), ("k", "dim"), ("alpha", "scalar"), ("A", B("n", ("sum", "k", 1), "lda")),
             ("lda", "ld"), ("x", V("n", "incx")), ("incx", "inc"), ("beta", "scalar"), ("y", V("n", "incy")), ("incy", "inc")],
    "trmv": [("uplo", "flag"), ("trans", "flag"), ("diag", "flag"), ("n", "dim"), ("A", M("n", "n", "lda")), ("lda", "ld"),
             ("x", V("n", "incx")), ("incx", "inc")],
    "tbmv": [("uplo", "flag"), ("trans", "flag"), ("diag", "flag"), ("n", "dim"), ("k", "dim"),
             ("A", B("n", ("sum", "k", 1), "lda")), ("lda", "ld"), ("x", V("n", "incx")), ("incx", "inc")],
    "ger": [("m", "dim"), ("n", "dim"), ("alpha", "scalar"), ("x", V("m", "incx")), ("incx", "inc"),
            ("y", V("n", "incy")), ("incy", "inc"), ("A", M("m", "n", "lda")), ("lda", "ld")],
    "syr": [("uplo", "flag"), ("n", "dim"), ("alpha", "scalar"), ("x", V("n", "incx")), ("incx", "inc"),
            ("A", M("n", "n", "lda")), ("lda", "ld")],
    "syr2": [("uplo", "flag"), ("n", "dim"), ("alpha", "scalar"), ("x", V("n", "incx")), ("incx", "inc"),
             ("y", V("n", "incy")), ("incy", "inc"), ("A", M("n", "n", "lda")), ("lda", "ld")],
    # level 3
    "gemm": [("transa", "flag"), ("transb", "flag"), ("m", "dim"), ("n", "dim"), ("k", "dim"), ("alpha", "scalar"),
             ("A", M(("tr", "transa", "m", "k"), ("tr", "transa", "k", "m"), "lda")), ("lda", "ld"),
             ("B", M(("tr", "transb", "k", "n"), ("tr", "transb", "n", "k"), "ldb")), ("ldb", "ld"),
             ("beta", "scalar"), ("C", M("m", "n", "ldc")), ("ldc", "ld")],
    "symm": [("side", "flag"), ("uplo", "flag"), ("m", "dim"), ("n", "dim"), ("alpha", "scalar"),
             ("A", M(("sd", "side", "m", "n"), ("sd", "side", "m", "n"), "lda")), ("lda", "ld"),
             ("B", M("m", "n", "ldb")), ("ldb", "ld"), ("beta", "scalar"), ("C", M("m", "n", "ldc")), ("ldc", "ld")],
    "syrk": [("uplo", "flag"), ("trans", "flag"), ("n", "dim"), ("k", "dim"), ("alpha", "scalar"),
             ("A", M(("tr", "trans", "n", "k"), ("tr", "trans", "k", "n"), "lda")), ("lda", "ld"),
             ("beta", "scalar"), ("C", M("n", "n", "ldc")), ("ldc", "ld")],
    "syr2k": [("uplo", "flag"), ("trans", "flag"), ("n", "dim"), ("k", "dim"), ("alpha", "scalar"),
              ("A", M(("tr", "trans", "n", "k"), ("tr", "trans", "k", "n"), "lda")), ("lda", "ld"),
              ("B", M(("tr", "trans", "n", "k"), ("tr", "trans", "k", "n"), "ldb")), ("ldb", "ld"),
              ("beta", "scalar"), ("C", M("n", "n", "ldc")), ("ldc", "ld")],
    "trmm": [("side", "flag"), ("uplo", "flag"), ("transa", "flag"), ("diag", "flag"), ("m", "dim"), ("n", "dim"),
             ("alpha", "scalar"), ("A", M(("sd", "side", "m", "n"), ("sd", "side", "m", "n"), "lda")), ("lda", "ld"),
             ("B", M("m", "n", "ldb")), ("ldb", "ld")],
}
ALIASES = {"hemv": "symv", "hbmv": "sbmv", "trsv": "trmv", "tbsv": "tbmv", "geru": "ger", "gerc": "ger",
           "her": "syr", "her2": "syr2", "hemm": "symm", "herk": "syrk", "her2k": "syr2k", "trsm": "trmm",
           "dotc": "dot", "dotu": "dot", "dznrm2": "nrm2", "dzasum": "asum"}
# Fortran symbol -> (kb name)
def lookup(sym):
    """'dgemv_' -> 'gemv'; 'izamax_' -> 'amax'; 'dznrm2_' -> 'nrm2'; None if unknown"""
    if sym.startswith("tbl:"):
        b = sym[4:]
        b = ALIASES.get(b, b)
        return b if b in ROUTINES else None
    s = sym.rstrip("_")
    for pre in ("dz", "iz", "id", "zd", "d", "z"):
        if s.startswith(pre):
            base = s[len(pre):]
            base = ALIASES.get(base, base)
            if base in ROUTINES:
                return base
    return None


def _spec(spec, vals, flags):
    """evaluate a length/rows/cols spec -> (Poly, symbol names involved) ; vals: pname -> Poly"""
    if isinstance(spec, str):
        return vals[spec], {spec}
    if isinstance(spec, int):
        return Poly.const(spec), set()
    k = spec[0]
    if k == "tr":        # ('tr', flag, if 'N', otherwise)
        f = flags.get(spec[1])
        if f is None:
            return None, set()
        return _spec(spec[2] if f == "N" else spec[3], vals, flags)
    if k == "sd":        # ('sd', flag, if 'L', if 'R')
        f = flags.get(spec[1])
        if f is None:
            return None, set()
        return _spec(spec[2] if f == "L" else spec[3], vals, flags)
    if k in ("min", "max"):
        a, an = _spec(spec[1], vals, flags)
        b, bn = _spec(spec[2], vals, flags)
        if a is None or b is None:
            return None, set()
        ta, tb = sorted([_symname(a), _symname(b)])
        # MIN is zero when either is zero; MAX only when both are: callers test `names & zero`
        return Poly.sym("%s(%s, %s)" % ("MIN" if k == "min" else "MAX", ta, tb)), (an | bn if k == "min" else set())
    if k == "sum":
        tot, names = Poly.const(0), set()
        for x in spec[1:]:
            p, nn = _spec(x, vals, flags)
            if p is None:
                return None, set()
            tot, names = tot + p, names | nn
        return tot, names
    return None, set()


def footprint(role, vals, flags, zero_dims):
    """-> (Poly footprint or None when nothing is referenced / undecidable, reason, min_ld Poly or None)
    vals: pname -> Poly of the actual; flags: pname -> char; zero_dims: set of pnames that are 0"""
    k = role[0]
    if k == "vec":
        n, names = _spec(role[1], vals, flags)
        if n is None:
            return ("?", "flag value unknown", None)
        if names & zero_dims:
            return (None, "zero length", None)
        inc = vals[role[2]]
        return (ONE + (n - ONE) * Poly.sym("abs(%s)" % _symname(inc)), "", None)
    if k == "vec1":
        n, names = _spec(role[1], vals, flags)
        if n is None:
            return ("?", "flag value unknown", None)
        if names & zero_dims:
            return (None, "zero length", None)
        return (n, "", None)
    if k == "mat":
        r, rn = _spec(role[1], vals, flags)
        c, cn = _spec(role[2], vals, flags)
        if r is None or c is None:
            return ("?", "flag value unknown", None)
        ld = vals[role[3]]
        if (rn | cn) & zero_dims:
            return (None, "empty matrix", r)
        return ((c - ONE) * ld + r, "", r)
    if k == "band":
        c, cn = _spec(role[1], vals, flags)
        h, hn = _spec(role[2], vals, flags)
        if c is None or h is None:
            return ("?", "flag value unknown", None)
        ld = vals[role[3]]
        if cn & zero_dims:
            return (None, "empty matrix", h)
        return ((c - ONE) * ld + h, "", h)
    return ("?", "unknown role", None)


def _symname(p):
    """textual name of a single-symbol polynomial (the inc actual is always a variable)"""
    syms = sorted(p.symbols())
    if len(syms) == 1 and p == Poly.sym(syms[0]):
        return syms[0]
    return repr(p)
