#!/usr/bin/env python3
"""usage: rebase_seed.py <seed> <file> <func or ''> <old> <new> [<occurrence index>]  -- rewrite seeded/<seed>/patch.diff against current /repo"""
import os, subprocess, sys, shutil, tempfile
seed, path, func, old, new = sys.argv[1:6]
occ = int(sys.argv[6]) if len(sys.argv) > 6 else 0
src = open(os.path.join("/repo", path)).read()
lo, hi = 0, len(src)
if func:
    lo = src.index(func)
    nx = src.find("\nstatic ", lo + 10)
    hi = nx if nx > 0 else len(src)
seg = src[lo:hi]
idx = -1
for _ in range(occ + 1):
    idx = seg.index(old, idx + 1)
seg2 = seg[:idx] + new + seg[idx + len(old):]
out = src[:lo] + seg2 + src[hi:]
d = tempfile.mkdtemp(dir="/var/tmp")
for sub in ("a", "b"):
    os.makedirs(os.path.join(d, sub, os.path.dirname(path)))
open(os.path.join(d, "a", path), "w").write(src)
open(os.path.join(d, "b", path), "w").write(out)
r = subprocess.run(["diff", "-u", os.path.join("a", path), os.path.join("b", path)], cwd=d, capture_output=True, text=True)
open("/verif/seeded/%s/patch.diff" % seed, "w").write(r.stdout)
shutil.rmtree(d)
print(seed, "rebased,", r.stdout.count("\n@@"), "hunk(s)")
