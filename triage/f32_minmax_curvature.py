# F-32: a multi-argument max() of a concave function (or min() of a convex one) was accepted as
# convex (concave): only the single-argument branch of _minmax.__init__ tested the curvature.
from cvxopt import matrix
from cvxopt.modeling import variable, max as mmax, min as mmin
x = variable(1, 'x'); z = variable(1, 'z'); v = variable(3, 'v'); w = variable(3, 'w')
def attempt(label, thunk):
    try:
        f = thunk()
        print(label, "ACCEPTED:", type(f).__name__,
              "convex" if getattr(f, "_isconvex", lambda: None)() else "", "concave" if getattr(f, "_isconcave", lambda: None)() else "")
    except Exception as e:
        print(label, "refused:", type(e).__name__)
attempt("max(min(x,z), z)       [not convex]", lambda: mmax(mmin(x, z), z))
attempt("min(max(x,z), z)       [not concave]", lambda: mmin(mmax(x, z), z))
attempt("max(min(v,w))          [max of concave components]", lambda: mmax(mmin(v, w)))
attempt("max(max(x,z), z, 1.0)  [convex, must stay accepted]", lambda: mmax(mmax(x, z), z, 1.0))
attempt("min([x, z, 1.0])       [list form, must stay accepted]", lambda: mmin([x, z, 1.0]))
attempt("max(v)                 [max component, must stay accepted]", lambda: mmax(v))
