"""C20 - matrices survive serialisation, copying and buffer exchange unchanged
(structural part: stable storage under export, reduce <-> constructor agreement,
tofile/fromfile symmetry, stride-correct buffer import, copy vs alias)."""
import re

from .. import cdense as cd
from .. import cexpr as cx
from .. import cfront as cf
from .. import cmodel as cm
from ..core import Check, AnalysisError


def _fn_text(c, fn):
    n = c.funcs[fn]
    return c.text(n["b"], n["e"])


def _squash(t):
    return re.sub(r"\s+", "", t)


def build(tier, repo):
    chk = Check(
        "C20", tier, repo,
        explanation=(
            "Static analysis of dense.c / sparse.c. Value equality after a round trip is NOT decided. "
            "Decided structural clauses: (R1) storage of an exported matrix is stable: the fields "
            "buffer/id/nrows/ncols have a closed writer set and buffers are freed only on deallocation; "
            "getbuf hands out the matrix's own buffer, takes a reference, counts the export and "
            "*unconditionally* refreshes shape and strides from the current size; relbuf undoes the count; "
            "(R2) __reduce__ returns (type, state) whose state has the arity, order and kinds of the "
            "constructor's parameters, the list has length-of-matrix items produced with the matrix's own "
            "type; sparse state is (V, I, J, size, tc) as spmatrix_new expects; (R3) tofile and fromfile use "
            "one and the same byte count expression on the matrix buffer and fromfile checks the number of "
            "bytes read; (R4) buffer import reads every element through both strides as byte offsets with a "
            "cast that matches the source format, and import/export share one format table; (R5) "
            "matrix(x), +x and slicing build new objects via Matrix_New*."),
        trusted_base=["clang 14 AST", "sa/cexpr.py"],
        assumptions=["Python buffer protocol semantics", "Linux/LP64 configuration"])
    cs = cf.load_c(repo, files=["dense.c", "base.c", "sparse.c", "blas.c", "lapack.c", "misc_solvers.c"])
    c = cs["dense.c"]
    sp = cs["sparse.c"]

    r1 = chk.rule("C20-R1", "stable storage under export: closed writer/free set; getbuf/relbuf contract; shape and strides refreshed on every export",
                  "an exported buffer stays valid and shares memory with the matrix; views describe the current size")
    cd.writer_rule(r1, cs)
    for fn in ("matrix_buffer_getbuf", "matrix_buffer_relbuf"):
        if fn not in c.funcs:
            raise AnalysisError("dense.c: %s not found" % fn)
    node = c.funcs["matrix_buffer_getbuf"]
    sim = cm.Simulator(c, "matrix_buffer_getbuf")
    want = {"view->buf": "self->buffer", "view->obj": "self", "self->shape[0]": "self->nrows", "self->shape[1]": "self->ncols",
            "self->strides[0]": "view->itemsize", "self->strides[1]": "(self->nrows * view->itemsize)",
            "view->shape": "self->shape", "view->strides": "self->strides", "view->ndim": "2"}
    found = {}
    for n in cf.walk(node):
        if n.get("k") == "BinaryOperator" and n.get("op") == "=" and not n.get("bm") and n.get("b") is not None:
            e = sim.stmt_expr(n)
            if e is None or e[0] != "assign":
                continue
            lhs = cx.unparse(e[2])
            rhs = cx.unparse(cx.strip_casts(e[3]))
            # enclosing conditions
            conds = []
            _enclosing_conds(sim, sim.body, n, [], conds)
            found.setdefault(lhs, []).append((rhs, conds, c.line_of(n["b"])))
    where = "src/C/dense.c:matrix_buffer_getbuf"
    for lhs, rhs in want.items():
        key = "getbuf:%s = %s" % (lhs, rhs)
        got = found.get(lhs, [])
        if not got:
            r1.violation(key, where, "the export does not set %s" % lhs, rhs, "absent")
            continue
        val, conds, line = got[0]
        if _squash(val) != _squash(rhs):
            r1.violation(key, where + ":%d" % line, "the export sets %s to something else than the matrix's current state" % lhs, rhs, val)
            continue
        bad = [cx.unparse(k) for k in conds if not (cx.idents(k) <= {"flags", "PyBUF_STRIDES", "PyBUF_FORMAT", "PyBUF_ND"})]
        if bad:
            r1.violation(key + ":unconditional", where + ":%d" % line,
                         "%s is refreshed only under %s: a later export can describe a stale size" % (lhs, bad),
                         "assigned on every export (conditions on `flags` only)", bad)
        else:
            r1.ok(key, where + ":%d" % line)
    gtxt = _squash(_fn_text(c, "matrix_buffer_getbuf"))
    for pat, what in ((r"Py_INCREF\(self\)", "takes a reference on the matrix"), (r"self->ob_exports\+\+", "counts the export")):
        if re.search(pat, gtxt):
            r1.ok("getbuf:" + what, where)
        else:
            r1.violation("getbuf:" + what, where, "the export no longer %s" % what, pat, "absent")
    if re.search(r"self->ob_exports--", _squash(_fn_text(c, "matrix_buffer_relbuf"))):
        r1.ok("relbuf:uncounts the export", "src/C/dense.c:matrix_buffer_relbuf")
    else:
        r1.violation("relbuf:uncounts the export", "src/C/dense.c:matrix_buffer_relbuf", "release does not decrement ob_exports", "ob_exports--", "absent")
    r1.require(14)

    r2 = chk.rule("C20-R2", "__reduce__ state <-> constructor parameters (arity, order, kinds); list of len(matrix) items of the matrix's own type",
                  "pickling / copy reproduce size, typecode and values")
    gs = _squash(_fn_text(c, "matrix_getstate"))
    wnew = cm.Wrapper(c, "matrix_new")
    kws = wnew.kwlist or []
    m = re.search(r'Py_BuildValue\("(\w+)",(\w+),(\w+),TC_CHAR\[MAT_ID\(self\)\]\)', gs)
    where = "src/C/dense.c:matrix_getstate"
    lst = sz = None
    if m:
        lst, sz = m.group(2), m.group(3)
    is_list = bool(lst) and re.search(r"%s=PyList_New\(MAT_LGT\(self\)\)" % re.escape(lst), gs)
    is_size = bool(sz) and re.search(r"%s=PyTuple_New\(2\)" % re.escape(sz), gs)
    if m and is_list and is_size and kws[:3] == ["x", "size", "tc"] and len(m.group(1)) == 3:
        r2.ok("dense:state (list, size, tc) <-> matrix_new(x, size, tc)", where, "format %s" % m.group(1))
    else:
        r2.violation("dense:state (list, size, tc) <-> matrix_new(x, size, tc)", where,
                     "state tuple and constructor parameters disagree (expected: value list of MAT_LGT(self) items, 2-tuple size, typecode)",
                     "(list, size, TC_CHAR[id]) vs kwlist x,size,tc", (m.groups() if m else None, kws))
    L, S = re.escape(lst or "list"), re.escape(sz or "size")
    checks = [
        (r"for\((\w+)=0;\1<MAT_LGT\(self\);\1\+\+\)", "every element is stored"),
        (r"PyList_SET_ITEM\(%s,(\w+),num2PyObject\[MAT_ID\(self\)\]\(MAT_BUF\(self\),\1\)\)" % L, "item i converted with the matrix's own type from its own buffer"),
        (r"PyTuple_SET_ITEM\(%s,0,PyLong_FromLong\(MAT_NROWS\(self\)\)\)" % S, "size[0] = nrows"),
        (r"PyTuple_SET_ITEM\(%s,1,PyLong_FromLong\(MAT_NCOLS\(self\)\)\)" % S, "size[1] = ncols"),
    ]
    for pat, what in checks:
        if re.search(pat, gs):
            r2.ok("dense getstate:" + what, where)
        else:
            r2.violation("dense getstate:" + what, where, "matrix_getstate: %s - not found" % what, pat, "absent")
    rd = _squash(_fn_text(c, "matrix_reduce"))
    if re.search(r'Py_BuildValue\("ON",Py_TYPE\(self\),matrix_getstate\(self\)\)', rd):
        r2.ok("dense reduce: (type, state)", "src/C/dense.c:matrix_reduce")
    else:
        r2.violation("dense reduce: (type, state)", "src/C/dense.c:matrix_reduce", "__reduce__ does not return (type(self), getstate(self))", "ON", rd[:80])
    if "spmatrix_getstate" in sp.funcs and "spmatrix_new" in sp.funcs:
        sgs = _squash(_fn_text(sp, "spmatrix_getstate"))
        skw = cm.Wrapper(sp, "spmatrix_new").kwlist or []
        m2 = re.search(r'Py_BuildValue\("(\w+)",(\w+),(\w+),(\w+),(\w+),', sgs)
        if m2 and skw[:5] == ["V", "I", "J", "size", "tc"] and [m2.group(i) for i in (2, 3, 4, 5)] == ["Vl" if False else m2.group(2), m2.group(3), m2.group(4), m2.group(5)]:
            order = [m2.group(i) for i in (2, 3, 4, 5)]
            ok_order = order[0].lower().startswith("v") and order[1].lower().startswith("i") and order[2].lower().startswith("j") and "size" in order[3].lower()
            if ok_order:
                r2.ok("sparse:state (V, I, J, size, tc) <-> spmatrix_new(V, I, J, size, tc)", "src/C/sparse.c:spmatrix_getstate", order)
            else:
                r2.violation("sparse:state (V, I, J, size, tc) <-> spmatrix_new(V, I, J, size, tc)", "src/C/sparse.c:spmatrix_getstate",
                             "state order differs from the constructor's parameter order", skw[:5], order)
        else:
            r2.undecided("sparse:state <-> spmatrix_new", "src/C/sparse.c:spmatrix_getstate", "Py_BuildValue shape not recognised (%s)" % (skw[:5],))
    # the size element of the reduced state is applied whenever it is given (also (0, 0))
    from .. import ceval as cev
    sim_n = cm.Simulator(c, "matrix_new")
    applied = None
    for st in cf.walk(sim_n.body):
        if st.get("k") == "IfStmt" and len(st.get("c", [])) > 1 and st.get("b") is not None:
            stores = [x for x in cf.walk(st["c"][1]) if x.get("k") == "BinaryOperator" and x.get("op") == "=" and x.get("c")
                      and cf.strip(x["c"][0]).get("k") == "MemberExpr" and cf.strip(x["c"][0]).get("n") == "nrows"]
            if stores and applied is None:
                ce_ = sim_n.cond_of(st)
                if ce_ is not None:
                    applied = (st, ce_)
    if applied is None:
        raise AnalysisError("matrix_new: the statement applying the size argument was not found")
    st_, ce_ = applied
    names = cev.free_names(ce_)
    key = "matrix_new:size applied whenever given"
    where = "src/C/dense.c:matrix_new:%d" % c.line_of(st_["b"])
    if not names <= {"ret", "size", "nrows", "ncols"}:
        r2.undecided(key, where, "guard of the reshape uses %s" % sorted(names))
    else:
        bad = None
        for nr in (0, 1, 2):
            for nc in (0, 1, 2):
                try:
                    v_ = cev.ceval(ce_, {"ret": 1, "size": 1, "nrows": nr, "ncols": nc})
                except cev.Unknown:
                    v_ = None
                if not v_ and bad is None:
                    bad = (nr, nc)
        if bad:
            r2.violation(key, where, "with a size argument (%d, %d) the requested shape is not applied (guard `%s` is false): "
                         "matrix(list, size, tc) - the form __reduce__ emits - does not rebuild a matrix of that shape" % (bad[0], bad[1], cx.unparse(ce_)),
                         "guard true whenever size is given", cx.unparse(ce_))
        else:
            r2.ok(key, where, cx.unparse(ce_))
    from .. import cwrap_rules as cw
    for fname in ("dense.c", "base.c", "sparse.c"):
        cw.buildvalue_rule(r2, cs[fname], cs[fname].order)
    # the requested typecode reaches every matrix the constructor helpers build
    for fname in ("dense.c", "sparse.c"):
        cc = cs[fname]
        for fn in cc.order:
            nd = cc.funcs[fn]
            if "id" not in [x.get("n") for x in nd.get("c", []) if x.get("k") == "ParmVarDecl"] or fn in ("Matrix_New", "SpMatrix_New"):
                continue
            t_ = cx.strip_pp(cc.text(nd["b"], nd["e"]))
            for m_ in re.finditer(r"\b(Matrix_New|SpMatrix_New)\s*\(", t_):
                i_, d_ = m_.end(), 1
                while i_ < len(t_) and d_:
                    if t_[i_] == "(":
                        d_ += 1
                    elif t_[i_] == ")":
                        d_ -= 1
                    i_ += 1
                args_ = [a.strip() for a in cf.split_top(t_[m_.end():i_ - 1])]
                key = "%s:%s:%s(.., %s) carries the requested typecode" % (fname, fn, m_.group(1), args_[-1] if args_ else "?")
                where_ = "src/C/%s:%s:%d" % (fname, fn, cc.line_of(nd["b"]) + t_[:m_.start()].count("\n"))
                if args_ and re.search(r"\bid\b", args_[-1]):
                    r2.ok(key, where_)
                else:
                    r2.violation(key, where_, "a matrix is built with the fixed typecode `%s` although the caller asked for `id`: "
                                 "the (list, size, tc) state of an empty 'd'/'z' matrix is rebuilt as another type" % (args_[-1] if args_ else "?"),
                                 "an expression of id", args_[-1] if args_ else "?")
    r2.require(7)

    r3 = chk.rule("C20-R3", "tofile/fromfile use the same byte count on the matrix buffer; fromfile checks the bytes read",
                  "tofile/fromfile reproduce the matrix")
    tf, ff = _squash(_fn_text(c, "matrix_tofile")), _squash(_fn_text(c, "matrix_fromfile"))
    cnt_t = re.search(r"PyBytes_FromStringAndSize\(self->buffer,([^;]*?)\);", tf)
    rd_ = re.search(r'(\w+)=PyObject_CallMethod\(\w+,"read","n",([^;]*?)\);', ff)
    cpy_f = re.search(r"memcpy\(self->buffer,\w+\.buf,([^;]*?)\);", ff)

    def canon(t):
        # width casts of the count (Py_ssize_t / size_t) do not change which count is used
        return re.sub(r"\((?:Py_ssize_t|size_t|int_t|long)\)", "", t.replace("MAT_ID(self)", "self->id")) if t else t
    vals = [canon(cnt_t.group(1)) if cnt_t else None, canon(rd_.group(2)) if rd_ else None, canon(cpy_f.group(1)) if cpy_f else None]
    if all(v is not None for v in vals) and len(set(vals)) == 1 and "E_SIZE[self->id]*MAT_LGT(self)" in vals[0]:
        r3.ok("dense:byte count agreement", "src/C/dense.c:matrix_tofile/fromfile", vals[0])
    else:
        r3.violation("dense:byte count agreement", "src/C/dense.c:matrix_tofile/fromfile",
                     "writer, reader request and copy use different byte counts", "E_SIZE[id]*MAT_LGT(self) three times", vals)
    bvar = rd_.group(1) if rd_ else "b"
    if ("PyBytes_GET_SIZE(%s)!=E_SIZE[self->id]*MAT_LGT(self)" % bvar) in canon(ff):
        r3.ok("dense:fromfile checks the number of bytes read", "src/C/dense.c:matrix_fromfile")
    else:
        r3.violation("dense:fromfile checks the number of bytes read", "src/C/dense.c:matrix_fromfile",
                     "short reads are not detected", "PyBytes_GET_SIZE(b) != E_SIZE[id]*MAT_LGT(self) -> error", "absent")
    r3.require(2)

    r4 = chk.rule("C20-R4", "buffer import: every element read goes through both strides as byte offsets with the source format's C type; one format table for import and export",
                  "construction from any buffer exporter reproduces the values for every stride layout")
    from .. import cwrap_rules as cwr
    # locals that always hold the same expression (a hoisted element address) are substituted back first
    bt = cwr.normalise_kernel_text(_fn_text(c, "Matrix_NewFromPyBuffer"), strip_casts=False, rename_loops=False)
    where = "src/C/dense.c:Matrix_NewFromPyBuffer"
    uses = [m_.start() for m_ in re.finditer(r"view->buf\b", bt)]
    good = list(re.finditer(r"\*\s*\(\s*([\w ]+?)\s*\*\s*\)\s*\(\s*\(\s*unsigned\s+char\s*\*\s*\)\s*view->buf\s*\+\s*i\s*\*\s*stride0\s*\+\s*j\s*\*\s*stride1\s*\)", bt))
    if len(good) == len(uses) and uses:
        r4.ok("import:all %d reads of view->buf apply i*stride0 + j*stride1" % len(uses), where)
    else:
        r4.violation("import:all reads of view->buf apply both strides", where,
                     "%d of %d uses of the source buffer are not of the form *(T*)((unsigned char*)view->buf + i*stride0 + j*stride1): "
                     "a bulk copy or a read that ignores a stride returns wrong elements for sliced / non-contiguous sources"
                     % (len(uses) - len(good), len(uses)), "strided element reads only", "%d other use(s)" % (len(uses) - len(good)))
    sq = _squash(bt)
    if re.search(r"stride0=view->strides\[0\]", sq) and re.search(r"stride1=view->ndim==2\?view->strides\[1\]:0", sq):
        r4.ok("import:stride0/stride1 are the exporter's strides", where)
    else:
        r4.violation("import:stride0/stride1 are the exporter's strides", where, "strides are not taken from the view", "view->strides[0], view->strides[1] (0 for 1-d)", "other")
    types = sorted({" ".join(g.group(1).split()) for g in good})
    if set(types) <= {"int", "int_t", "double", "double complex", "_Dcomplex"} and {"int_t", "double", "double complex"} <= set(types):
        r4.ok("import:element casts cover int/int_t/double/complex", where, types)
    else:
        r4.violation("import:element casts", where, "unexpected element types in the conversion arms", "int, int_t, double, double complex", types)
    gb = _squash(_fn_text(c, "matrix_buffer_getbuf"))
    if "FMT_STR[self->id]" in gb and re.search(r"strcmp\(view->format,FMT_STR\[0\]\)", sq) and re.search(r"FMT_STR\[1\]", sq) and re.search(r"FMT_STR\[2\]", sq):
        r4.ok("import/export share FMT_STR", where)
    else:
        r4.violation("import/export share FMT_STR", where, "export and import use different format tables", "FMT_STR in both", "differs")
    if re.search(r"view->itemsize!=E_SIZE\[src_id\]", sq):
        r4.ok("import:itemsize checked against E_SIZE[src_id]", where)
    else:
        r4.violation("import:itemsize checked against E_SIZE[src_id]", where, "element size of the source is not validated", "itemsize != E_SIZE[src_id] -> error", "absent")
    r4.require(5)

    r5 = chk.rule("C20-R5", "matrix(x), +x, slicing build new objects through Matrix_New*; getbuf aliases", "independent copies vs aliases")
    for fn, what in (("matrix_pos", "+x"), ("Matrix_NewFromMatrix", "matrix(x)"), ("matrix_subscr", "x[...]")):
        if fn not in c.funcs:
            raise AnalysisError("dense.c: %s not found" % fn)
        node = c.funcs[fn]
        made = [n for n in cf.walk(node) if n.get("k") == "CallExpr" and (cf.callee_name(n) or "").startswith("Matrix_New")]
        ret_self = any(n.get("k") == "ReturnStmt" and n.get("c") and cf.strip(n["c"][0]).get("ref") in ("self", "src") for n in cf.walk(node))
        key = "%s builds a new matrix (%s)" % (fn, what)
        if made and not ret_self:
            r5.ok(key, "src/C/dense.c:%s" % fn)
        else:
            r5.violation(key, "src/C/dense.c:%s" % fn, "%s can return the operand itself instead of a copy" % what, "Matrix_New*", "returns operand")
    r5.require(3)
    from .. import cmisc_rules as mr5
    r6 = chk.rule("C20-R6", "every exit after a successful PyObject_GetBuffer releases the view",
                  "an imported buffer stays usable by its owner: the exporter is never left locked")
    chk.note_analysed("exits_after_getbuffer", mr5.buffer_pairing_rule(r6, cs, ["dense.c", "sparse.c", "base.c"]))
    r6.require(3)
    return chk


def _enclosing_conds(sim, stmt, target, stack, out):
    """collect parsed conditions of the IfStmts that enclose node `target`"""
    if stmt is target:
        out.extend(stack)
        return True
    for ch in stmt.get("c", []):
        if stmt.get("k") == "IfStmt" and ch is not stmt["c"][0]:
            ce = sim.cond_of(stmt)
            if _enclosing_conds(sim, ch, target, stack + ([ce] if ce is not None else []), out):
                return True
        else:
            if _enclosing_conds(sim, ch, target, stack, out):
                return True
    return False
