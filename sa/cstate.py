"""C09-R6: hidden state in the compiled modules.  A file-scope variable or a `static`
local that some function other than the module initialisation writes is state that
survives the call: results would depend on the history of calls (and, for buffers used
while the GIL is released, on other threads)."""
import re

from . import cfront as cf

FILES = ["blas.c", "lapack.c", "misc_solvers.c", "base.c", "dense.c", "sparse.c"]

# confirmed by reading: (file, variable) -> reason
ALLOWED = {
    ("lapack.c", "py_select_r"): "Python callable for the real Schur ordering: stored immediately before dgees_, read only by the C callback during that call, which runs with the GIL held (C18-R4)",
    ("lapack.c", "py_select_c"): "as py_select_r, for zgees_",
    ("lapack.c", "py_select_gr"): "as py_select_r, for dgges_",
    ("lapack.c", "py_select_gc"): "as py_select_r, for zgges_",
}


def _is_init(fn):
    return fn.startswith("PyInit_") or re.fullmatch(r"init\w*", fn) is not None


def hidden_state_rule(rule, cs):
    nvars = 0
    for fname in FILES:
        c = cs[fname]
        # candidates: file-scope variables and static locals
        cand = {}
        for name, v in c.vars.items():
            if v.get("id"):
                cand[v["id"]] = (name, v.get("t") or "", "file scope")
        for fn in c.order:
            for n in cf.walk(c.funcs[fn]):
                if n.get("k") == "VarDecl" and n.get("sc") == "static" and n.get("id"):
                    cand[n["id"]] = (n.get("n"), n.get("t") or "", "static local of %s" % fn)
        nvars += len(cand)
        writes = {}
        for fn in c.order:
            if _is_init(fn):
                continue
            for n in cf.walk(c.funcs[fn]):
                tgt = None
                if n.get("k") in ("BinaryOperator", "CompoundAssignOperator") and (n.get("op") or "").endswith("=") \
                        and n.get("op") not in ("==", "!=", "<=", ">=") and n.get("c"):
                    tgt = n["c"][0]
                elif n.get("k") == "UnaryOperator" and n.get("op") in ("++", "--") and n.get("c"):
                    tgt = n["c"][0]
                if tgt is None:
                    continue
                # peel subscripts / members / casts down to the base declaration
                x = cf.strip(tgt)
                while x.get("k") in ("ArraySubscriptExpr", "MemberExpr", "ParenExpr", "ImplicitCastExpr", "CStyleCastExpr", "UnaryOperator") \
                        and x.get("c"):
                    if x.get("k") == "MemberExpr" and x.get("arrow"):
                        x = None        # write through a pointer: into the pointee, not the variable
                        break
                    if x.get("k") == "UnaryOperator" and x.get("op") == "*":
                        x = None
                        break
                    x = cf.strip(x["c"][0])
                if x is None or x.get("k") != "DeclRefExpr":
                    continue
                rid = x.get("refid")
                if rid in cand:
                    writes.setdefault(rid, []).append((fn, c.line_of(n.get("b")) if n.get("b") is not None else 0))
        for rid, (name, ty, where_) in sorted(cand.items(), key=lambda kv: kv[1][0] or ""):
            key = "%s:%s" % (fname, name)
            w = writes.get(rid)
            if not w:
                continue
            loc = "src/C/%s:%s:%d" % (fname, w[0][0], w[0][1])
            if (fname, name) in ALLOWED:
                rule.ok(key + ":named-exception", loc, ALLOWED[(fname, name)])
            else:
                rule.violation(key, loc,
                               "`%s %s` (%s) is written by %s: it outlives the call, so a later call - or a concurrent one while the GIL is "
                               "released - sees what this one left behind" % (ty, name, where_, ", ".join(sorted({f for f, _ in w}))),
                               "per-call storage (locals / malloc + free)", "persistent storage written at run time")
        rule.ok("%s:file-scope and static variables enumerated" % fname, "src/C/%s" % fname, "%d variables, %d written outside module init"
                % (len(cand), len(writes)))
    return nvars
