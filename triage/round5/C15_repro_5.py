# size setter: int overflow / truncation of the new dimensions
import subprocess, sys
from cvxopt import matrix
A = matrix([1, 2, 3, 4, 5, 6]); A.size = (2**32 + 2, 3); print(A.size)   # accepted, becomes (2, 3); expected TypeError
B = matrix(0.0, (0, 0)); B.size = (65536, 65536); print(B.size, len(B))  # accepted: 65536*65536 wraps to 0
r = subprocess.run([sys.executable, "-c",
  "from cvxopt import matrix; B=matrix(0.0,(0,0)); B.size=(65536,65536); print(B[0,0]); B[5,5]=1.0; print(B[100,100])"])
print("return code", r.returncode, "(-11 = SIGSEGV)")
print(matrix(1.0, (2**32 + 1, 1)).size, matrix(1, (2**31, 1)).size)      # constructor truncates too: (1,1), (0,1)
