# complex values with -0.0 real part or inf/nan imaginary part do not survive pickle/copy/deepcopy
import pickle, copy, io, struct
from cvxopt import matrix
A = matrix(0j, (2,1))
A.fromfile(io.BytesIO(struct.pack('4d', -0.0, 1.0, 1.0, float('inf'))))   # A = [(-0+1j), (1+infj)]
print('original ', list(A))
print('pickle   ', list(pickle.loads(pickle.dumps(A))))
print('copy     ', list(copy.copy(A)))
print('deepcopy ', list(copy.deepcopy(A)))
print('matrix(A)', list(matrix(A)))
B = matrix([complex(1e308, 1e308)]) * 10          # (inf+infj), reached by ordinary arithmetic
print(B[0], '->', pickle.loads(pickle.dumps(B))[0])
