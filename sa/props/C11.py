"""C11 - modeling expressions evaluate to what their formula says (structural part)."""
from .. import modeling_rules as mr
from ..core import Check
from ..world import World


def build(tier, repo):
    chk = Check(
        "C11", tier, repo,
        explanation=(
            "Static analysis of the expression classes of modeling.py (variable, _function, _lin, _minmax, "
            "_sum_minmax). That f.value() equals the formula and len(f) follows the broadcasting rule are "
            "statements about values and are NOT decided. Decided: (R1) no operator or term-merging helper "
            "writes in place to an object reachable from an argument other than self (interprocedural "
            "alias/effect analysis through attributes, dict items and iteration); (R2) the regular operators "
            "never return an operand itself, the in-place forms return self; (R3) every path through an "
            "operator ends in a return with a value or a raise, so unsupported combinations are refused "
            "rather than yielding None; (R4) attributes recomputed from each other in one block go through "
            "a temporary (no lost-update exchange); (R5) the convex and the concave side of every method are "
            "mirror-image code (cvx<->ccv, max<->min), which is what keeps the curvature bookkeeping "
            "consistent; (R7) negated terms change list; (R8) read-modify-write through an alias; (R9) every "
            "argument filed into a max/min is tested for the matching curvature on its path; (R10) an in-place "
            "operator replaces all components of self or none; (R11) the first entry of a constant term is a zero "
            "test only under its length-1 test; (R12) no in-place +=/-= of a non-sparse operand on a coefficient "
            "that may be sparse (the contract of spmatrix's in-place slots is read off sparse.c)."),
        trusted_base=["CPython ast", "sa/effects.py (alias/effect analysis)", "sa/pyfront.py CFG"],
        assumptions=["cvxopt matrix operators/two-argument indexing return new objects (C15)"])
    w = World(repo, need_c=False)
    r1 = chk.rule("C11-R1", "operators and term-merging helpers do not modify their argument operands",
                  "binary operators return new objects that do not alias (or disturb) their operands")
    n = mr.operand_effect_rule(r1, w)
    chk.note_analysed("methods_effect_analysed", n)
    r2 = chk.rule("C11-R2", "regular operators never return an operand; in-place forms return self", "+f and the binary operators return new objects; in-place forms modify self")
    r2b = chk.rule("C11-R2b", "in-place operators return self", "in-place forms")
    r3 = chk.rule("C11-R3", "every path of an operator returns a value or raises", "unsupported combinations are refused with an exception")
    mr.returns_rule(r2, r2b, r3, w)
    r4 = chk.rule("C11-R4", "attributes exchanged in one block go through a temporary", "multiplying by a negative scalar swaps convex and concave terms correctly")
    mr.swap_hazard_rule(r4, w)
    r5 = chk.rule("C11-R5", "convex/concave mirror symmetry of every method (cvx<->ccv, max<->min)", "a function accepted as convex really is; value follows the formula on both sides")
    mr.duality_rule(r5, w)
    nr = mr.dead_refusal_rule(r3, w)
    chk.note_analysed("raise_statements_checked", nr)
    r8 = chk.rule("C11-R8", "read-modify-write through an alias: the alias still denotes the object that is written",
                  "f.value() equals the formula when a scalar and a row coefficient of one variable are merged")
    nsa = mr.stale_alias_rule(r8, w)
    chk.note_analysed("aliased_read_modify_writes", nsa)
    r7 = chk.rule("C11-R7", "negated terms change between the convex and the concave list, copied terms do not",
                  "combinations that are not convex or concave are refused; a function accepted as convex really is")
    nn = mr.curvature_sign_rule(r7, w)
    chk.note_analysed("term_list_comprehensions", nn)
    r7.require(10)
    r9 = chk.rule("C11-R9", "arguments filed into a max/min are tested for the matching curvature on every path",
                  "combinations that are not convex or concave are refused; a function accepted as convex really is")
    chk.note_analysed("flist_admissions", mr.curvature_admission_rule(r9, w))
    r9.require(2)
    r10 = chk.rule("C11-R10", "an in-place operator replaces all components of self or none",
                   "the in-place forms evaluate to what the formula says (f *= 0 is the zero function)")
    chk.note_analysed("inplace_return_paths", mr.partial_overwrite_rule(r10, w))
    r10.require(4)
    r11 = chk.rule("C11-R11", "the first entry of a constant term is consulted as a zero test only when the constant has length 1",
                   "f.value() equals the formula: a vector constant whose first entry is 0 is not dropped")
    chk.note_analysed("constant_sentinel_tests", mr.sentinel_length_rule(r11, w))
    r11.require(4)
    r12 = chk.rule("C11-R12", "no in-place += / -= of a non-sparse operand on a coefficient that may be sparse",
                   "valid expressions with sparse coefficients (x + x[0], x + sum(x), x + S*x) are not refused")
    chk.note_analysed("sparse_inplace_sites", mr.sparse_inplace_rule(r12, w, repo))
    r12.require(2)
    r13 = chk.rule("C11-R13", "a length test constrains every type alternative of an `or` (and/or precedence)",
                   "combinations whose dimensions do not match are refused")
    chk.note_analysed("type_alternatives", mr.asymmetric_alternative_rule(r13, w))
    r13.require(2)
    r14 = chk.rule("C11-R14", "an argument admitted as dense-or-sparse is not measured with len() (nnz of a sparse matrix)",
                   "len(f) follows the broadcasting rule for sparse constants too")
    chk.note_analysed("dense_or_sparse_arguments", mr.sparse_len_rule(r14, w))
    r14.require(4)
    r15 = chk.rule("C11-R15", "value(): None results of _vecmax/_vecmin are propagated, and the returned object is new",
                   "f.value() equals the formula (None when a variable has no value) and does not alias f")
    chk.note_analysed("none_results", mr.none_result_rule(r15, w))
    chk.note_analysed("value_returns", mr.value_copy_rule(r15, w))
    r15.require(4)
    r16 = chk.rule("C11-R16", "every path that returns the fresh result of an operator gives it a term (it keeps the operand's length)",
                   "len(f) follows the broadcasting rule; mismatched dimensions are refused")
    chk.note_analysed("fresh_result_operators", mr.fresh_result_rule(r16, w))
    r16.require(4)
    r17 = chk.rule("C11-R17", "_vecmax on the max side, _vecmin on the min side; the two reducers are mirror images",
                   "f.value() equals the formula for max and for min alike")
    chk.note_analysed("reducer_calls", mr.minmax_pairing_rule(r17, w))
    r17.require(3)
    from .. import w7_rules as w7
    r18 = chk.rule("C11-R18", "the broadcast arm (`X = X op E`) and the in-place arm (`X op= E`) of one test apply the same operation",
                   "f -= g subtracts g whatever the lengths of f and g")
    chk.note_analysed("broadcast_inplace_pairs", w7.arm_operator_rule(r18, w.mods["modeling"].tree, "modeling.py"))
    r18.require(4)
    return chk
